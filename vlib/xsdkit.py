"""XSD-based oracles built from the schemas shipped in /repo/spec (libxml2 decides).

* PartValidator    – whole part after markup-compatibility preprocessing -> Counter of messages
* TypeValidator    – one lexical value against one named simple type (or xsd built-in)
* FragmentValidator– one element (deep) against one named complex type
* SkeletonValidator– child order/cardinality/choice of one element against one complex type,
                     children's contents and all attributes ignored
* XsdModel         – parsed view of the schemas (content models, attributes, enumerations):
                     used to *enumerate* workloads and look up declared types, never for a verdict.
"""
from __future__ import annotations

import atexit
import copy
import os
import re
import shutil
import tempfile
from collections import Counter

from lxml import etree

from . import env

XS = "http://www.w3.org/2001/XMLSchema"
MC = "http://schemas.openxmlformats.org/markup-compatibility/2006"
NS = {
    "a": "http://schemas.openxmlformats.org/drawingml/2006/main",
    "p": "http://schemas.openxmlformats.org/presentationml/2006/main",
    "c": "http://schemas.openxmlformats.org/drawingml/2006/chart",
    "r": "http://schemas.openxmlformats.org/officeDocument/2006/relationships",
    "s": "http://schemas.openxmlformats.org/officeDocument/2006/sharedTypes",
    "pic": "http://schemas.openxmlformats.org/drawingml/2006/picture",
    "cdr": "http://schemas.openxmlformats.org/drawingml/2006/chartDrawing",
    "dgm": "http://schemas.openxmlformats.org/drawingml/2006/diagram",
    "pr": "http://schemas.openxmlformats.org/package/2006/relationships",
    "ct": "http://schemas.openxmlformats.org/package/2006/content-types",
    "cp": "http://schemas.openxmlformats.org/package/2006/metadata/core-properties",
    "ep": "http://schemas.openxmlformats.org/officeDocument/2006/extended-properties",
    "sml": "http://schemas.openxmlformats.org/spreadsheetml/2006/main",
    "xsd": XS,
}
PFX = {v: k for k, v in NS.items()}
PFX.update({"http://purl.org/dc/elements/1.1/": "dc", "http://purl.org/dc/terms/": "dcterms", MC: "mc"})
PLAIN = etree.XMLParser(resolve_entities=False, no_network=True, huge_tree=True)

_workdir = None


def workdir():
    global _workdir
    if _workdir is None:
        _workdir = tempfile.mkdtemp(prefix="pptx-xsd-")
        atexit.register(shutil.rmtree, _workdir, True)
    return _workdir


def q(ns, local):
    return "{%s}%s" % (ns, local)


def pfx_tag(tag):
    """'{ns}local' -> 'pfx:local' for readability."""
    if not isinstance(tag, str) or not tag.startswith("{"):
        return str(tag)
    ns, local = tag[1:].split("}")
    return "%s:%s" % (PFX.get(ns, "ns?"), local)


def clark(pt):
    pfx, local = pt.split(":")
    return q(NS[pfx], local)


# =========================================================================== schema sets
class SchemaSet:
    """A directory of (possibly transformed) copies of the shipped XSDs + compiled schemas by ns."""

    def __init__(self, name, transform=None):
        self.dir = os.path.join(workdir(), name)
        os.makedirs(self.dir, exist_ok=True)
        self.ns_file = {}
        self._compiled = {}
        for src_dir in (env.XSD4, env.XSD2):
            for fn in sorted(os.listdir(src_dir)):
                if not fn.endswith(".xsd"):
                    continue
                tree = etree.parse(os.path.join(src_dir, fn), PLAIN)
                root = tree.getroot()
                tns = root.get("targetNamespace")
                for imp in root.iter(q(XS, "import")):
                    loc = imp.get("schemaLocation", "")
                    ins = imp.get("namespace")
                    if loc.startswith("http://dublincore.org") and loc.endswith("dc.xsd"):
                        imp.set("schemaLocation", "dc.xsd")
                    elif loc.startswith("http://dublincore.org"):
                        imp.set("schemaLocation", "dcterms.xsd")
                    elif ins == "http://www.w3.org/XML/1998/namespace" and not loc:
                        imp.set("schemaLocation", "xml.xsd")
                if transform:
                    transform(root, tns)
                tree.write(os.path.join(self.dir, fn), xml_declaration=True, encoding="UTF-8")
                if tns:
                    self.ns_file.setdefault(tns, fn)
        for fn in ("dc.xsd", "dcterms.xsd", "xml.xsd"):
            shutil.copy(os.path.join(env.VERIF, "schemas", fn), os.path.join(self.dir, fn))

    def schema_for_ns(self, ns):
        if ns not in self._compiled:
            fn = self.ns_file.get(ns)
            if fn is None:
                self._compiled[ns] = None
            else:
                try:
                    self._compiled[ns] = etree.XMLSchema(etree.parse(os.path.join(self.dir, fn), PLAIN))
                except etree.XMLSchemaParseError as e:  # oracle unavailable, never a verdict
                    self._compiled[ns] = None
                    self._compile_errors = getattr(self, "_compile_errors", []) + ["%s: %s" % (fn, e)]
        return self._compiled[ns]


def _add_type_elements(root, tns):
    """Augment: a global element __<TypeName> for every named type, so any type can be a root."""
    if not tns:
        return
    pfx = None
    for p, u in root.nsmap.items():
        if u == tns and p:
            pfx = p
    have = {e.get("name") for e in root.findall(q(XS, "element"))}
    for t in list(root.findall(q(XS, "complexType"))) + list(root.findall(q(XS, "simpleType"))):
        name = t.get("name")
        if name and ("__" + name) not in have:
            e = etree.SubElement(root, q(XS, "element"))
            e.set("name", "__" + name)
            e.set("type", ("%s:%s" % (pfx, name)) if pfx else name)


def _skeletonise(root, tns):
    """Structure only: every element is xsd:anyType, every attribute declaration is dropped in
    favour of anyAttribute(skip); complex types keep their particles; a global __<Type> element."""
    xsd_pfx = [p for p, u in root.nsmap.items() if u == XS and p][0]
    anytype = "%s:anyType" % xsd_pfx
    for el in root.iter(q(XS, "element")):
        if el.get("ref") is None:
            for ch in list(el):
                if ch.tag in (q(XS, "complexType"), q(XS, "simpleType")):
                    el.remove(ch)
            el.set("type", anytype)
        for a in ("default", "fixed", "nillable"):
            if a in el.attrib:
                del el.attrib[a]
    for ct in root.iter(q(XS, "complexType")):
        for ch in list(ct):
            if ch.tag in (q(XS, "attribute"), q(XS, "attributeGroup"), q(XS, "anyAttribute")):
                ct.remove(ch)
        sc = ct.find(q(XS, "simpleContent"))
        if sc is not None:
            ct.remove(sc)
            ct.set("mixed", "true")
        aa = etree.SubElement(ct, q(XS, "anyAttribute"))
        aa.set("processContents", "skip")
    for ag in list(root.findall(q(XS, "attributeGroup"))):
        root.remove(ag)
    for at in list(root.findall(q(XS, "attribute"))):
        root.remove(at)
    for an in root.iter(q(XS, "any")):
        an.set("processContents", "skip")
    _add_type_elements_complex_only(root, tns)


def _add_type_elements_complex_only(root, tns):
    if not tns:
        return
    pfx = None
    for p, u in root.nsmap.items():
        if u == tns and p:
            pfx = p
    for t in list(root.findall(q(XS, "complexType"))):
        name = t.get("name")
        if name:
            e = etree.SubElement(root, q(XS, "element"))
            e.set("name", "__" + name)
            e.set("type", ("%s:%s" % (pfx, name)) if pfx else name)


def _order_only(root, tns):
    """Skeleton with every particle optional: only *order* and choice/max cardinality remain, so a
    parent that is still missing required children (mid-construction) is not an error."""
    _skeletonise(root, tns)
    for el in root.iter():
        if not isinstance(el.tag, str):
            continue
        par = el.getparent()
        if par is None:
            continue
        if etree.QName(el).localname in ("element", "sequence", "choice", "group", "any") and etree.QName(par).localname not in ("schema", "group"):
            el.set("minOccurs", "0")


_sets = {}


def schema_set(kind):
    if kind not in _sets:
        if kind == "real":
            _sets[kind] = SchemaSet("real", _add_type_elements)
        elif kind == "skeleton":
            _sets[kind] = SchemaSet("skeleton", _skeletonise)
        elif kind == "order":
            _sets[kind] = SchemaSet("order", _order_only)
        else:
            raise KeyError(kind)
    return _sets[kind]


# =========================================================================== MC preprocessing
def mc_preprocess(root):
    """Markup-compatibility preprocessing (ISO 29500-3) as a consumer that understands only the
    transitional namespaces: take mc:Fallback of every AlternateContent, drop Ignorable content.
    Works on (and returns) a deep copy."""
    root = copy.deepcopy(root)
    ignorable = set()
    for el in root.iter():
        if not isinstance(el.tag, str):
            continue
        v = el.get(q(MC, "Ignorable"))
        if v:
            for p in v.split():
                uri = el.nsmap.get(p)
                if uri:
                    ignorable.add(uri)
    # AlternateContent -> Fallback children (innermost first)
    while True:
        acs = [e for e in root.iter(q(MC, "AlternateContent"))]
        if not acs:
            break
        ac = acs[-1]
        parent = ac.getparent()
        fb = ac.find(q(MC, "Fallback"))
        repl = list(fb) if fb is not None else []
        if parent is None:
            break
        idx = parent.index(ac)
        parent.remove(ac)
        for i, ch in enumerate(repl):
            parent.insert(idx + i, ch)
    for el in list(root.iter()):
        if not isinstance(el.tag, str):
            continue
        for k in list(el.attrib):
            if k.startswith("{"):
                ns = k[1:].split("}")[0]
                if ns == MC or ns in ignorable:
                    del el.attrib[k]
    for el in list(root.iter()):
        if isinstance(el.tag, str) and el.tag.startswith("{"):
            ns = el.tag[1:].split("}")[0]
            if ns in ignorable and el.getparent() is not None:
                el.getparent().remove(el)
    return root


# =========================================================================== validators
_msg_ns = re.compile(r"\{[^}]*\}")


def _norm_msg(m):
    return _msg_ns.sub(lambda mo: PFX.get(mo.group(0)[1:-1], "?") + ":", m)


def _where(root, err):
    """'grandparent/parent/element' (canonical prefixes) of the node an error is about, or ''."""
    try:
        nsm = {}
        for el in root.iter():
            if isinstance(el.tag, str):
                for k, v in el.nsmap.items():
                    if k:
                        nsm.setdefault(k, v)
        nodes = root.getroottree().xpath(err.path, namespaces=nsm)
        if not nodes:
            return ""
        node = nodes[0]
        # a child standing next to <c:delete/> in c:dLbls / c:dLbl is its own mechanism (the two exclude each other)
        par = node.getparent()
        mark = ""
        if par is not None and isinstance(par.tag, str) and par.tag in (q(NS["c"], "dLbls"), q(NS["c"], "dLbl")) and par.find(q(NS["c"], "delete")) is not None:
            mark = "(beside-c:delete)"
        chain = []
        while node is not None and len(chain) < 3:
            chain.append(pfx_tag(node.tag))
            node = node.getparent()
        return "/".join(reversed(chain)) + mark
    except Exception:
        return ""


def validate_root(root, schema):
    """-> Counter of 'where | normalised libxml2 message' strings (empty = valid)."""
    if schema.validate(root):
        return Counter()
    return Counter("%s | %s" % (_where(root, e), _norm_msg(e.message)) for e in schema.error_log)


def validate_part(blob_or_root):
    """Validate a whole part.  Returns (Counter | None, reason).  None = no shipped schema for the
    root namespace (skipped and counted by callers) or not XML."""
    if isinstance(blob_or_root, (bytes, str)):
        try:
            root = etree.fromstring(blob_or_root, PLAIN)
        except etree.XMLSyntaxError as e:
            return Counter({"NOT WELL-FORMED: %s" % e: 1}), "malformed"
    else:
        root = blob_or_root
    ns = root.tag[1:].split("}")[0] if root.tag.startswith("{") else ""
    schema = schema_set("real").schema_for_ns(ns)
    if schema is None:
        return None, "no schema for namespace %s" % ns
    return validate_root(mc_preprocess(root), schema), "ok"


def new_errors(before, after):
    """Messages present in `after` more often than in `before` (Counter difference)."""
    return after - before


_XSD_BUILTIN_SCHEMA = {}


def _builtin_schema(local):
    if local not in _XSD_BUILTIN_SCHEMA:
        doc = etree.fromstring(
            '<xsd:schema xmlns:xsd="%s"><xsd:element name="v" type="xsd:%s"/></xsd:schema>' % (XS, local)
        )
        _XSD_BUILTIN_SCHEMA[local] = etree.XMLSchema(doc)
    return _XSD_BUILTIN_SCHEMA[local]


def type_valid(type_qname, text):
    """Is `text` a valid lexical form of the simple type `{ns}Name` (or `{XS}builtin`)?
    -> (bool, message)"""
    ns, local = type_qname[1:].split("}")
    if ns == XS:
        sch = _builtin_schema(local)
        el = etree.Element("v")
    else:
        sch = schema_set("real").schema_for_ns(ns)
        if sch is None:
            raise LookupError("no schema for " + ns)
        el = etree.Element(q(ns, "__" + local))
    el.text = text
    ok = sch.validate(el)
    return ok, ("" if ok else _norm_msg(sch.error_log[0].message))


def fragment_errors(el, type_qname):
    """Deep validation of element `el` as complex type `type_qname`."""
    ns, local = type_qname[1:].split("}")
    sch = schema_set("real").schema_for_ns(ns)
    cp = mc_preprocess(el)
    cp.tag = q(ns, "__" + local)
    return validate_root(cp, sch)


def skeleton_errors(parent, type_qname, child_tags=None, kind="skeleton"):
    """Order/cardinality/choice of parent's children against complex type `type_qname`.
    kind="order": order and maximum cardinality only (missing required children tolerated)."""
    ns, local = type_qname[1:].split("}")
    sch = schema_set(kind).schema_for_ns(ns)
    if sch is None:
        raise LookupError("no skeleton schema for " + ns)
    root = etree.Element(q(ns, "__" + local))
    tags = child_tags if child_tags is not None else [c.tag for c in parent if isinstance(c.tag, str)]
    for t in tags:
        etree.SubElement(root, t)
    return validate_root(root, sch)


# =========================================================================== XsdModel
class Particle:
    __slots__ = ("kind", "min", "max", "children", "name", "type")

    def __init__(self, kind, mn=1, mx=1, children=None, name=None, type=None):
        self.kind = kind  # 'seq' | 'choice' | 'elem' | 'any'
        self.min, self.max = mn, mx
        self.children = children or []
        self.name = name  # clark tag for elem
        self.type = type  # clark type name for elem

    def elements(self):
        if self.kind == "elem":
            yield self
        for c in self.children:
            yield from c.elements()


class XsdModel:
    def __init__(self):
        self.types = {}  # clark type -> (xsd node, tns, nsmap)
        self.groups = {}
        self.attr_groups = {}
        self.global_elems = {}  # clark tag -> clark type
        self.global_attrs = {}  # clark attr -> clark type
        self._particles = {}
        self._attrs = {}
        for src_dir in (env.XSD4, env.XSD2):
            for fn in sorted(os.listdir(src_dir)):
                if not fn.endswith(".xsd") or fn in ("opc-digSig.xsd",):
                    continue
                root = etree.parse(os.path.join(src_dir, fn), PLAIN).getroot()
                tns = root.get("targetNamespace") or ""
                for ch in root:
                    if not isinstance(ch.tag, str):
                        continue
                    kind = etree.QName(ch).localname
                    name = ch.get("name")
                    if not name:
                        continue
                    key = q(tns, name)
                    if kind in ("complexType", "simpleType"):
                        self.types[key] = (ch, tns)
                    elif kind == "group":
                        self.groups[key] = (ch, tns)
                    elif kind == "attributeGroup":
                        self.attr_groups[key] = (ch, tns)
                    elif kind == "element":
                        self.global_elems[key] = self._qn(ch, ch.get("type"), tns) if ch.get("type") else None
                    elif kind == "attribute":
                        self.global_attrs[key] = self._qn(ch, ch.get("type"), tns) if ch.get("type") else None
        # element tag -> {context type -> declared type}
        self.elem_decls = {}
        for tname, (node, tns) in self.types.items():
            if etree.QName(node).localname != "complexType":
                continue
            p = self.particle(tname)
            if p is None:
                continue
            for e in p.elements():
                self.elem_decls.setdefault(e.name, {})[tname] = e.type
        for tag, typ in self.global_elems.items():
            self.elem_decls.setdefault(tag, {})["(global)"] = typ

    @staticmethod
    def _qn(node, qname, tns):
        if qname is None:
            return None
        if ":" in qname:
            p, l = qname.split(":")
            return q(node.nsmap[p], l)
        return q(node.nsmap.get(None, tns), qname)

    def is_complex(self, tname):
        t = self.types.get(tname)
        return t is not None and etree.QName(t[0]).localname == "complexType"

    # ---- content model
    def particle(self, tname):
        if tname in self._particles:
            return self._particles[tname]
        node, tns = self.types[tname]
        res = None
        for ch in node:
            if isinstance(ch.tag, str) and etree.QName(ch).localname in ("sequence", "choice", "group", "all"):
                res = self._build(ch, tns)
                break
        self._particles[tname] = res
        return res

    def _occ(self, n):
        mn = int(n.get("minOccurs", "1"))
        mx = n.get("maxOccurs", "1")
        mx = 10**9 if mx == "unbounded" else int(mx)
        return mn, mx

    def _build(self, n, tns):
        kind = etree.QName(n).localname
        mn, mx = self._occ(n)
        if kind in ("sequence", "choice", "all"):
            kids = [self._build(c, tns) for c in n if isinstance(c.tag, str) and etree.QName(c).localname in ("sequence", "choice", "group", "element", "any")]
            return Particle("seq" if kind != "choice" else "choice", mn, mx, kids)
        if kind == "group":
            ref = self._qn(n, n.get("ref"), tns)
            gnode, gtns = self.groups[ref]
            inner = [c for c in gnode if isinstance(c.tag, str) and etree.QName(c).localname in ("sequence", "choice", "all")][0]
            p = self._build(inner, gtns)
            # occurrence on the group reference wraps the inner particle
            if (mn, mx) != (1, 1):
                if (p.min, p.max) == (1, 1):
                    p.min, p.max = mn, mx  # occurrence of the group reference applies to its one particle
                    return p
                return Particle("seq", mn, mx, [p])
            return p
        if kind == "element":
            if n.get("ref"):
                name = self._qn(n, n.get("ref"), tns)
                typ = self.global_elems.get(name)
            else:
                name = q(tns, n.get("name"))
                typ = self._qn(n, n.get("type"), tns) if n.get("type") else None
            return Particle("elem", mn, mx, name=name, type=typ)
        if kind == "any":
            return Particle("any", mn, mx)
        raise ValueError(kind)

    # ---- attributes
    def attributes(self, tname):
        """clark complex type -> {attr clark-or-plain name: (type clark|None, use, default)}"""
        if tname in self._attrs:
            return self._attrs[tname]
        node, tns = self.types[tname]
        out = {}
        self._collect_attrs(node, tns, out)
        self._attrs[tname] = out
        return out

    def _collect_attrs(self, node, tns, out):
        for ch in node:
            if not isinstance(ch.tag, str):
                continue
            kind = etree.QName(ch).localname
            if kind == "attribute":
                if ch.get("ref"):
                    name = self._qn(ch, ch.get("ref"), tns)
                    typ = self.global_attrs.get(name)
                else:
                    name = ch.get("name")
                    typ = self._qn(ch, ch.get("type"), tns) if ch.get("type") else None
                out[name] = (typ, ch.get("use", "optional"), ch.get("default"))
            elif kind == "attributeGroup":
                ref = self._qn(ch, ch.get("ref"), tns)
                gnode, gtns = self.attr_groups[ref]
                self._collect_attrs(gnode, gtns, out)
            elif kind in ("simpleContent", "complexContent", "extension", "restriction"):
                self._collect_attrs(ch, tns, out)

    # ---- simple types
    def enumeration(self, tname, _seen=None):
        """All enumeration tokens of a simple type (following restriction bases and unions)."""
        if tname is None or tname.startswith("{%s}" % XS):
            return None
        t = self.types.get(tname)
        if t is None:
            return None
        node, tns = t
        r = node.find(q(XS, "restriction"))
        if r is not None:
            toks = [e.get("value") for e in r.findall(q(XS, "enumeration"))]
            if toks:
                return toks
            return self.enumeration(self._qn(r, r.get("base"), tns))
        u = node.find(q(XS, "union"))
        if u is not None:
            toks = []
            for m in (u.get("memberTypes") or "").split():
                e = self.enumeration(self._qn(u, m, tns))
                if e:
                    toks.extend(e)
            return toks or None
        return None

    def facets(self, tname):
        """Flattened view: {'base': builtin local name, 'min','max','enum','pattern','union':[...]}"""
        out = {"enum": None, "patterns": [], "union": None}
        cur = tname
        while cur and not cur.startswith("{%s}" % XS):
            t = self.types.get(cur)
            if t is None:
                break
            node, tns = t
            r = node.find(q(XS, "restriction"))
            if r is None:
                u = node.find(q(XS, "union"))
                if u is not None:
                    out["union"] = [self._qn(u, m, tns) for m in (u.get("memberTypes") or "").split()]
                break
            for f in r:
                if not isinstance(f.tag, str):
                    continue
                k = etree.QName(f).localname
                if k == "enumeration":
                    out["enum"] = (out["enum"] or []) + [f.get("value")]
                elif k == "pattern":
                    out["patterns"].append(f.get("value"))
                elif k in ("minInclusive", "maxInclusive", "minExclusive", "maxExclusive", "length", "maxLength", "minLength"):
                    out.setdefault(k, f.get("value"))
            cur = self._qn(r, r.get("base"), tns)
        out["base"] = cur.split("}")[1] if cur and cur.startswith("{%s}" % XS) else None
        return out


_model = None


def model():
    global _model
    if _model is None:
        _model = XsdModel()
    return _model
