"""Worker subprocess: runs a list of work units of one property module, writes one JSON."""
from __future__ import annotations

import faulthandler
import importlib
import json
import sys
import traceback

from . import env
from .acc import Acc


def main():
    modname, unitfile, outfile = sys.argv[1:4]
    faulthandler.enable()
    env.bootstrap_pptx()
    mod = importlib.import_module(modname)
    with open(unitfile) as fh:
        job = json.load(fh)
    acc = Acc()
    from . import reach

    reach.start(getattr(mod, "ID", ""))
    for unit in job["units"]:
        try:
            mod.run_unit(unit, job["tier"], job["seed"], acc)
        except Exception:
            # a harness crash is never a verdict on python-pptx
            acc.inconclusive.append(
                "harness error in unit %r: %s" % (unit, traceback.format_exc()[-1200:])
            )
    reach.stop(acc)
    with open(outfile, "w") as fh:
        json.dump(acc.to_json(), fh, default=str)


if __name__ == "__main__":
    main()
