"""Monitors installed on the real python-pptx classes from the harness (no source change).

Every wrapper delegates to the original, then checks a postcondition and records into SINK; the
driving workload (vlib/histories.py or a property module) drains SINK after each operation and
attributes what it finds to the operation that was running.  Installed only when
PPTX_VERIF_MONITORS=1 (set by ./check); python-pptx itself is untouched otherwise.

 M-INS  BaseOxmlElement.insert_element_before -> child order still schema-possible (C10 online)
 M-ATTR BaseSimpleType.to_xml / BaseXmlEnum.to_xml -> returned string valid for the XSD type the
        class is named after (C11 online)
 M-ID   shape-id / slide-id / rId / partname allocators -> fresh and in range (C06 online)
 M-URI  PackURI.relative_ref -> resolves back (C19 online)
"""
from __future__ import annotations

import os


def canon_id(text):
    """An id as the number it denotes: xsd:unsignedInt collapses white space and allows a plus sign and leading zeros, so
    '003', ' 3' and '+3' are all the id 3 (anything that is no such numeral is returned as it stands)."""
    t = (text or "").strip(" \t\n\r")
    t = t[1:] if t[:1] == "+" else t
    return str(int(t)) if t.isdecimal() else text


class Sink:
    def __init__(self):
        self.violations = []  # (property, key, what)
        self.counters = {}

    def count(self, name, n=1):
        self.counters[name] = self.counters.get(name, 0) + n

    def violation(self, prop, key, what):
        self.count("violations:" + prop)
        if len(self.violations) < 200:
            self.violations.append((prop, key, what))

    def drain(self):
        v, self.violations = self.violations, []
        return v


SINK = Sink()
_installed = False


def enabled():
    return os.environ.get("PPTX_VERIF_MONITORS") == "1"


def install():
    global _installed
    if _installed or not enabled():
        return _installed
    _install_ins()
    _install_attr()
    _install_id()
    _install_uri()
    _installed = True
    return True


# ------------------------------------------------------------------ M-INS
_types_for_tag = {}


def _candidate_types(tag):
    if tag not in _types_for_tag:
        from . import xsdkit

        m = xsdkit.model()
        _types_for_tag[tag] = sorted({t for t in m.elem_decls.get(tag, {}).values() if t and m.is_complex(t)})
    return _types_for_tag[tag]


_order_cache = {}


def order_ok(tau, tags):
    from . import xsdkit

    k = (tau, tuple(tags))
    if k not in _order_cache:
        if len(_order_cache) > 200000:
            _order_cache.clear()
        _order_cache[k] = not xsdkit.skeleton_errors(None, tau, child_tags=list(tags), kind="order")
    return _order_cache[k]


def _install_ins():
    from pptx.oxml.xmlchemy import BaseOxmlElement

    from . import xsdkit

    orig = BaseOxmlElement.insert_element_before

    def insert_element_before(self, elm, *tagnames):
        before = [c.tag for c in self if isinstance(c.tag, str)]
        res = orig(self, elm, *tagnames)
        try:
            if elm.getparent() is not self:  # the child went somewhere else (e.g. next to a descendant named like a successor)
                SINK.count("M-INS:judged")
                host = elm.getparent()
                SINK.violation(
                    "C10",
                    "inserted-outside-parent:%s>%s" % (xsdkit.pfx_tag(self.tag), xsdkit.pfx_tag(elm.tag)),
                    "insert_element_before(<%s>, successors %s) on <%s> left the child inside <%s>, not among the parent's children"
                    % (xsdkit.pfx_tag(elm.tag), list(tagnames), xsdkit.pfx_tag(self.tag), xsdkit.pfx_tag(host.tag) if host is not None else None),
                )
                return res
            types = _candidate_types(self.tag)
            if not types:
                SINK.count("M-INS:parent-tag-without-schema-type")
                return res
            after = [c.tag for c in self if isinstance(c.tag, str)]
            m = xsdkit.model()
            permitting = [t for t in types if m.particle(t) is not None and any(e.name == elm.tag for e in m.particle(t).elements())]
            if not permitting:
                SINK.count("M-INS:child-not-permitted-by-any-type-of-parent-not-judged")
                return res
            ok_before = [t for t in permitting if order_ok(t, before)]
            if not ok_before:
                SINK.count("M-INS:parent-already-out-of-order-not-judged")
                return res
            SINK.count("M-INS:judged")
            if not any(order_ok(t, after) for t in ok_before):
                # misplaced (another position would have been in order) or excluded (no position is: a sibling of the same
                # choice group, or the one permitted occurrence, is already there) - two mechanisms, two keys
                others = [c.tag for c in self if isinstance(c.tag, str) and c is not elm]
                fits = any(order_ok(t, others[:i] + [elm.tag] + others[i:]) for t in ok_before for i in range(len(others) + 1))
                pt = xsdkit.pfx_tag
                if fits:
                    key = "misplaced:%s>%s" % (pt(self.tag), pt(elm.tag))
                else:
                    rival = next((x for j, x in enumerate(others) if any(
                        order_ok(t, o2[:i] + [elm.tag] + o2[i:]) for t in ok_before for o2 in [others[:j] + others[j + 1:]] for i in range(len(o2) + 1))), None)
                    key = "excluded-by-sibling:%s>%s:%s" % (pt(self.tag), pt(elm.tag), pt(rival) if rival else "?")
                SINK.violation(
                    "C10",
                    key,
                    "insert_element_before put <%s> into <%s> giving [%s] (successors %s)%s"
                    % (pt(elm.tag), pt(self.tag), " ".join(pt(t) for t in after), list(tagnames),
                       "" if fits else "; no position is in order while that sibling is present (same choice group / single occurrence)"),
                )
        except Exception as e:  # the monitor must never break the code it watches
            SINK.count("M-INS:monitor-error:%s" % type(e).__name__)
        return res

    BaseOxmlElement.insert_element_before = insert_element_before


# ------------------------------------------------------------------ M-ATTR
_own_type = {}


def _own_xsd_type(cls):
    if cls not in _own_type:
        from props import c11  # shared lookup: the XSD type a simple-type class is named after

        from . import xsdkit

        t = None
        try:
            if hasattr(cls, "__members__"):
                from props import c20

                ts = c20.enum_types().get(cls.__name__)
                t = sorted(ts) if ts else None
            else:
                o = c11.own_xsd_type(cls, [])
                t = [o] if o else None
        except Exception:
            t = None
        _own_type[cls] = t
    return _own_type[cls]


def _install_attr():
    from pptx.enum.base import BaseXmlEnum
    from pptx.oxml.simpletypes import BaseSimpleType

    from . import xsdkit

    def wrap(base):
        orig = base.__dict__["to_xml"].__func__

        def to_xml(cls, value):
            res = orig(cls, value)
            try:
                types = _own_xsd_type(cls)
                if not types:
                    SINK.count("M-ATTR:class-without-xsd-type")
                    return res
                SINK.count("M-ATTR:judged")
                if not isinstance(res, str) or not any(xsdkit.type_valid(t, res)[0] for t in types):
                    SINK.violation(
                        "C11",
                        "accepts-invalid:%s:%s" % (type(value).__name__, cls.__name__),
                        "%s.to_xml(%r) returned %r, not a lexical form of %s" % (cls.__name__, value, res, [xsdkit.pfx_tag(t) for t in types]),
                    )
            except Exception as e:
                SINK.count("M-ATTR:monitor-error:%s" % type(e).__name__)
            return res

        base.to_xml = classmethod(to_xml)

    wrap(BaseSimpleType)
    wrap(BaseXmlEnum)


# ------------------------------------------------------------------ M-ID
def _install_id():
    from pptx.opc.package import OpcPackage, _Relationships
    from pptx.oxml.presentation import CT_SlideIdList
    from pptx.oxml.shapes.groupshape import CT_GroupShape
    from pptx.shapes.shapetree import _BaseShapes

    def ids_in_tree(spTree):
        root = spTree.getroottree().getroot()
        from lxml import etree

        # "every id already used in its slide-like part": the shape ids, and every other numeric @id the part carries
        # (p:cTn of an animation, a:cNvPr inside a locked canvas ...) - what python-pptx's own allocator looks at (//@id)
        ids = etree.XPath("//*[not(ancestor-or-self::p:oleObj)]/@id", namespaces={"p": "http://schemas.openxmlformats.org/presentationml/2006/main"})(root)
        # (an id is a NUMBER: '003' and '3' are the same id, both valid lexical forms of xsd:unsignedInt)
        return {canon_id(i) for i in ids if canon_id(i).isdecimal()} | {canon_id(i) for i in etree.XPath("//p:cNvPr[not(ancestor::p:oleObj)]/@id", namespaces={"p": "http://schemas.openxmlformats.org/presentationml/2006/main"})(root)}

    def wrap_shape_id(cls, label):
        orig = cls.__dict__["_next_shape_id"].fget

        def _next_shape_id(self):
            turbo = getattr(self, "_cached_max_shape_id", None) is not None
            try:
                res = orig(self)
            except Exception as e:  # noqa  ("on decks with arbitrary existing ids": an allocator that raises assigns no id at all)
                SINK.violation("C06", "shape-id-allocation-raises:%s" % type(e).__name__, "%s raised %s: %s" % (label, type(e).__name__, str(e)[:100]))
                raise
            try:
                sp = self._spTree if hasattr(self, "_spTree") else self
                used = ids_in_tree(sp)
                SINK.count("M-ID:%s" % label)
                if not isinstance(res, int) or res < 1 or str(res) in used or res > 4294967295:
                    SINK.violation(
                        "C06",
                        "shape-id-not-fresh:%s%s" % (label, ":turbo-cache" if turbo else ""),
                        "%s returned %r%s; ids in use include it or it is out of range" % (label, res, " from the turbo-add cache" if turbo else ""),
                    )
            except Exception as e:
                SINK.count("M-ID:monitor-error:%s" % type(e).__name__)
            return res

        setattr(cls, "_next_shape_id", property(_next_shape_id))

    wrap_shape_id(_BaseShapes, "_BaseShapes._next_shape_id")
    wrap_shape_id(CT_GroupShape, "CT_GroupShape._next_shape_id")

    orig_sid = CT_SlideIdList.__dict__["_next_id"].fget

    def _next_id(self):
        res = orig_sid(self)
        try:
            used = {canon_id(s.get("id")) for s in self}
            SINK.count("M-ID:CT_SlideIdList._next_id")
            if str(res) in used or not (256 <= res <= 2147483647):
                SINK.violation("C06", "slide-id-not-fresh-or-out-of-range", "_next_id returned %r with ids %s" % (res, sorted(used)[:8]))
        except Exception as e:
            SINK.count("M-ID:monitor-error:%s" % type(e).__name__)
        return res

    CT_SlideIdList._next_id = property(_next_id)

    orig_rid = _Relationships.__dict__["_next_rId"].fget

    def _next_rId(self):
        res = orig_rid(self)
        try:
            SINK.count("M-ID:_Relationships._next_rId")
            if res in self._rels:
                SINK.violation("C06", "rId-in-use", "_next_rId returned %r which is in use" % res)
        except Exception as e:
            SINK.count("M-ID:monitor-error:%s" % type(e).__name__)
        return res

    _Relationships._next_rId = property(_next_rId)

    orig_np = OpcPackage.next_partname

    def next_partname(self, tmpl):
        res = orig_np(self, tmpl)
        try:
            SINK.count("M-ID:OpcPackage.next_partname")
            if str(res) in {str(p.partname) for p in self.iter_parts()}:
                SINK.violation("C06", "partname-in-use", "next_partname(%r) returned %r which is in use" % (tmpl, res))
        except Exception as e:
            SINK.count("M-ID:monitor-error:%s" % type(e).__name__)
        return res

    OpcPackage.next_partname = next_partname

    from pptx.package import Package

    for name in ("next_image_partname", "next_media_partname"):
        orig = getattr(Package, name)

        def mk(orig, name):
            def f(self, ext):
                res = orig(self, ext)
                try:
                    SINK.count("M-ID:Package.%s" % name)
                    if str(res) in {str(p.partname) for p in self.iter_parts()}:
                        SINK.violation("C06", "partname-in-use", "%s(%r) returned %r which is in use" % (name, ext, res))
                except Exception as e:
                    SINK.count("M-ID:monitor-error:%s" % type(e).__name__)
                return res

            return f

        setattr(Package, name, mk(orig, name))


# ------------------------------------------------------------------ M-URI
def _install_uri():
    from pptx.opc.packuri import PackURI

    from . import opcx

    orig = PackURI.relative_ref

    def relative_ref(self, baseURI):
        res = orig(self, baseURI)
        try:
            SINK.count("M-URI:relative_ref")
            src = baseURI.rstrip("/") + "/x" if baseURI != "/" else "/"
            back = opcx.resolve(src, res)
            if back != str(self):
                SINK.violation("C19", "relative-ref-wrong", "PackURI(%r).relative_ref(%r) = %r resolves to %r" % (str(self), baseURI, res, back))
        except Exception as e:
            SINK.count("M-URI:monitor-error:%s" % type(e).__name__)
        return res

    PackURI.relative_ref = relative_ref
