"""Seeded, class-biased generators shared by the workloads (strings, lengths, colours, chart data, images)."""
from __future__ import annotations

import datetime
import io

STRING_CLASSES = [
    "plain", "empty", "whitespace", "lead-trail-space", "breaks", "markup", "entity-like", "cdata-like", "quotes",
    "controls", "astral", "long", "format-chars", "xml-ish", "escape-lookalike",
]


def string(rnd, cls=None, maxlen=40, allow_controls=False, allow_breaks=True):
    cls = cls or rnd.choice(STRING_CLASSES)
    if cls == "empty":
        return ""
    if cls == "whitespace":
        return rnd.choice([" ", "  ", "\t", " \t "])
    if cls == "lead-trail-space":
        return rnd.choice(["  x", "x  ", "  x  ", " a b "])
    if cls == "breaks":
        if not allow_breaks:
            return "a b"
        return rnd.choice(["\na", "a\n", "a\n\nb", "\n", "a\vb", "\v", "a\n\vb\n"])
    if cls == "markup":
        return rnd.choice(["a&b", "<b>", "a<b>c</b>", "x > y", "&", "<", ">", "</a:t>", "<!-- c -->", "<?pi x?>"])
    if cls == "entity-like":
        return rnd.choice(["&amp;", "&lt;tag&gt;", "&#65;", "&#x41;", "&nosuch;", "AT&T;"])
    if cls == "cdata-like":
        return rnd.choice(["]]>", "<![CDATA[x]]>", "a]]>b"])
    if cls == "quotes":
        return rnd.choice(['say "hi"', "it's", "'\"'", '"', "'", 'a="b"'])
    if cls == "controls":
        if not allow_controls:
            return "tab\there"
        return rnd.choice(["a\x07b", "\x01", "x\x1fy", "\x0c"])
    if cls == "astral":
        return rnd.choice(["\U0001F600", "a\U0001F600b", "\U00010000", "日本語", "e\u0301", "\ufffd"])
    if cls == "long":
        return "".join(rnd.choice("abc xyz&<") for _ in range(rnd.randint(50, max(51, maxlen * 3))))
    if cls == "format-chars":
        return rnd.choice(["100%", "%s", "{}", "{0}", "%(x)s", "$1", "\\n", "C:\\dir\\f"])
    if cls == "xml-ish":
        return rnd.choice(['<a:t xmlns:a="x">y</a:t>', "xmlns:a=\"u\"", "<a:b/>"])
    if cls == "escape-lookalike":
        return rnd.choice(["_x000A_", "_x0007_", "a_x005F_b", "_x"])
    n = rnd.randint(1, max(1, min(maxlen, 12)))
    return "".join(rnd.choice("abcdefgh XYZ012") for _ in range(n))


def emu(rnd, signed=True, small=False):
    if small:
        return rnd.choice([0, 1, 12700, 914400, 1828800, 3000000, rnd.randint(0, 9144000)])
    v = rnd.choice([0, 1, 12700, 914400, 9144000, 51206400, 2147483647, rnd.randint(0, 12192000), rnd.randint(0, 2 ** 31)])
    if signed and rnd.random() < 0.2:
        v = -v
    return v


def rgb(rnd):
    from pptx.dml.color import RGBColor

    return RGBColor(rnd.randrange(256), rnd.randrange(256), rnd.randrange(256))


def png_bytes(rnd, w=None, h=None, fmt="PNG", dpi=None):
    from PIL import Image

    w = w or rnd.randint(1, 24)
    h = h or rnd.randint(1, 24)
    img = Image.new("RGB", (w, h), (rnd.randrange(256), rnd.randrange(256), rnd.randrange(256)))
    px = img.load()
    for _ in range(min(w * h, 12)):
        px[rnd.randrange(w), rnd.randrange(h)] = (rnd.randrange(256), rnd.randrange(256), rnd.randrange(256))
    buf = io.BytesIO()
    kw = {"dpi": dpi} if dpi else {}
    img.save(buf, fmt, **kw)
    return buf.getvalue()


CATEGORY_CHART_TYPES = [
    "AREA", "AREA_STACKED", "AREA_STACKED_100", "BAR_CLUSTERED", "BAR_STACKED", "BAR_STACKED_100", "COLUMN_CLUSTERED",
    "COLUMN_STACKED", "COLUMN_STACKED_100", "DOUGHNUT", "DOUGHNUT_EXPLODED", "LINE", "LINE_MARKERS", "LINE_MARKERS_STACKED",
    "LINE_MARKERS_STACKED_100", "LINE_STACKED", "LINE_STACKED_100", "PIE", "PIE_EXPLODED", "RADAR", "RADAR_FILLED", "RADAR_MARKERS",
]
XY_CHART_TYPES = ["XY_SCATTER", "XY_SCATTER_LINES", "XY_SCATTER_LINES_NO_MARKERS", "XY_SCATTER_SMOOTH", "XY_SCATTER_SMOOTH_NO_MARKERS"]
BUBBLE_CHART_TYPES = ["BUBBLE", "BUBBLE_THREE_D_EFFECT"]
ALL_CHART_TYPES = CATEGORY_CHART_TYPES + XY_CHART_TYPES + BUBBLE_CHART_TYPES


def number(rnd, allow_none=True):
    k = rnd.random()
    if allow_none and k < 0.08:
        return None
    if k < 0.4:
        return rnd.randint(-1000, 1000)
    if k < 0.8:
        return round(rnd.uniform(-1e4, 1e4), rnd.choice([0, 1, 3, 6]))
    return rnd.choice([0, 0.0, 1e-9, 1e12, -1e12, 0.1 + 0.2, 1 / 3.0])


def chart_kind(type_name):
    if type_name in XY_CHART_TYPES:
        return "xy"
    if type_name in BUBBLE_CHART_TYPES:
        return "bubble"
    return "category"


def chart_data(rnd, kind, small=True, plain_labels=False):
    """-> (ChartData object, JSON-able description)"""
    from pptx.chart.data import BubbleChartData, CategoryChartData, XyChartData

    nser = rnd.choice([1, 1, 2, 3, 5] if small else [0, 1, 2, 3, 7, 26, 27, 50])
    npts = rnd.choice([1, 2, 3, 5] if small else [0, 1, 2, 5, 30, 300])
    nf = rnd.choice(["General", "General", "0.0", "#,##0", '0.00"x"', "0%"])
    if kind == "category":
        cd = CategoryChartData(number_format=nf)
        ckind = rnd.choice(["str", "str", "str", "num", "date", "multi"])
        desc = {"kind": kind, "cat_kind": ckind, "series": [], "number_format": nf}
        npts = max(1, npts)
        if ckind == "str":
            cats = [("C%d" % i) if plain_labels else string(rnd, rnd.choice(["plain", "plain", "markup", "quotes", "lead-trail-space", "astral"]), allow_breaks=False) or "c" for i in range(npts)]
            cd.categories = cats
        elif ckind == "num":
            cats = [rnd.choice([i, i * 1.5, -i]) for i in range(npts)]
            cd.categories = cats
        elif ckind == "date":
            base = rnd.choice([datetime.date(1900, 2, 27), datetime.date(2016, 12, 27), datetime.date(1999, 12, 30)])
            cats = [base + datetime.timedelta(days=i) for i in range(npts)]
            cd.categories = cats
        else:
            cats = []
            depth = rnd.choice([2, 3])
            for i in range(rnd.choice([1, 2])):
                top = cd.add_category("T%d" % i)
                for j in range(rnd.choice([1, 2])):
                    if depth == 2:
                        top.add_sub_category("L%d%d" % (i, j))
                        cats.append(("T%d" % i, "L%d%d" % (i, j)))
                    else:
                        mid = top.add_sub_category("M%d%d" % (i, j))
                        for k in range(rnd.choice([1, 2])):
                            mid.add_sub_category("L%d%d%d" % (i, j, k))
                            cats.append(("T%d" % i, "M%d%d" % (i, j), "L%d%d%d" % (i, j, k)))
            npts = len(cats)
        desc["categories"] = [str(c) for c in cats]
        for s in range(max(1, nser)):
            name = ("S%d" % s) if plain_labels else (string(rnd, rnd.choice(["plain", "markup", "quotes"]), allow_breaks=False) or "s")
            vals = [number(rnd) for _ in range(npts)]
            cd.add_series(name, vals)
            desc["series"].append({"name": name, "values": vals})
        return cd, desc
    if kind == "xy":
        cd = XyChartData(number_format=nf)
        desc = {"kind": kind, "series": []}
        for s in range(max(1, nser)):
            name = "S%d" % s
            ser = cd.add_series(name)
            pts = [(number(rnd, False), number(rnd, False)) for _ in range(rnd.choice([1, 2, 4]) if small else npts)]
            for x, y in pts:
                ser.add_data_point(x, y)
            desc["series"].append({"name": name, "points": pts})
        return cd, desc
    cd = BubbleChartData(number_format=nf)
    desc = {"kind": kind, "series": []}
    for s in range(max(1, nser)):
        name = "S%d" % s
        ser = cd.add_series(name)
        pts = [(number(rnd, False), number(rnd, False), abs(number(rnd, False) or 1)) for _ in range(rnd.choice([1, 2, 4]) if small else npts)]
        for x, y, z in pts:
            ser.add_data_point(x, y, z)
        desc["series"].append({"name": name, "points": pts})
    return cd, desc
