"""Operation repertoire of the history interpreter (DESIGN.md Appendix B).

Each op is a function(run) -> short description; it selects its target among what exists (raising
histories.Rejected when nothing suitable exists) and draws its arguments from the documented domain,
sometimes deliberately outside it (then the documented exception is a *rejected call*).
"""
from __future__ import annotations

import io
import os

from . import gen
from .histories import NSMAP, P, Rejected, all_slides, slide_shapes, xp

DOC = (ValueError, TypeError, IndexError, KeyError)  # documented rejections (per-op tuples narrow this)


def pick(table, rnd):
    total = sum(w for w, *_ in table)
    x = rnd.uniform(0, total)
    for w, name, fn, exc in table:
        x -= w
        if x <= 0:
            return name, fn, exc
    return table[-1][1:]


# ---------------------------------------------------------------------------- selectors
def cached_slides(run):
    """One Slide proxy per slide part for the whole history (turbo-add mode is a per-proxy setting and
    its documented use is through a single Slide object)."""
    cache = run.__dict__.setdefault("slide_cache", {})
    if cache.get("__prs__") is not run.prs:
        cache.clear()
        cache["__prs__"] = run.prs
    out = []
    for s in all_slides(run.prs):
        out.append(cache.setdefault(s.part, s))
    return out


def a_slide(run, create=True):
    s = cached_slides(run)
    run.slides_accessed = True
    if not s:
        if not create:
            raise Rejected()
        run.prs.slides.add_slide(run.prs.slide_layouts[0])
        s = cached_slides(run)
    sl = run.rnd.choice(s)
    sat_select(run, sl._element, shallow=True)  # profile 'sat': slide-level siblings (p:transition, p:timing, p:extLst ...) before the call
    return sl


def a_shape(run, pred, tries=4):
    slides = cached_slides(run)
    run.slides_accessed = True
    run.rnd.shuffle(slides)
    for s in slides[:tries]:
        try:
            c = [sh for sh in slide_shapes(s) if pred(sh)]
        except Exception:
            continue
        if c:
            sh = run.rnd.choice(c)
            sat_select(run, sh._element)
            return s, sh
    raise Rejected()


def cls_is(*names):
    return lambda sh: sh.__class__.__name__ in names


def a_container(run):
    """slide.shapes or a group's shapes"""
    s = a_slide(run)
    if run.rnd.random() < 0.25:
        groups = [sh for sh in slide_shapes(s) if sh.__class__.__name__ == "GroupShape"]
        if groups:
            return s, run.rnd.choice(groups).shapes, "group"
    return s, s.shapes, "slide"


def a_text_frame(run):
    k = run.rnd.random()
    if k < 0.2:
        s, sh = a_shape(run, lambda x: getattr(x, "has_table", False))
        t = sh.table
        cell = t.cell(run.rnd.randrange(len(t.rows)), run.rnd.randrange(len(t.columns)))
        sat_select(run, cell._tc)
        return cell.text_frame, "cell"
    s, sh = a_shape(run, lambda x: getattr(x, "has_text_frame", False))
    return sh.text_frame, "shape"


def a_paragraph(run):
    tf, where = a_text_frame(run)
    return run.rnd.choice(tf.paragraphs), where


def a_run(run):
    p, where = a_paragraph(run)
    if not p.runs:
        r = p.add_run()
        r.text = "r"
        return r
    return run.rnd.choice(p.runs)


def a_chart(run):
    s, sh = a_shape(run, lambda x: getattr(x, "has_chart", False))
    sat_select(run, sh.chart.part._element)
    return sh.chart


def sat_select(run, el, shallow=False):
    """Profile 'sat' only: the element an op has just chosen to work on gets schema-permitted siblings (op_saturate's
    treatment, aimed at the chosen subtree) right before the API call, so the call inserts next to children python-pptx
    itself never writes.  Done with lxml, baselines re-taken: never attributed to python-pptx."""
    if run.profile != "sat" or run.rnd.random() < 0.35:
        return
    from pptx.oxml.xmlchemy import BaseOxmlElement

    sub = [e for e in ([el] + list(el) if shallow else el.iter()) if isinstance(e, BaseOxmlElement) and e.tag not in SAT_SKIP_PARENTS]
    _saturate_elements(run, run.rnd.sample(sub, min(len(sub), 80)))
    run.acc.count("saturate:aimed_at_the_target_of_the_next_call")


def remember_shape(run, slide, shape):
    try:
        run.shape_handles.append((slide.part, shape.shape_id, xp(shape._element, ".//p:cNvPr")[0]))
    except Exception:
        pass


def geom(run, small=True):
    r = run.rnd
    g = gen.emu(r, small=small), gen.emu(r, small=small), gen.emu(r, signed=False, small=small), gen.emu(r, signed=False, small=small)
    if r.random() < 0.08:
        # what `prs.slide_width / 2` or `Inches(3) * 0.5` give: Length arithmetic yields a float (whole or not); an adder either
        # takes it and writes a whole number of EMU, or refuses it
        from pptx.util import Emu

        run.acc.count("geometry_given_as_float")
        return tuple(Emu(v) / r.choice([1, 2, 2, 4]) for v in g)
    return g


# ---------------------------------------------------------------------------- deck ops
def op_save_stream(run):
    run.save_and_check("stream")
    return "#%d" % run.saves


def op_save_path(run):
    run.save_and_check("path")
    return "#%d" % run.saves


def op_save_same_stream(run):
    run.save_and_check("same-stream")
    return "#%d" % run.saves


def op_save_same_path(run):
    run.save_and_check("same-path")
    return "#%d" % run.saves


def op_reopen(run):
    import pptx

    data = run.save_and_check("stream")
    stream = io.BytesIO()
    stream.write(data)
    if run.rnd.random() < 0.5:
        stream.seek(run.rnd.choice([0, 4]))  # else: left at the end, as the save that filled it left it
    run.prs = pptx.Presentation(stream)
    # the re-opened deck becomes the subject: rebuild baselines from it
    run.hashes, run.val_baseline = {}, {}
    from . import histories, xsdkit
    from lxml import etree

    for part in histories.xml_parts(run.prs):
        errs, _ = xsdkit.validate_part(etree.tostring(part._element))
        run.val_baseline[part] = errs
        run.hashes[part] = histories.part_hash(part)
    run.id_dups, run.slide_ids, run.rel_maps, run.handles, run.shape_handles, run.ref_users = {}, {}, {}, [], [], {}
    run.slides_accessed = False
    run.names_disturbed = False
    # ... and what the re-opened INPUT already lacked (references to relationships it does not hold) and how its parts were named
    from . import opcx

    pin = opcx.Pkg.from_bytes(data)
    renamed = {rec[1]: str(rec[0].partname) for rec in getattr(run, "loaded_types", {}).values()}  # name when loaded -> name as just saved
    carried = {(renamed.get(src, src), rid) for src, rid in getattr(run, "voided_in_input", set())}
    run.loaded_types = {}
    for part in run.prs.part.package.iter_parts():
        t = pin.ctype(str(part.partname)) if pin.has_part(str(part.partname)) else None
        if t is not None:
            run.loaded_types[id(part)] = (part, str(part.partname), t)
    # (added to what the ORIGINAL input lacked, not replacing it: a reference that dangled in the input may have been given a
    # relationship in between - the freed rId handed to a new hyperlink - and dangle again once that is dropped: it is the input's)
    run.voided_in_input = carried | {(src, r_.id) for src in pin.part_names() for r_ in (pin.rels(src) or []) if not r_.external and not pin.has_part(r_.target)}
    run.voided_in_input |= {(src, val) for src in pin.part_names() for _a, val in pin.r_refs(src) if val and val not in {r_.id for r_ in (pin.rels(src) or [])}}
    run.acc.count("reopen_and_continue")
    return ""


def op_core_prop(run):
    import datetime

    cp = run.prs.core_properties
    name = run.rnd.choice(["author", "title", "subject", "keywords", "comments", "category", "last_modified_by", "revision", "created"])
    if name == "revision":
        v = run.rnd.choice([1, 2, 77, 0, -1])
    elif name == "created":
        v = datetime.datetime(run.rnd.choice([1999, 2024]), 3, 4, 5, 6, 7)
    else:
        v = gen.string(run.rnd, maxlen=30, allow_breaks=False)
        if run.rnd.random() < 0.05:
            v = "x" * 256
    setattr(cp, name, v)
    return name


# ---------------------------------------------------------------------------- slide ops
def _names_settled(run):
    run.names_disturbed = False


def op_add_slide(run):
    prs = run.prs
    masters = list(prs.slide_masters)
    m = run.rnd.choice(masters)
    layouts = list(m.slide_layouts)
    if not layouts:
        raise Rejected()
    lay = run.rnd.choice(layouts)
    s = prs.slides.add_slide(lay)
    run.slides_accessed = True
    _names_settled(run)
    run.acc.hit("Slides.add_slide")
    if run.rnd.random() < 0.5:
        run.handles.append((s.slide_id, s.part))
    return lay.name


def op_delete_slide(run):
    """The recipe every user of python-pptx finds (there is no public delete): the slide's p:sldId is removed from the kept
    `prs.slides` collection and its relationship dropped; the Slides object lives on and slides are added to it later."""
    prs = run.prs
    slides = prs.slides
    run.slides_accessed = True
    if len(slides) < 2:
        raise Rejected()
    k = run.rnd.randrange(len(slides))
    sldId = slides._sldIdLst.sldId_lst[k]
    victim = slides[k]
    if any(getattr(sh, "click_action", None) is not None for sh in ()):
        pass
    prs.part.drop_rel(sldId.rId)
    slides._sldIdLst.remove(sldId)
    # the harness forgets what it held about the deleted slide (handles, shape handles)
    run.handles = [(sid, part) for sid, part in getattr(run, "handles", []) if part is not victim.part]
    run.shape_handles = [h for h in getattr(run, "shape_handles", []) if h[0] is not victim.part]
    run.slide_ids = {p_: v for p_, v in getattr(run, "slide_ids", {}).items() if p_ is not victim.part}
    run.names_disturbed = True
    run.acc.count("slides_deleted_by_the_recipe")
    return "slide %d of %d" % (k + 1, len(slides) + 1)


def op_slide_index_bad(run):
    n = len(run.prs.slides)
    run.slides_accessed = True
    run.prs.slides[n + run.rnd.choice([0, 1, 5])]
    return "bad index"


def op_slides_get(run):
    s = a_slide(run, create=False)
    got = run.prs.slides.get(s.slide_id)
    assert got is not None
    run.prs.slides.index(got)
    run.handles.append((s.slide_id, s.part))
    return str(s.slide_id)


def op_read_slides(run):
    run.slides_accessed = True
    n = 0
    for s in run.prs.slides:
        n += len(s.shapes)
        _ = s.slide_layout.name
    for lay in run.prs.slide_layouts:
        _ = lay.name
    return "%d shapes" % n


def op_remove_layout(run):
    prs = run.prs
    layouts = list(prs.slide_layouts)
    if len(layouts) < 2:
        raise Rejected()
    lay = run.rnd.choice(layouts)
    used = bool(lay.used_by_slides)
    prs.slide_layouts.remove(lay)  # ValueError when in use (documented)
    return "%s used=%s" % (lay.name, used)


def op_drop_layout_readd(run):
    """Part-dropping and re-adding in one go: a picture is added (image bookkeeping is warm), an unused layout that holds a
    picture of its own is removed (its image part leaves the package), a new image is added (it may take the freed part
    name) and then the removed layout's image bytes are added again."""
    prs, r = run.prs, run.rnd
    f = run.ensure_files()
    cands = []
    for lay in prs.slide_layouts:
        if lay.used_by_slides:
            continue
        imgs = [rel.target_part for rel in lay.part.rels.values() if not rel.is_external and str(rel.target_part.partname).startswith("/ppt/media/image")]
        if imgs:
            cands.append((lay, imgs[0].blob))
    if not cands or len(prs.slide_layouts) < 2:
        raise Rejected()
    lay, blob = r.choice(cands)
    s = a_slide(run)
    s.shapes.add_picture(f["img0"], 0, 0)
    prs.slide_layouts.remove(lay)
    s.shapes.add_picture(io.BytesIO(gen.png_bytes(r)), 0, 0)
    s.shapes.add_picture(io.BytesIO(blob), 0, 0)
    run.acc.hit("layout-removed-then-its-image-added-again")
    return lay.name


def op_slide_name(run):
    s = a_slide(run)
    s.name = gen.string(run.rnd, allow_breaks=False)
    return ""


# ---------------------------------------------------------------------------- shape additions
def op_add_shape(run):
    from pptx.enum.shapes import MSO_SHAPE

    s, shapes, where = a_container(run)
    t = run.rnd.choice([m for m in MSO_SHAPE if m.xml_value])
    sh = shapes.add_shape(t, *geom(run))
    remember_shape(run, s, sh)
    run.acc.hit("add_shape")
    return "%s in %s" % (t.name, where)


def op_add_textbox(run):
    s, shapes, where = a_container(run)
    tb = shapes.add_textbox(*geom(run))
    tb.text_frame.text = gen.string(run.rnd, rnd_cls(run), allow_controls=True)
    remember_shape(run, s, tb)
    run.acc.hit("add_textbox")
    return where


def rnd_cls(run):
    return run.rnd.choice(gen.STRING_CLASSES)


def op_add_picture(run):
    f = run.ensure_files()
    s, shapes, where = a_container(run)
    key = run.rnd.choice(["img0", "img0", "img1", "img2", "jpg"])
    src = f[key]
    mode = run.rnd.choice(["path", "stream"])
    arg = src if mode == "path" else io.BytesIO(open(src, "rb").read())
    held = getattr(run, "open_images", None)
    if held and run.rnd.random() < 0.3:
        # bytes of an image the deck held when it was opened (on a slide, or only on a layout that may have been removed since)
        key, mode, arg = "image-of-the-opened-deck", "stream", io.BytesIO(run.rnd.choice(held))
    l, t, w, h = geom(run)
    kw = run.rnd.choice([{}, {"width": w}, {"height": h}, {"width": w, "height": h}])
    pic = shapes.add_picture(arg, l, t, **kw)
    remember_shape(run, s, pic)
    run.acc.hit("add_picture:" + mode)
    return "%s %s in %s" % (key, mode, where)


def op_add_picture_notimage(run):
    f = run.ensure_files()
    s = a_slide(run)
    s.shapes.add_picture(f["notimage"], 0, 0)
    return "not an image"


def op_add_connector(run):
    from pptx.enum.shapes import MSO_CONNECTOR

    s, shapes, where = a_container(run)
    g = geom(run)  # (begin_x, begin_y, end_x, end_y: any four coordinates; floats now and then, see geom)
    c = shapes.add_connector(run.rnd.choice(list(MSO_CONNECTOR)[:3]), g[0], g[1], g[2] if run.rnd.random() < 0.5 else -g[2], g[3])
    remember_shape(run, s, c)
    run.acc.hit("add_connector")
    return where


def op_connect(run):
    """begin_connect / end_connect in either order (glue a connector to shapes)."""
    r = run.rnd
    s = a_slide(run)
    shs = [sh for sh in s.shapes if sh.__class__.__name__ in ("Shape", "Picture")]
    while len(shs) < 2:
        shs.append(s.shapes.add_shape(1, *geom(run)))
    cons = [sh for sh in s.shapes if sh.__class__.__name__ == "Connector"]
    if not cons or r.random() < 0.3:
        from pptx.enum.shapes import MSO_CONNECTOR

        cons.append(s.shapes.add_connector(MSO_CONNECTOR.STRAIGHT, 0, 0, 914400, 914400))
    c = r.choice(cons)
    order = r.choice(["end", "begin", "end-begin", "begin-end"])
    if r.random() < 0.15:
        # a connection-site index no xsd:unsignedInt can hold: a documented rejection (ValueError), after which the connector must
        # be as valid as it was
        side = order.split("-")[0]
        run.acc.count("connect_with_unrepresentable_site_index")
        (c.end_connect if side == "end" else c.begin_connect)(r.choice(shs), r.choice([-1, 2 ** 32]))
        return side + "-bad-index-accepted"
    for side in order.split("-"):
        (c.end_connect if side == "end" else c.begin_connect)(r.choice(shs), r.randrange(4))
    run.acc.hit("connector.connect:" + order)
    return order


def op_add_group(run):
    s, shapes, where = a_container(run)
    members = []
    if where == "slide" and run.rnd.random() < 0.5:
        cands = [sh for sh in s.shapes if not sh.is_placeholder and sh.__class__.__name__ in ("Shape", "Picture", "Connector")]
        run.rnd.shuffle(cands)
        members = cands[: run.rnd.choice([1, 2])]
    g = shapes.add_group_shape(members)
    if not members:
        g.shapes.add_shape(1, *geom(run))
    remember_shape(run, s, g)
    run.acc.hit("add_group_shape")
    return "%s members=%d" % (where, len(members))


def op_add_freeform(run):
    s, shapes, where = a_container(run)
    r = run.rnd
    fb = shapes.build_freeform(r.randint(-1000, 1000), r.randint(-1000, 1000), scale=r.choice([1.0, 914.4, (2.0, 3.5)]))
    fb.add_line_segments([(r.randint(-500, 2000), r.randint(-500, 2000)) for _ in range(r.randint(1, 5))], close=r.random() < 0.5)
    if r.random() < 0.4:
        fb.move_to(r.randint(0, 100), r.randint(0, 100))
        fb.add_line_segments([(r.randint(0, 300), r.randint(0, 300)) for _ in range(2)])
    sh = fb.convert_to_shape(r.randint(0, 914400), r.randint(0, 914400))
    remember_shape(run, s, sh)
    run.acc.hit("build_freeform")
    return where


def op_add_chart(run):
    from pptx.enum.chart import XL_CHART_TYPE

    s, shapes, where = a_container(run)
    tname = run.rnd.choice(gen.ALL_CHART_TYPES)
    cd, desc = gen.chart_data(run.rnd, gen.chart_kind(tname))
    gf = shapes.add_chart(getattr(XL_CHART_TYPE, tname), *geom(run), cd)
    remember_shape(run, s, gf)
    run.acc.hit("add_chart")
    return "%s in %s" % (tname, where)


def op_add_table(run):
    s = a_slide(run)
    r = run.rnd
    gf = s.shapes.add_table(r.randint(1, 4), r.randint(1, 4), *geom(run))
    remember_shape(run, s, gf)
    run.acc.hit("add_table")
    return ""


def op_add_movie(run):
    f = run.ensure_files()
    s = a_slide(run)
    kw = {}
    if run.rnd.random() < 0.5:
        kw["poster_frame_image"] = f[run.rnd.choice(["img0", "img1"])]
    if run.rnd.random() < 0.5:
        kw["mime_type"] = run.rnd.choice(["video/mp4", "video/quicktime"])
    src = f[run.rnd.choice(["movie", "movie", "movie_upper"])]
    how = "path"
    if run.rnd.random() < 0.3:
        # a file-like object, the same one for every movie of this history and never rewound (from its second use on it reads
        # as empty: a media part without payload, which must still be written, related and typed like any other)
        if getattr(run, "movie_stream", None) is None:
            run.movie_stream = io.BytesIO(open(f["movie"], "rb").read())
        src, how = run.movie_stream, "shared stream"
        kw.setdefault("mime_type", "video/mp4")
    mv = s.shapes.add_movie(src, *geom(run), **kw)
    remember_shape(run, s, mv)
    run.acc.hit("add_movie")
    return "%s %s" % (how, sorted(kw))


def op_add_ole(run):
    from pptx.enum.shapes import PROG_ID

    f = run.ensure_files()
    s, shapes, where = a_container(run)
    prog = run.rnd.choice([PROG_ID.XLSX, PROG_ID.DOCX, PROG_ID.PPTX, "Verif.Object.1"])
    kw = {}
    if run.rnd.random() < 0.4:
        kw["icon_file"] = f["img1"]
    g = geom(run)
    if run.rnd.random() < 0.4:
        kw.update(run.rnd.choice([{"icon_width": g[2] or 965200, "icon_height": g[3] or 609600}, {"width": g[2] or 965200, "height": g[3] or 609600}]))
    gf = shapes.add_ole_object(f["ole"], prog, g[0], g[1], **kw)
    remember_shape(run, s, gf)
    run.acc.hit("add_ole_object")
    return "%s in %s" % (prog, where)


def op_turbo(run):
    s = a_slide(run)
    # one shapes object per slide is kept for the whole history (the documented way to use turbo mode)
    shapes = s.shapes
    on = run.rnd.random() < 0.7
    shapes.turbo_add_enabled = on
    if on:
        run.turbo_used = True
    return str(on)


# ---------------------------------------------------------------------------- placeholders
def op_ph_insert(run):
    from pptx.enum.chart import XL_CHART_TYPE

    f = run.ensure_files()
    r = run.rnd
    want = r.choice(["pic", "chart", "tbl", "geom"])
    if want == "geom":
        s, ph = a_shape(run, lambda sh: sh.is_placeholder)
        ph.left = gen.emu(r, small=True)
        ph.width = gen.emu(r, signed=False, small=True)
        run.acc.hit("placeholder:geometry-override")
        return "geometry"
    # a slide with an empty content placeholder of the wanted kind: the default template only has generic
    # 'object' placeholders (and one picture placeholder on 'Picture with Caption'), so the kind is set on the
    # slide's p:ph with lxml first (pre-state), then the placeholder is fetched again through the API
    prs = run.prs
    layouts = list(prs.slide_layouts)
    lay = next((l for l in layouts if l.name == "Picture with Caption"), None) if want == "pic" and r.random() < 0.5 else None
    if lay is None:
        lay = next((l for l in layouts if any(p.placeholder_format.type is not None and p.placeholder_format.idx not in (0,) and p.__class__.__name__ == "LayoutPlaceholder" for p in l.placeholders)), layouts[0])
    s = prs.slides.add_slide(lay)
    run.slides_accessed = True
    cands = [p for p in s.placeholders if p.placeholder_format.idx != 0 and p.__class__.__name__ in ("SlidePlaceholder", "PicturePlaceholder", "ChartPlaceholder", "TablePlaceholder")]
    if not cands:
        raise Rejected()
    ph = r.choice(cands)
    phel = xp(ph._element, ".//p:nvPr/p:ph")[0]
    if ph.__class__.__name__ == "SlidePlaceholder":
        phel.set("type", {"pic": "pic", "chart": "chart", "tbl": "tbl"}[want])
        ph = next(p for p in s.placeholders if p.placeholder_format.idx == ph.placeholder_format.idx)
    if r.random() < 0.3:
        ph.name = gen.string(r, r.choice(["plain", "markup", "quotes"]), allow_breaks=False) or "ph"
    n = ph.__class__.__name__
    if n == "PicturePlaceholder":
        ph.insert_picture(f[r.choice(["img2", "jpg"])])
    elif n == "ChartPlaceholder":
        tname = r.choice(gen.ALL_CHART_TYPES)
        cd, _ = gen.chart_data(r, gen.chart_kind(tname))
        ph.insert_chart(getattr(XL_CHART_TYPE, tname), cd)
    elif n == "TablePlaceholder":
        ph.insert_table(r.randint(1, 3), r.randint(1, 4))
    else:
        raise Rejected()
    run.acc.hit("placeholder:" + n)
    return n


# ---------------------------------------------------------------------------- text
def op_text_assign(run):
    level = run.rnd.choice(["frame", "para", "run"])
    s = gen.string(run.rnd, rnd_cls(run), allow_controls=True)
    if level == "frame":
        tf, where = a_text_frame(run)
        tf.text = s
    elif level == "para":
        p, where = a_paragraph(run)
        p.text = s
    else:
        r = a_run(run)
        r.text = s
        where = "run"
    return "%s/%s" % (level, where)


def op_text_struct(run):
    tf, where = a_text_frame(run)
    k = run.rnd.choice(["add_paragraph", "add_run", "add_line_break", "clear_p", "clear_tf"])
    if k == "add_paragraph":
        tf.add_paragraph().text = "np"
    elif k == "add_run":
        run.rnd.choice(tf.paragraphs).add_run().text = "nr"
    elif k == "add_line_break":
        run.rnd.choice(tf.paragraphs).add_line_break()
    elif k == "clear_p":
        run.rnd.choice(tf.paragraphs).clear()
    else:
        tf.clear()
    return k


def op_font(run):
    from pptx.dml.color import RGBColor
    from pptx.enum.dml import MSO_THEME_COLOR
    from pptx.enum.lang import MSO_LANGUAGE_ID
    from pptx.enum.text import MSO_UNDERLINE
    from pptx.util import Pt

    r = run.rnd
    target = r.choice(["run", "para", "endpara"])
    if target == "run":
        font = a_run(run).font
    else:
        p, _ = a_paragraph(run)
        font = p.font
    k = r.choice(["bold", "italic", "underline", "size", "name", "rgb", "theme", "brightness", "lang", "size_bad"])
    if k == "bold":
        font.bold = r.choice([True, False, None])
    elif k == "italic":
        font.italic = r.choice([True, False, None])
    elif k == "underline":
        font.underline = r.choice([True, False, None, MSO_UNDERLINE.DOUBLE_LINE, MSO_UNDERLINE.WAVY_LINE])
    elif k == "size":
        font.size = r.choice([Pt(1), Pt(12), Pt(4000), None, Pt(10.5)])
    elif k == "size_bad":
        font.size = r.choice([Pt(0.5), Pt(4001), -5])
    elif k == "name":
        font.name = r.choice([gen.string(r, "plain"), gen.string(r, "markup"), None, "Arial"])
    elif k == "rgb":
        font.color.rgb = gen.rgb(r)
    elif k == "theme":
        font.color.theme_color = r.choice([m for m in MSO_THEME_COLOR if m.xml_value])
    elif k == "brightness":
        font.color.rgb = RGBColor(1, 2, 3)
        font.color.brightness = r.choice([-1.0, -0.25, 0, 0.4, 1.0, 1.5])
    else:
        font.language_id = r.choice([MSO_LANGUAGE_ID.FRENCH, MSO_LANGUAGE_ID.NONE, None, MSO_LANGUAGE_ID.ENGLISH_UK])
    return "%s.%s" % (target, k)


def op_paragraph_fmt(run):
    from pptx.enum.text import PP_ALIGN
    from pptx.util import Pt

    r = run.rnd
    p, where = a_paragraph(run)
    kinds = r.sample(["alignment", "level", "line_spacing", "space_before", "space_after", "level_bad"], r.choice([1, 1, 2, 3]))
    for k in kinds:  # several settings of one paragraph, in any order (the usual way paragraph formatting is applied)
        if k == "alignment":
            p.alignment = r.choice(list(PP_ALIGN) + [None])
        elif k == "level":
            p.level = r.choice([0, 1, 8])
        elif k == "level_bad":
            if k != kinds[-1]:
                continue  # the rejected call ends the op: only as the last one
            p.level = r.choice([-1, 9])
        elif k == "line_spacing":
            p.line_spacing = r.choice([1.0, 0.5, 2.25, Pt(14), None, 132.0, -2.0, 133.0, Pt(-3)])
        elif k == "space_before":
            p.space_before = r.choice([Pt(0), Pt(6), None, Pt(1584), Pt(-1), Pt(1585)])
        else:
            p.space_after = r.choice([Pt(0), Pt(12.5), None, Pt(-1)])
    k = "+".join(kinds)
    return "%s/%s" % (k, where)


_FONT = []


def _font_file():
    if not _FONT:
        cands = ["/usr/share/fonts/truetype/dejavu/DejaVuSans.ttf", "/usr/share/fonts/dejavu/DejaVuSans.ttf", "/usr/share/fonts/TTF/DejaVuSans.ttf"]
        _FONT.append(next((c for c in cands if os.path.isfile(c)), None))
    return _FONT[0]


def op_textframe_fmt(run):
    from pptx.enum.text import MSO_ANCHOR, MSO_AUTO_SIZE

    r = run.rnd
    tf, where = a_text_frame(run)
    k = r.choice(["margin", "word_wrap", "auto_size", "vertical_anchor", "fit_text"])
    if where == "cell" and k in ("auto_size", "fit_text"):
        k = "margin"
    if k == "fit_text":
        # driven with an explicit font file (no lookup of installed fonts), on frames big enough for some size to fit
        font = _font_file()
        sp = tf._parent
        if font is None or not tf.text or len(tf.text) > 400 or not all(isinstance(getattr(sp, a, None), int) and getattr(sp, a) >= 914400 for a in ("width", "height")):
            run.acc.count("fit_text:not-applicable" if font else "fit_text:no-font-file-on-this-system")
            k = "word_wrap"
        else:
            before = tf.text
            tf.fit_text(font_family=r.choice(["DejaVu Sans", "Arial"]), max_size=r.choice([8, 18, 44]), bold=r.random() < 0.3, italic=r.random() < 0.3, font_file=font)
            run.acc.count("fit_text:applied")
            if tf.text != before:
                run.acc.count("fit_text:CHANGED-THE-TEXT")
            return "fit_text/%s" % where
    if k == "margin":
        setattr(tf, r.choice(["margin_left", "margin_right", "margin_top", "margin_bottom"]), r.choice([0, 91440, gen.emu(r, small=True), None]))
    elif k == "word_wrap":
        tf.word_wrap = r.choice([True, False, None])
    elif k == "auto_size":
        tf.auto_size = r.choice(list(MSO_AUTO_SIZE) + [None])
    else:
        tf.vertical_anchor = r.choice([m for m in MSO_ANCHOR if m.xml_value] + [None])
    return "%s/%s" % (k, where)


def op_run_hyperlink(run):
    r = a_run(run)
    url = run.rnd.choice(["http://a.example/x?y=1&z=2", "http://a.example/x?y=1&z=2", "https://b.example/<q>", "mailto:x@y.z", None, None])
    if run.rnd.random() < 0.06:
        # an address XML cannot hold (pasted text with a vertical tab, a NUL, a lone surrogate): either refused here with
        # ValueError, or every later save must still work - what may not happen is a save that dies half-way
        run.acc.count("hyperlink_addresses_with_a_character_xml_cannot_hold")
        url = run.rnd.choice(["http://a.example/x\x0by", "http://a.example/\x00", "http://a.example/\ud800"])
    r.hyperlink.address = url
    again = url is not None and run.rnd.random() < 0.3
    if again:  # the same value assigned once more (idempotent by any reading of the API)
        r.hyperlink.address = r.hyperlink.address
    run.acc.hit("run.hyperlink.address")
    return ("set" if url else "clear") + (" twice" if again else "")


def op_hyperlink_cycle(run):
    """A link set, dropped, something else related in between (it may take the freed rId), and the same URL linked again on the
    same slide: whatever the relationship bookkeeping remembers of the first link must not come back."""
    r = run.rnd
    s = a_slide(run)
    url = "http://cycle.example/%d?q=1" % r.randrange(3)
    tb = s.shapes.add_textbox(0, 0, 914400, 914400)
    p = tb.text_frame.paragraphs[0]
    r1 = p.add_run()
    r1.text = "first"
    r1.hyperlink.address = url
    r1.hyperlink.address = None if r.random() < 0.6 else "http://other.example/%d" % r.randrange(3)
    between = r.choice(["picture", "link", "jump"])
    if between == "picture":
        s.shapes.add_picture(run.ensure_files()["img%d" % r.randrange(3)], 0, 0)
    elif between == "link":
        r2 = p.add_run()
        r2.text = "between"
        r2.hyperlink.address = "http://between.example/%d" % r.randrange(5)
    else:
        sh = s.shapes.add_shape(1, 0, 0, 914400, 914400)
        sh.click_action.target_slide = a_slide(run)
    r3 = p.add_run()
    r3.text = "again"
    r3.hyperlink.address = url
    remember_shape(run, s, tb)
    run.acc.hit("hyperlink:set-drop-other-set-again")
    return between


def op_hyperlink_share(run):
    """Two runs (or two shapes) of one slide linked to the same URL, then one of them cleared or changed:
    the shared relationship must survive for the other."""
    r = run.rnd
    s = a_slide(run)
    url = "http://shared.example/%d?a=1&b=2" % r.randrange(3)
    if r.random() < 0.6:
        tbs = [sh for sh in s.shapes if sh.__class__.__name__ == "Shape" and sh.has_text_frame]
        while len(tbs) < 2:
            tb = s.shapes.add_textbox(0, 0, 914400, 914400)
            tb.text_frame.text = "link"
            tbs.append(tb)
        runs = []
        for tb in tbs[:2]:
            p = tb.text_frame.paragraphs[0]
            if not p.runs:
                p.add_run().text = "link"
            runs.append(p.runs[0])
        for x in runs:
            x.hyperlink.address = url
        runs[r.randrange(2)].hyperlink.address = r.choice([None, "http://other.example/"])
        return "runs"
    shs = [sh for sh in s.shapes if sh.__class__.__name__ in ("Shape", "Picture")]
    while len(shs) < 2:
        shs.append(s.shapes.add_shape(1, 0, 0, 914400, 914400))
    for sh in shs[:2]:
        sh.click_action.hyperlink.address = url
    shs[r.randrange(2)].click_action.hyperlink.address = r.choice([None, "http://other.example/"])
    return "shapes"


# ---------------------------------------------------------------------------- dml
def op_fill(run):
    from pptx.enum.dml import MSO_PATTERN, MSO_THEME_COLOR

    r = run.rnd
    target = r.choice(["shape", "shape", "cell", "background", "line"])
    if target == "shape":
        s, sh = a_shape(run, lambda x: x.__class__.__name__ in ("Shape", "Picture", "PlaceholderPicture") or (x.__class__.__name__ == "Shape"))
        if not hasattr(sh, "fill"):
            raise Rejected()
        fill = sh.fill
    elif target == "cell":
        s, sh = a_shape(run, lambda x: getattr(x, "has_table", False))
        fill = sh.table.cell(0, 0).fill
    elif target == "line":
        s, sh = a_shape(run, lambda x: hasattr(x, "line"))
        fill = sh.line.fill
    else:
        sl = a_slide(run)
        holder = r.choice([sl, sl, sl.slide_layout, sl.slide_layout.slide_master])  # masters carry p:bgRef
        fill = holder.background.fill
    k = r.choice(["solid", "gradient", "patterned", "background", "fore_rgb", "fore_theme", "gradient_angle", "stops", "pattern", "back_rgb", "colors_read", "color_bad"])
    if k == "solid":
        fill.solid()
        fill.fore_color.rgb = gen.rgb(r)
    elif k == "gradient":
        fill.gradient()
    elif k == "patterned":
        fill.patterned()
    elif k == "background":
        fill.background()
    elif k == "fore_rgb":
        fill.fore_color.rgb = gen.rgb(r)  # TypeError when the fill type has no fore_color (documented)
    elif k == "fore_theme":
        fill.solid()
        fill.fore_color.theme_color = r.choice([m for m in MSO_THEME_COLOR if m.xml_value])
        fill.fore_color.brightness = r.choice([-0.5, 0, 0.25])
    elif k == "gradient_angle":
        fill.gradient()
        fill.gradient_angle = r.choice([0, 45, 90.5, 359.99999, 360, -30, 719.9999999, -1e-7])
    elif k == "stops":
        fill.gradient()
        st = fill.gradient_stops
        st[0].position = r.choice([0, 0.25, 1.0, 0.333333])
        st[len(st) - 1].color.rgb = gen.rgb(r)
    elif k == "pattern":
        fill.patterned()
        fill.pattern = r.choice([m for m in MSO_PATTERN if m.xml_value])
        fill.back_color.rgb = gen.rgb(r)
    elif k == "colors_read":
        # the colours of a fresh pattern / solid fill are only looked at (accessing them may create their elements: what is
        # created must be complete)
        r.choice([fill.patterned, fill.solid])()
        _ = (fill.fore_color.type, getattr(fill, "back_color", None) and fill.back_color.type)
    elif k == "color_bad":
        # ... or given a value that is refused with the documented ValueError
        fill.patterned()
        which = r.choice(["back_color", "fore_color"])
        getattr(fill, which).rgb = r.choice(["FF0000", (1, 2, 3)])
    else:
        fill.back_color.rgb = gen.rgb(r)
    return "%s.%s" % (target, k)


def op_line(run):
    from pptx.enum.dml import MSO_LINE
    from pptx.util import Pt

    r = run.rnd
    s, sh = a_shape(run, lambda x: hasattr(x, "line") and x.__class__.__name__ in ("Shape", "Picture", "Connector", "PlaceholderPicture"))
    k = r.choice(["width", "dash", "rgb", "width_bad"])
    if k == "width":
        sh.line.width = r.choice([0, Pt(1), Pt(1584), 12700, Pt(0.25)])
    elif k == "width_bad":
        sh.line.width = r.choice([-1, Pt(1585)])
    elif k == "dash":
        sh.line.dash_style = r.choice([m for m in MSO_LINE if m.xml_value] + [None])
    else:
        sh.line.color.rgb = gen.rgb(r)
    return k


def op_shadow(run):
    s, sh = a_shape(run, lambda x: hasattr(x, "shadow"))
    sh.shadow.inherit = run.rnd.choice([True, False])
    return ""


# ---------------------------------------------------------------------------- actions
def op_click_action(run):
    r = run.rnd
    s, sh = a_shape(run, lambda x: x.__class__.__name__ != "GroupShape" and hasattr(x, "click_action"))
    k = r.choice(["url", "url", "clear", "jump", "jump", "unjump"])
    again = r.random() < 0.35
    if k == "url":
        sh.click_action.hyperlink.address = r.choice(["http://a.example/x?y=1&z=2", "https://c.example/%7Euser#f"])
        if again:  # the value just read is assigned back
            sh.click_action.hyperlink.address = sh.click_action.hyperlink.address
    elif k == "clear":
        sh.click_action.hyperlink.address = None
    elif k == "jump":
        tgt = a_slide(run)
        sh.click_action.target_slide = tgt
        if again:  # the same target once more / the target just read assigned back
            sh.click_action.target_slide = tgt if r.random() < 0.5 else sh.click_action.target_slide
    else:
        sh.click_action.target_slide = None
    k += " twice" if again and k in ("url", "jump") else ""
    run.acc.hit("click_action:" + k)
    return "%s on %s" % (k, sh.__class__.__name__)


# ---------------------------------------------------------------------------- tables
def op_table(run):
    from pptx.enum.text import MSO_ANCHOR

    r = run.rnd
    s, sh = a_shape(run, lambda x: getattr(x, "has_table", False))
    t = sh.table
    nr, nc = len(t.rows), len(t.columns)
    k = r.choice(["flag", "merge", "split", "margin", "anchor", "colwidth", "rowheight", "text", "merge_foreign"])
    if k == "flag":
        setattr(t, r.choice(["first_row", "first_col", "last_row", "last_col", "horz_banding", "vert_banding"]), r.random() < 0.5)
    elif k == "merge":
        a = t.cell(r.randrange(nr), r.randrange(nc))
        b = t.cell(r.randrange(nr), r.randrange(nc))
        if r.random() < 0.6:  # text in cells of the range (it migrates to the origin on merge)
            for _ in range(r.randint(1, 3)):
                t.cell(r.randrange(nr), r.randrange(nc)).text = r.choice(["x", "two\nparas", "t"])
        a.merge(b)  # ValueError on overlap (documented)
    elif k == "merge_foreign":
        s2, sh2 = a_shape(run, lambda x: getattr(x, "has_table", False) and x is not sh)
        t.cell(0, 0).merge(sh2.table.cell(0, 0))
    elif k == "split":
        c = t.cell(r.randrange(nr), r.randrange(nc))
        c.split()  # ValueError when not a merge origin (documented)
    elif k == "margin":
        setattr(t.cell(r.randrange(nr), r.randrange(nc)), r.choice(["margin_left", "margin_right", "margin_top", "margin_bottom"]), r.choice([0, 45720, None, "x"]))
    elif k == "anchor":
        t.cell(r.randrange(nr), r.randrange(nc)).vertical_anchor = r.choice([m for m in MSO_ANCHOR if m.xml_value] + [None])
    elif k == "colwidth":
        t.columns[r.randrange(nc)].width = gen.emu(r, signed=False, small=True)
    elif k == "rowheight":
        t.rows[r.randrange(nr)].height = gen.emu(r, signed=False, small=True)
    else:
        t.cell(r.randrange(nr), r.randrange(nc)).text = gen.string(r, rnd_cls(run), allow_controls=True)
    return k


# ---------------------------------------------------------------------------- pictures / autoshapes
def op_picture(run):
    from pptx.enum.shapes import MSO_SHAPE

    r = run.rnd
    s, sh = a_shape(run, cls_is("Picture", "PlaceholderPicture"))
    k = r.choice(["crop", "mask", "crop_wide"])
    if k == "crop":
        setattr(sh, r.choice(["crop_left", "crop_right", "crop_top", "crop_bottom"]), r.choice([0.0, 0.1, 0.5, 1.0, 0.333333]))
    elif k == "crop_wide":
        setattr(sh, r.choice(["crop_left", "crop_bottom"]), r.choice([-0.25, 1.5, -21474.0, 21474.5, 30000.0]))
    else:
        sh.auto_shape_type = r.choice([MSO_SHAPE.OVAL, MSO_SHAPE.RECTANGLE, MSO_SHAPE.HEART])
    return k


def op_autoshape(run):
    r = run.rnd
    k = r.choice(["adjust", "rotation", "geom", "name", "geom_bad"])
    if k == "adjust":
        s, sh = a_shape(run, lambda x: x.__class__.__name__ == "Shape" and len(getattr(x, "adjustments", [])) > 0)
        adj = sh.adjustments
        adj[r.randrange(len(adj))] = r.choice([0.0, 0.5, 1.0, -0.25, 2.0, 0.123456])
    else:
        s, sh = a_shape(run, lambda x: True)
        if k == "rotation":
            if not hasattr(sh, "rotation"):
                raise Rejected()
            sh.rotation = r.choice([0, 45.0, 359.99999, 360, -90, 1e6, 0.00001])
        elif k == "geom":
            setattr(sh, r.choice(["left", "top"]), gen.emu(r))
            setattr(sh, r.choice(["width", "height"]), gen.emu(r, signed=False))
        elif k == "geom_bad":
            setattr(sh, r.choice(["width", "height"]), r.choice([-1, 27273042316901, "x"]))
        else:
            sh.name = gen.string(r, allow_breaks=False)
    return "%s on %s" % (k, sh.__class__.__name__)


# ---------------------------------------------------------------------------- charts
def op_chart_replace(run):
    ch = a_chart(run)
    kind = "category"
    n = ch.chart_type.name if ch.chart_type is not None else ""
    if n.startswith("XY"):
        kind = "xy"
    elif n.startswith("BUBBLE"):
        kind = "bubble"
    cd, desc = gen.chart_data(run.rnd, kind)
    ch.replace_data(cd)
    run.acc.hit("replace_data")
    return kind


def op_chart_fmt(run):
    from pptx.enum.chart import XL_DATA_LABEL_POSITION, XL_LEGEND_POSITION, XL_MARKER_STYLE, XL_TICK_LABEL_POSITION, XL_TICK_MARK
    from pptx.util import Pt

    r = run.rnd
    ch = a_chart(run)
    k = r.choice(
        ["has_legend", "legend", "has_title", "title_text", "style", "font", "cat_axis", "val_axis", "gridlines", "ticklabels", "plot", "dlabels", "series_fmt", "marker", "point", "point", "axis_title", "style_bad", "crosses", "series_dlabels", "title_format"]
    )
    if k == "has_legend":
        ch.has_legend = v_ = r.random() < 0.6
        if r.random() < 0.5:
            ch.has_legend = v_  # a switch set to the value it already has: nothing may be added a second time
    elif k == "legend":
        ch.has_legend = True
        lg = ch.legend
        lg.position = r.choice(list(XL_LEGEND_POSITION))
        lg.include_in_layout = r.random() < 0.5
        lg.horz_offset = r.choice([0, 0.2, -0.5, 1.0])
        lg.font.size = Pt(r.choice([8, 10.5]))
    elif k == "has_title":
        ch.has_title = v_ = r.random() < 0.6
        if r.random() < 0.5:
            ch.has_title = v_
    elif k == "title_text":
        ch.chart_title.text_frame.text = gen.string(r, rnd_cls(run), allow_controls=True)
    elif k == "style":
        ch.chart_style = r.choice([1, 10, 48, None])
    elif k == "style_bad":
        ch.chart_style = r.choice([0, 49])
    elif k == "font":
        ch.font.size = Pt(r.choice([9, 18]))
        ch.font.bold = r.choice([True, None])
    elif k in ("cat_axis", "val_axis", "gridlines", "ticklabels", "axis_title"):
        try:
            ax = ch.category_axis if (k == "cat_axis" or r.random() < 0.5) else ch.value_axis
        except ValueError:
            raise Rejected()
        if k == "gridlines":
            ax.has_major_gridlines = v_ = r.random() < 0.5
            ax.has_minor_gridlines = w_ = r.random() < 0.5
            if r.random() < 0.5:
                ax.has_major_gridlines, ax.has_minor_gridlines = v_, w_
            if ax.has_major_gridlines:
                ax.major_gridlines.format.line.width = Pt(1)
        elif k == "ticklabels":
            tl = ax.tick_labels
            tl.font.size = Pt(8)
            if r.random() < 0.7:
                tl.number_format = r.choice(["0.0", "General", '#,##0"u"'])
            tl.number_format_is_linked = r.random() < 0.5
            tl.offset = r.choice([0, 100, 1000])
        elif k == "axis_title":
            ax.has_title = r.random() < 0.7
            if ax.has_title:
                ax.axis_title.text_frame.text = gen.string(r, allow_breaks=False)
        else:
            ax.major_tick_mark = r.choice(list(XL_TICK_MARK))
            ax.minor_tick_mark = r.choice(list(XL_TICK_MARK))
            ax.tick_label_position = r.choice(list(XL_TICK_LABEL_POSITION))
            ax.visible = r.random() < 0.8
            ax.reverse_order = r.random() < 0.3
            ax.maximum_scale = r.choice([None, 100, 12.5])
            ax.minimum_scale = r.choice([None, 0, -3.5])
            if hasattr(ax, "major_unit"):
                ax.major_unit = r.choice([None, 1, 2.5])
                ax.minor_unit = r.choice([None, 0.5])
            if r.random() < 0.3:  # out-of-domain: documented ValueError, nothing may be left behind
                bad = r.choice(["major_unit", "minor_unit", "maximum_scale", "minimum_scale"])
                if hasattr(ax, bad):
                    setattr(ax, bad, r.choice([0, -1.5]) if "unit" in bad else r.choice([float("inf"), float("nan")]))
            ax.format.line.width = Pt(r.choice([0.5, 2]))
    elif k == "crosses":
        from pptx.enum.chart import XL_AXIS_CROSSES

        try:
            ax = ch.value_axis
        except ValueError:
            raise Rejected()
        if r.random() < 0.5:
            ax.crosses = r.choice(list(XL_AXIS_CROSSES))
        else:
            ax.crosses_at = r.choice([None, 0, 2.5, -10])
    elif k == "series_dlabels":
        sers = [s_ for s_ in ch.plots[0].series if hasattr(s_, "data_labels")]
        if not sers:
            raise Rejected()
        dl = r.choice(sers).data_labels
        dl.show_value = r.random() < 0.5
        dl.font.size = Pt(6)
        if r.random() < 0.5:
            dl.number_format = "0.0"
    elif k == "title_format":
        ch.has_title = True
        ch.chart_title.format.fill.solid()
        ch.chart_title.format.fill.fore_color.rgb = gen.rgb(r)
        try:
            ax = ch.category_axis
            ax.has_title = True
            ax.axis_title.format.line.width = Pt(1)
        except ValueError:
            pass
    elif k == "plot":
        pl = ch.plots[0]
        if hasattr(pl, "bubble_scale"):
            pl.bubble_scale = r.choice([0, 100, 300, None, 301])
        if hasattr(pl, "gap_width"):
            pl.gap_width = r.choice([0, 150, 500])
        if hasattr(pl, "overlap"):
            pl.overlap = r.choice([-100, 0, 100])
        try:
            pl.vary_by_categories = r.random() < 0.5
        except AttributeError:  # XY and bubble plots have no c:varyColors support in python-pptx (outside the properties)
            run.acc.count("plot_attribute_unsupported_on_xy_or_bubble")
    elif k == "dlabels":
        pl = ch.plots[0]
        try:
            pl.has_data_labels = r.random() < 0.8
        except AttributeError:  # XY / bubble / 3-D area plots: no c:dLbls support on the plot element (outside the properties)
            run.acc.count("plot_attribute_unsupported_on_xy_or_bubble")
            raise Rejected()
        if pl.has_data_labels:
            dl = pl.data_labels
            if r.random() < 0.7:
                dl.number_format = r.choice(["0.00", "General", "0%"])
            dl.number_format_is_linked = r.random() < 0.5
            dl.show_value = r.random() < 0.5
            dl.show_category_name = r.random() < 0.5
            dl.show_series_name = r.random() < 0.5
            dl.show_percentage = r.random() < 0.5
            dl.show_legend_key = r.random() < 0.5
            dl.font.size = Pt(7)
            if r.random() < 0.5:
                dl.position = r.choice([XL_DATA_LABEL_POSITION.CENTER, XL_DATA_LABEL_POSITION.OUTSIDE_END, XL_DATA_LABEL_POSITION.BEST_FIT])
    elif k == "series_fmt":
        sers = list(ch.plots[0].series)
        if not sers:
            raise Rejected()
        se = r.choice(sers)
        se.format.fill.solid()
        se.format.fill.fore_color.rgb = gen.rgb(r)
        se.format.line.width = Pt(1.5)
        if hasattr(se, "smooth"):
            se.smooth = r.random() < 0.5
        if hasattr(se, "invert_if_negative"):
            se.invert_if_negative = r.random() < 0.5
    elif k == "marker":
        sers = [s for s in ch.plots[0].series if hasattr(s, "marker")]
        if not sers:
            raise Rejected()
        mk = r.choice(sers).marker
        mk.style = r.choice(list(XL_MARKER_STYLE))
        mk.size = r.choice([2, 7, 72])
        mk.format.fill.solid()
        mk.format.fill.fore_color.rgb = gen.rgb(r)
    else:
        sers = list(ch.plots[0].series)
        if not sers:
            raise Rejected()
        se = r.choice(sers)
        n = len(list(se.values))
        if n == 0:
            raise Rejected()
        # a few points in any order, some of them twice (formatting a point is get-or-add of its c:dPt / c:dLbl, kept in idx order)
        for i in r.sample(range(n), min(n, r.choice([0, 1, 2, 3]))) * r.choice([1, 1, 2]):
            se.points[i].format.fill.solid()
            se.points[i].format.fill.fore_color.rgb = gen.rgb(r)
            if r.random() < 0.4:
                se.points[i].data_label.font.bold = True
        pt = se.points[r.choice([r.randrange(n), r.randrange(n), -1, n])]  # out of range: documented IndexError
        pt.format.fill.solid()
        pt.format.fill.fore_color.rgb = gen.rgb(r)
        if r.random() < 0.6:
            pt.data_label.text_frame.text = r.choice(["pt", "a & b", ""])
            pt.data_label.position = r.choice([XL_DATA_LABEL_POSITION.CENTER, None])
            pt.data_label.font.bold = True
        elif r.random() < 0.5:
            pt.data_label.has_text_frame = r.random() < 0.5
        if hasattr(pt, "marker"):
            pt.marker.size = 5
    run.acc.hit("chart:" + k)
    return k


# ---------------------------------------------------------------------------- notes
def op_notes(run):
    s = a_slide(run)
    k = run.rnd.choice(["has", "text", "text"])
    if k == "has":
        return "has=%s" % s.has_notes_slide
    s.notes_slide.notes_text_frame.text = gen.string(run.rnd, rnd_cls(run), allow_controls=True)
    run.acc.hit("notes_slide")
    return "text"


# ---------------------------------------------------------------------------- reads (shared with C12)
def op_traverse(run):
    from props import c12

    n = c12.traverse(run.prs, run.rnd, passes=("basic",))
    run.slides_accessed = True
    return "%d reads" % n


# ---------------------------------------------------------------------------- profiles
VE, TE, IE, KE = ValueError, TypeError, IndexError, KeyError
NONE = ()


def _pil_exc():
    try:
        from PIL import UnidentifiedImageError

        return (UnidentifiedImageError,)
    except Exception:
        return ()


ALL_OPS = {
    "save_stream": (op_save_stream, NONE),
    "save_path": (op_save_path, NONE),
    "save_same_stream": (op_save_same_stream, NONE),
    "save_same_path": (op_save_same_path, NONE),
    "reopen": (op_reopen, NONE),
    "core_prop": (op_core_prop, (VE,)),
    "add_slide": (op_add_slide, NONE),
    "slide_index_bad": (op_slide_index_bad, (IE,)),
    "delete_slide": (op_delete_slide, NONE),
    "slides_get": (op_slides_get, NONE),
    "read_slides": (op_read_slides, NONE),
    "remove_layout": (op_remove_layout, (VE,)),
    "hyperlink_cycle": (op_hyperlink_cycle, NONE),
    "drop_layout_readd": (op_drop_layout_readd, NONE),
    "slide_name": (op_slide_name, NONE),
    "add_shape": (op_add_shape, NONE),
    "add_textbox": (op_add_textbox, NONE),
    "add_picture": (op_add_picture, NONE),
    "add_picture_notimage": (op_add_picture_notimage, _pil_exc()),
    "add_connector": (op_add_connector, NONE),
    "add_group": (op_add_group, NONE),
    "connect": (op_connect, (VE,)),
    "add_freeform": (op_add_freeform, NONE),
    "add_chart": (op_add_chart, NONE),
    "add_table": (op_add_table, NONE),
    "add_movie": (op_add_movie, NONE),
    "add_ole": (op_add_ole, NONE),
    "turbo": (op_turbo, NONE),
    "ph_insert": (op_ph_insert, NONE),
    "text_assign": (op_text_assign, NONE),
    "text_struct": (op_text_struct, NONE),
    "font": (op_font, (VE, TE)),
    "paragraph_fmt": (op_paragraph_fmt, (VE, TE)),
    "textframe_fmt": (op_textframe_fmt, (VE, TE)),
    "run_hyperlink": (op_run_hyperlink, (VE,)),
    "hyperlink_share": (op_hyperlink_share, NONE),
    "fill": (op_fill, (TE, VE)),
    "line": (op_line, (VE, TE)),
    "shadow": (op_shadow, NONE),
    "click_action": (op_click_action, (TE,)),
    "table": (op_table, (VE, IE, TE)),
    "picture": (op_picture, (VE,)),
    "autoshape": (op_autoshape, (VE, IE, TE)),
    "chart_replace": (op_chart_replace, NONE),
    "chart_fmt": (op_chart_fmt, (VE, IE, TE)),
    "notes": (op_notes, NONE),
    "traverse": (op_traverse, NONE),
}

PROFILES = {
    # C02: relationship-creating and -dropping ops, saves everywhere
    "pkg": {
        "save_stream": 10, "save_path": 2, "save_same_stream": 4, "save_same_path": 2, "reopen": 4, "core_prop": 2, "add_slide": 8, "delete_slide": 3, "slide_index_bad": 1, "slides_get": 2, "read_slides": 4,
        "remove_layout": 3, "drop_layout_readd": 4, "add_shape": 3, "add_textbox": 3, "add_picture": 8, "add_picture_notimage": 1, "add_connector": 1, "add_group": 2,
        "add_chart": 6, "add_table": 2, "add_movie": 4, "add_ole": 4, "ph_insert": 4, "run_hyperlink": 8, "click_action": 8, "chart_replace": 5,
        "notes": 8, "text_assign": 2, "traverse": 2, "add_freeform": 1, "table": 1, "hyperlink_share": 6, "hyperlink_cycle": 5,
    },
    # C03: XML mutators
    "xml": {
        "add_slide": 4, "add_shape": 4, "add_textbox": 4, "add_picture": 3, "add_connector": 2, "connect": 3, "add_group": 2, "add_freeform": 2, "add_chart": 5,
        "add_table": 4, "add_movie": 1, "add_ole": 1, "ph_insert": 3, "text_assign": 8, "text_struct": 5, "font": 8, "paragraph_fmt": 6,
        "textframe_fmt": 6, "run_hyperlink": 3, "fill": 10, "line": 5, "shadow": 2, "click_action": 3, "table": 9, "picture": 4, "autoshape": 8,
        "chart_replace": 3, "chart_fmt": 22, "notes": 3, "slide_name": 1, "core_prop": 1, "save_stream": 1, "remove_layout": 1, "slide_index_bad": 1,
    },
    # C06: additions only
    "ids": {
        "add_slide": 10, "delete_slide": 2, "add_shape": 8, "add_textbox": 5, "add_picture": 6, "add_connector": 4, "add_group": 8, "add_freeform": 6, "add_chart": 4,
        "add_table": 3, "add_movie": 3, "add_ole": 2, "turbo": 4, "notes": 3, "run_hyperlink": 3, "click_action": 3, "slides_get": 3,
        "read_slides": 2, "save_stream": 4, "ph_insert": 2, "hyperlink_share": 4, "hyperlink_cycle": 5, "connect": 3,
    },
}
PROFILES["mixed"] = {k: 3 for k in ALL_OPS if k != "saturate"}
PROFILES["mixed"].update({"save_stream": 2, "save_path": 1, "reopen": 1, "traverse": 1})


# C10 online: XML mutators working next to schema-permitted siblings python-pptx never writes
PROFILES["sat"] = {
    "add_slide": 2, "add_shape": 3, "add_textbox": 3, "add_picture": 3, "add_connector": 1, "connect": 1, "add_group": 1, "add_freeform": 1, "add_chart": 4,
    "add_table": 3, "add_movie": 3, "add_ole": 2, "ph_insert": 2, "text_assign": 4, "text_struct": 5, "font": 8, "paragraph_fmt": 10, "textframe_fmt": 6, "run_hyperlink": 3,
    "fill": 8, "line": 6, "shadow": 3, "click_action": 3, "table": 6, "picture": 6, "autoshape": 6, "chart_fmt": 22, "chart_replace": 2, "notes": 2,
    "saturate": 8,
}

CREATORS = {
    "chart_fmt": ["add_chart"], "chart_replace": ["add_chart"], "table": ["add_table"], "picture": ["add_picture"],
    "ph_insert": ["add_slide"], "click_action": ["add_shape", "add_picture"], "run_hyperlink": ["add_textbox"],
}


def creator_for(name, rnd):
    return rnd.choice(CREATORS.get(name, ["add_textbox", "add_shape", "add_slide"]))


def profile_table(name):
    w = PROFILES[name]
    return [(w[k], k, ALL_OPS[k][0], ALL_OPS[k][1] or (Rejected,)) for k in sorted(w)]


# ---------------------------------------------------------------------------- PowerPoint-only siblings, mid-history
SAT_SKIP_PARENTS = {"{%s}%s" % (P, n) for n in ("spTree", "grpSp", "sldMaster", "presentation")}


def _root(el):
    while el.getparent() is not None:
        el = el.getparent()
    return el


def _saturate_elements(run, elements):
    from collections import Counter

    from lxml import etree
    from pptx.oxml import parse_xml
    from pptx.oxml.xmlchemy import BaseOxmlElement

    from . import instgen, xsdkit
    from .histories import part_hash, xml_parts

    r = run.rnd
    n_add = n_swap = 0
    p_add, p_swap = r.choice([0.5, 0.8, 0.95]), r.choice([0.2, 0.5])
    rich = r.choice([0.0, 0.0, 0.5, 0.9])  # share of donors that are randomly filled-in instances (optional attributes and children drawn) rather than minimal ones
    roots = {id(_root(el)) for el in elements}
    involved = [part for part in xml_parts(run.prs) if id(part._element) in roots]
    pre = {part: xsdkit.validate_part(etree.tostring(part._element))[0] for part in involved}
    queue = list(elements)
    for depth in (0, 1):  # children just added are treated once themselves (an a:pPr put into an a:p gets its own children)
        fresh = []
        for el in queue:
            if el.getparent() is None and id(el) not in roots:
                continue  # swapped away by an earlier step
            for how, tag in instgen.saturate(el, r, parser_el=parse_xml, p_add=p_add, p_swap=p_swap, skip=SAT_SKIP_CHILDREN, rich=rich):
                n_add += how == "add"
                n_swap += how == "swap"
                fresh += [c for c in el.findall(tag) if isinstance(c, BaseOxmlElement)]
        queue = fresh[:200] if not rich else fresh[:25]
    run.acc.count("saturate:children_added", n_add)
    run.acc.count("saturate:choice_members_swapped", n_swap)
    for part in involved:
        post = xsdkit.validate_part(etree.tostring(part._element))[0]
        if post is not None and pre[part] is not None and post - pre[part]:
            own = post - pre[part]
            run.acc.count("saturate:own_insertions_the_real_schema_rejects", sum(own.values()))  # workload defect, never a finding
            for m in list(own)[:2]:
                run.acc.classes["saturate-reject:" + m[:110]] = run.acc.classes.get("saturate-reject:" + m[:110], 0) + 1
        run.val_baseline[part] = post
        run.hashes[part] = part_hash(part)
    return n_add, n_swap


# children never added by saturation: a hyperlink element without r:id (the schema allows it, PowerPoint never writes it, and
# python-pptx's readers raise KeyError on it - robustness, not one of the properties); further plots in a c:plotArea
# (surface / ofPie / 3-D plots have no python-pptx class: replace_data and plot iteration raise AttributeError on them)
SAT_SKIP_CHILDREN = {"{http://schemas.openxmlformats.org/drawingml/2006/main}%s" % n for n in ("hlinkClick", "hlinkMouseOver", "hlinkHover")} | {
    "{http://schemas.openxmlformats.org/drawingml/2006/chart}%s" % n for n in (
        "areaChart", "area3DChart", "lineChart", "line3DChart", "stockChart", "radarChart", "scatterChart", "pieChart", "pie3DChart",
        "doughnutChart", "barChart", "bar3DChart", "ofPieChart", "surfaceChart", "surface3DChart", "bubbleChart")}


def op_saturate(run):
    """NOT an API call: with lxml, give a sample of the deck's elements (those python-pptx has a class for) the optional
    children their schema type permits and they lack - minimal schema-valid instances from vlib/instgen.py, each placed
    where the order schema accepts it; a member of a choice group may be swapped for another.  Later API ops then insert
    next to siblings python-pptx itself never writes.  Baselines (validity, hashes) are re-taken: nothing done here is
    ever attributed to python-pptx."""
    from collections import Counter

    from lxml import etree
    from pptx.oxml import parse_xml
    from pptx.oxml.xmlchemy import BaseOxmlElement

    from . import instgen, xsdkit
    from .histories import part_hash, xml_parts

    r = run.rnd
    parts = xml_parts(run.prs)
    cands = []
    for part in parts:
        root = part._element
        if etree.QName(root).namespace not in (xsdkit.NS["p"], xsdkit.NS["c"]):
            continue
        if root.tag in ("{%s}sldMaster" % P, "{%s}sldLayout" % P, "{%s}notesMaster" % P, "{%s}presentation" % P) and r.random() < 0.8:
            continue
        cands += [el for el in root.iter() if isinstance(el, BaseOxmlElement) and el.tag not in SAT_SKIP_PARENTS]
    if not cands:
        raise Rejected()
    n_add, n_swap = _saturate_elements(run, r.sample(cands, min(len(cands), r.choice([5, 15, 40, 120]))))
    return "+%d children, %d choice swaps" % (n_add, n_swap)


ALL_OPS["saturate"] = (op_saturate, NONE)


# ---------------------------------------------------------------------------- PowerPoint-only siblings (C03)
def enrich_start(run):
    """Give the opened deck siblings python-pptx itself never writes but PowerPoint does (extension
    lists at the end of content models), with lxml, before the baselines are taken."""
    from lxml import etree

    A = "http://schemas.openxmlformats.org/drawingml/2006/main"
    r = run.rnd
    if r.random() < 0.25:
        # XML comments among the children of the deck's elements (a hand-edited or generated deck): they are no elements, every
        # position python-pptx computes is a position among ELEMENTS
        run.acc.classes["start-with-xml-comments"] = run.acc.classes.get("start-with-xml-comments", 0) + 1
        for part in list(run.prs.part.package.iter_parts()):
            root = getattr(part, "_element", None)
            if root is None or root.tag not in ("{%s}sld" % P, "{%s}sldLayout" % P, "{%s}presentation" % P) and not root.tag.endswith("}chartSpace"):
                continue
            for el in list(root.iter()):
                if isinstance(el.tag, str) and len(el) and r.random() < 0.3:
                    el.insert(r.choice([0, 0, len(el)]), etree.Comment(" c "))
    if r.random() < 0.5:
        return
    run.acc.classes["start-enriched-with-extLst"] = run.acc.classes.get("start-enriched-with-extLst", 0) + 1
    for part in list(run.prs.part.package.iter_parts()):
        root = getattr(part, "_element", None)
        if root is None or root.tag not in ("{%s}sld" % P, "{%s}sldLayout" % P):
            continue
        for tree in xp(root, "//p:spTree | //p:grpSp"):
            if tree.find("{%s}extLst" % P) is None and r.random() < 0.7:
                e = etree.SubElement(etree.SubElement(tree, "{%s}extLst" % P), "{%s}ext" % P)
                e.set("uri", "{verif-spTree}")
        for c in xp(root, "//p:cNvPr | //p:cNvSpPr | //p:cNvCxnSpPr | //p:cNvPicPr"):
            if c.find("{%s}extLst" % A) is None and r.random() < 0.4:
                e = etree.SubElement(etree.SubElement(c, "{%s}extLst" % A), "{%s}ext" % A)
                e.set("uri", "{verif}")


# ---------------------------------------------------------------------------- adversarial id states (C06)
def inject_id_state(run):
    """Rewrite ids/names in the opened deck with lxml before monitoring starts (DESIGN C06)."""
    from lxml import etree

    r = run.rnd
    kind = r.choice(["none", "gaps", "huge", "dups", "ctn", "nonnumeric", "slideids", "mixed", "padded"])
    run.id_state = kind
    run.acc.classes["idstate:" + kind] = run.acc.classes.get("idstate:" + kind, 0) + 1
    prs = run.prs
    slides = list(prs.slides)
    run.slides_accessed = True
    if not slides:
        slides = [prs.slides.add_slide(prs.slide_layouts[0])]
    for s in slides:
        for _ in range(r.choice([1, 2])):
            s.shapes.add_textbox(0, 0, 100, 100)
    if kind in ("gaps", "mixed"):
        for s in slides:
            for i, c in enumerate(xp(s._element, "//p:cNvPr")[1:]):
                c.set("id", str(3 + i * r.choice([2, 3, 7])))
    if kind == "padded":
        # ids in another valid lexical form of xsd:unsignedInt (zero-padded), holes below them
        for s in slides:
            for i, c in enumerate(xp(s._element, "//p:cNvPr")[1:]):
                c.set("id", r.choice(["%s", "%s", " %s", "+%s", "%s\n"]) % ("%0*d" % (r.choice([3, 4, 10]), 3 + i * r.choice([1, 2]))))  # (white space collapses, a plus sign is allowed)
    if kind in ("huge", "mixed"):
        s = r.choice(slides)
        c = xp(s._element, "//p:cNvPr")[-1]
        c.set("id", str(r.choice([2147483646, 2147483647, 2147483648, 65535, 4294967295, 4294967294])))  # (the last: the largest xsd:unsignedInt)
    if kind == "dups":
        s = r.choice(slides)
        cs = xp(s._element, "//p:cNvPr")
        if len(cs) > 2:
            cs[-1].set("id", cs[-2].get("id"))
            cs[-1].set("name", cs[-2].get("name"))
    if kind in ("ctn", "mixed"):
        s = r.choice(slides)
        t = etree.SubElement(s._element, "{%s}timing" % P)
        tn = etree.SubElement(etree.SubElement(etree.SubElement(t, "{%s}tnLst" % P), "{%s}par" % P), "{%s}cTn" % P)
        top = max([int(i) for i in xp(s._element, "//p:cNvPr/@id") if i.isdigit()] or [1])
        tn.set("id", str(r.choice([1, 2, 3, 50, top + 1, top + 1, top + 2])))  # just above the highest shape id: the next id by count of shapes
        tn.set("dur", "indefinite")
        tn.set("nodeType", "tmRoot")
    if kind == "nonnumeric":
        s = r.choice(slides)
        ext = etree.SubElement(xp(s._element, "//p:cNvPr")[-1], "{%s}extLst" % "http://schemas.openxmlformats.org/drawingml/2006/main")
        e = etree.SubElement(ext, "{http://schemas.openxmlformats.org/drawingml/2006/main}ext")
        e.set("uri", "{verif}")
        x = etree.SubElement(e, "{urn:verif}thing")
        x.set("id", r.choice(["{ABC-123}", "\u00b2", "x\u00b3", "\u2460"]))  # ('²'.isdigit() is True and int('²') raises: vendor data may carry any id)
    if kind in ("slideids", "mixed"):
        lst = prs.part._element.find("{%s}sldIdLst" % P)
        if lst is not None and len(lst):
            ids = r.choice([[2147483647], [2147483646, 300], [256], [5000, 257]])
            for el, v in zip(reversed([x for x in lst if isinstance(x.tag, str)]), ids):
                el.set("id", str(v))
