"""History interpreter: seeded sequences of public-API operations on a real presentation, with
oracles run after every step (C03 validity, C06 ids, monitors M-INS/M-ATTR/M-ID/M-URI) and at every
save (C02 closure + re-open snapshot).  Shared by C02, C03, C06 and the online halves of C10/C11/C19.

A history is identified by (profile, start state, seed parts, number of ops); it is regenerated
deterministically from that identity, which is therefore also its replay witness.
"""
from __future__ import annotations

import io
import os
import posixpath
import re
import zipfile
from collections import Counter

from lxml import etree

from . import env, gen, monitors, opcx, xsdkit

P = "http://schemas.openxmlformats.org/presentationml/2006/main"
A = "http://schemas.openxmlformats.org/drawingml/2006/main"
NSMAP = {"p": P, "a": A, "r": opcx.NS_R}


def xp(el, expr):
    """XPath with the harness's own namespace map (python-pptx elements override .xpath())."""
    return etree.XPath(expr, namespaces=NSMAP)(el)


class Rejected(Exception):
    """Raised by an op to say 'nothing suitable exists' (op skipped, counted)."""


# ============================================================================ start states
_default_bytes = None


def default_template_bytes():
    global _default_bytes
    if _default_bytes is None:
        p = os.path.join(env.SRC, "pptx", "templates", "default.pptx")
        _default_bytes = open(p, "rb").read()
    return _default_bytes


def rename_members(data, mapping):
    """Consistent rename of parts inside a zip: member, its .rels item, every relationship Target
    resolving to it, its Override PartName.  mapping: {old partname: new partname}."""
    pin = opcx.Pkg.from_bytes(data)
    out = {}
    for name, blob in pin.members.items():
        pn = "/" + name
        new = name
        if pn in mapping:
            new = mapping[pn][1:]
        # rels item of a renamed part
        for old, nw in mapping.items():
            if name == opcx.rels_item_name(old):
                new = opcx.rels_item_name(nw)
        out[new] = blob
    # rewrite relationship targets
    final = {}
    for name, blob in out.items():
        d, f = os.path.split(name)
        if f.endswith(".rels") and os.path.basename(d) == "_rels":
            # which source does this rels item belong to (after renaming)?
            src_dir = os.path.dirname(d)
            src = "/" if name == "_rels/.rels" else "/" + (src_dir + "/" if src_dir else "") + f[: -len(".rels")]
            inv = {v: k for k, v in mapping.items()}
            old_src = inv.get(src, src)
            root = etree.fromstring(blob, opcx.PLAIN)
            for rel in root.iter("{%s}Relationship" % opcx.NS_PR):
                if rel.get("TargetMode") == "External":
                    continue
                tgt = opcx.resolve(old_src, rel.get("Target"))
                tgt = mapping.get(tgt, tgt)
                base = "/" if src == "/" else os.path.dirname(src)
                rel.set("Target", tgt[1:] if base == "/" else os.path.relpath(tgt, base).replace(os.sep, "/"))
            blob = etree.tostring(root, xml_declaration=True, encoding="UTF-8", standalone=True)
        elif name == "[Content_Types].xml":
            root = etree.fromstring(blob, opcx.PLAIN)
            low = {k.lower(): v for k, v in mapping.items()}
            for ov in root.iter("{%s}Override" % opcx.NS_CT):
                k = (ov.get("PartName") or "").lower()
                if k in low:
                    ov.set("PartName", low[k])
            blob = etree.tostring(root, xml_declaration=True, encoding="UTF-8", standalone=True)
        final[name] = blob
    buf = io.BytesIO()
    with zipfile.ZipFile(buf, "w", zipfile.ZIP_DEFLATED) as zf:
        for n, b in final.items():
            zf.writestr(n, b)
    return buf.getvalue()


def manufactured_deck(rnd, nslides=3):
    """Deck whose slide part names are out of presentation order - gapped (slide7/slide3/slide1...) or a permutation of
    1..n (dense) - and, in half of them, whose picture parts share an index under different extensions
    (image1.png, image1.jpg, image2.png: "duplicate pre-existing names", as producers other than PowerPoint write them)."""
    import pptx

    from . import gen

    prs = pptx.Presentation()
    media = rnd.random() < 0.5
    for i in range(nslides):
        s = prs.slides.add_slide(prs.slide_layouts[rnd.choice([0, 1, 5, 6])])
        tb = s.shapes.add_textbox(100, 100, 914400, 914400)
        tb.text_frame.text = "slide %d" % (i + 1)
        if (rnd.random() < 0.5 and i > 0) or (i == 0 and rnd.random() < 0.15) or i == nslides - 1:
            # (notes mostly on later slides: notesSlide numbers then differ from the numbers of the slides they belong to)
            s.notes_slide.notes_text_frame.text = "notes %d" % (i + 1)
    jump = nslides > 1 and rnd.random() < 0.4
    if jump:
        # a shape on the first slide that jumps to the last one (the last slide is then reachable from that slide too)
        sh = prs.slides[0].shapes.add_shape(1, 0, 0, 914400, 914400)
        sh.click_action.target_slide = prs.slides[nslides - 1]
    blank_link = rnd.random() < 0.4
    if blank_link:
        rn = prs.slides[0].shapes[0].text_frame.paragraphs[0].add_run()
        rn.text = "cleared link"
        rn.hyperlink.address = "http://cleared.example/"
    if media:
        s = prs.slides[0]
        for fmt in ("PNG", "JPEG", "PNG"):  # -> image1.png, image2.jpg, image3.png
            s.shapes.add_picture(io.BytesIO(gen.png_bytes(rnd, fmt=fmt)), 0, 0)
    if rnd.random() < 0.5:
        # a picture that only an unused layout holds (removing that layout drops the image part from the package)
        from pptx.oxml.shapes.picture import CT_Picture

        lay = prs.slide_layouts[rnd.choice([7, 8, 9, 10])]
        image_part, rId = lay.part.get_or_add_image_part(io.BytesIO(gen.png_bytes(rnd)))
        spTree = lay.shapes._spTree
        pic = CT_Picture.new_pic(1 + max(int(x) for x in spTree.xpath("//p:cNvPr/@id")), "Layout Picture", "layout.png", rId, 0, 0, 914400, 914400)
        spTree.insert_element_before(pic, "p:extLst")
    buf = io.BytesIO()
    prs.save(buf)
    data = buf.getvalue()
    n = nslides
    cls = rnd.choice(["dense-permuted", "dense-permuted", "gapped", "gapped", "ascending-shifted", "ascending-with-hole", "last-is-n", "other-folder"])
    folder = "/ppt/slides"
    if cls == "other-folder":
        # the slides live in a folder of their own (OPC leaves part names to the producer): python-pptx renames them into
        # /ppt/slides, and their relationships - written relative to the source part's folder - must follow
        folder = rnd.choice(["/ppt/slides/part1", "/ppt/s", "/slides"])
        cls = rnd.choice(["dense-permuted", "gapped", "plain"])
    if cls == "plain":
        nums = list(range(1, n + 1))
    elif cls == "dense-permuted":  # 1..n, not in presentation order
        nums = list(range(1, n + 1))
        while nums == sorted(nums):
            rnd.shuffle(nums)
    elif cls == "ascending-shifted":  # 2..n+1 (first slide deleted without renumbering): in order, but not 1..n
        nums = list(range(2, n + 2))
    elif cls == "ascending-with-hole":  # 1..n+1 without one: in order, the name slide<n+1> is taken
        hole = rnd.randrange(1, n + 1)
        nums = [i for i in range(1, n + 2) if i != hole]
    elif cls == "last-is-n":  # the last slide is slide<n>, an earlier one is slide<n+1>
        nums = list(range(1, n + 1))
        j = rnd.randrange(0, n - 1)
        nums[j] = n + 1
    else:
        nums = rnd.sample(range(1, 12), n)
        if nums == sorted(nums) and nums[0] == 1:
            nums = list(reversed(nums))
    # two-step rename through temporary names to allow permutations
    m1 = {"/ppt/slides/slide%d.xml" % (i + 1): "/ppt/slides/tmpslide%d.xml" % (i + 1) for i in range(nslides)}
    m2 = {"/ppt/slides/tmpslide%d.xml" % (i + 1): "%s/slide%d.xml" % (folder, nums[i]) for i in range(nslides)}
    data = rename_members(rename_members(data, m1), m2)
    if blank_link:
        # the hyperlink relationship of slide 1 as a producer leaves it after the link was "cleared": Target="" (still referred to by
        # the run's a:hlinkClick)
        pk = opcx.Pkg.from_bytes(data)
        out = {}
        for name, blob in pk.members.items():
            if name.startswith("ppt/slides/_rels/") and b"/hyperlink\"" in blob:
                root = etree.fromstring(blob, opcx.PLAIN)
                for rel in root.iter("{%s}Relationship" % opcx.NS_PR):
                    if rel.get("Type", "").endswith("/hyperlink"):
                        rel.set("Target", "")
                blob = etree.tostring(root, xml_declaration=True, encoding="UTF-8", standalone=True)
            out[name] = blob
        buf = io.BytesIO()
        with zipfile.ZipFile(buf, "w", zipfile.ZIP_DEFLATED) as zf:
            for name, blob in out.items():
                zf.writestr(name, blob)
        data = buf.getvalue()
    if media:
        names = sorted(n for n in opcx.Pkg.from_bytes(data).members if n.startswith("ppt/media/image"))
        jpg = [n for n in names if not n.endswith(".png")]
        png = [n for n in names if n.endswith(".png")]
        if len(jpg) == 1 and len(png) >= 2:
            ext = jpg[0].rsplit(".", 1)[1]
            m1 = {"/" + jpg[0]: "/ppt/media/tmpimage1." + ext}
            m2 = {"/ppt/media/tmpimage1." + ext: "/ppt/media/image1." + ext}
            for k, n_ in enumerate(png[1:], start=2):  # the PNGs close ranks: image1.png, image2.png, ...
                m1["/" + n_] = "/ppt/media/tmpimage%d.png" % k
                m2["/ppt/media/tmpimage%d.png" % k] = "/ppt/media/image%d.png" % k
            data = rename_members(rename_members(data, m1), m2)
    # notes slides numbered independently of the slides they belong to (by the harness, whatever numbers the library under test
    # gave them while the deck was built): compact 1..k in an order of their own
    notes = sorted(n_ for n_ in opcx.Pkg.from_bytes(data).members if re.fullmatch(r"ppt/notesSlides/notesSlide\d+\.xml", n_))
    if notes:
        order = list(range(1, len(notes) + 1))
        rnd.shuffle(order)
        t1 = {"/" + n_: "/ppt/notesSlides/tmpNotes%d.xml" % k for k, n_ in enumerate(notes)}
        t2 = {"/ppt/notesSlides/tmpNotes%d.xml" % k: "/ppt/notesSlides/notesSlide%d.xml" % order[k] for k in range(len(notes))}
        data = rename_members(rename_members(data, t1), t2)
    if rnd.random() < 0.5:
        # relationship ids numbered unlike python-pptx numbers them, for the presentation part, the first slide or the package
        pk = opcx.Pkg.from_bytes(data)
        pres = [r_.target for r_ in pk.rels("/") if r_.type == opcx.RT_OFFICE_DOCUMENT][0]
        first = next((r_.target for r_ in pk.rels(pres) if r_.type.endswith("/slide")), None)
        src = rnd.choice([pres, pres, first or pres, "/"])
        data = renumber_rids(data, src, rnd.choice(["shifted", "gap", "gap", "foreign"]), rnd)
    if rnd.random() < 0.5:
        data = graft_foreign_parts(data, rnd)
    if rnd.random() < 0.5:
        data = respell_targets(data, rnd)
    if rnd.random() < 0.5:
        # a "voided" relationship (a plug-in removed an image by pointing its Target at NULL) that the slide's XML still uses
        pk = opcx.Pkg.from_bytes(data)
        out = dict(pk.members)
        for name in sorted(pk.members):
            if re.fullmatch(r"ppt/slides/_rels/slide\d+\.xml\.rels", name):
                root = etree.fromstring(pk.members[name], opcx.PLAIN)
                imgs = [r_ for r_ in root.iter("{%s}Relationship" % opcx.NS_PR) if r_.get("Type", "").endswith("/image")]
                if imgs:
                    rnd.choice(imgs).set("Target", "../media/NULL")
                    out[name] = etree.tostring(root, xml_declaration=True, encoding="UTF-8", standalone=True)
                    buf = io.BytesIO()
                    with zipfile.ZipFile(buf, "w", zipfile.ZIP_DEFLATED) as zf:
                        for name_, blob_ in out.items():
                            zf.writestr(name_, blob_)
                    data = buf.getvalue()
                    break
    if rnd.random() < 0.3:
        # XML comments among the children of the id lists and of the slides' shape trees (a generated or hand-edited deck):
        # they are no elements - counts, positions and iterations are over elements
        pk = opcx.Pkg.from_bytes(data)
        out = dict(pk.members)
        for name in sorted(pk.members):
            if name == "ppt/presentation.xml" or re.fullmatch(r"ppt/slides/slide\d+\.xml", name):
                root = etree.fromstring(pk.members[name], opcx.PLAIN)
                for el in list(root.iter()):
                    if isinstance(el.tag, str) and el.tag.rsplit("}", 1)[1] in ("sldIdLst", "sldMasterIdLst", "spTree", "txBody", "p") and rnd.random() < 0.7:
                        el.insert(rnd.choice([0, 0, len(el)]), etree.Comment(" generated "))
                out[name] = etree.tostring(root, xml_declaration=True, encoding="UTF-8", standalone=True)
        buf = io.BytesIO()
        with zipfile.ZipFile(buf, "w", zipfile.ZIP_DEFLATED) as zf:
            for name_, blob_ in out.items():
                zf.writestr(name_, blob_)
        data = buf.getvalue()
    if rnd.random() < 0.3 and nslides > 1:
        # a slide "deleted" the way the widespread recipe does it: its p:sldId is gone, its relationship (and part) stays
        pk = opcx.Pkg.from_bytes(data)
        pres = [r_.target for r_ in pk.rels("/") if r_.type == opcx.RT_OFFICE_DOCUMENT][0]
        root = etree.fromstring(pk.members[pres[1:]], opcx.PLAIN)
        sld = root.findall("{%s}sldIdLst/{%s}sldId" % (P, P))
        if len(sld) > 1:
            victim = sld[-1] if jump else sld[rnd.randrange(len(sld))]
            victim.getparent().remove(victim)
            out = dict(pk.members)
            out[pres[1:]] = etree.tostring(root, xml_declaration=True, encoding="UTF-8", standalone=True)
            if jump and rnd.random() < 0.6:
                # deleted "properly" - the presentation's relationship is gone as well - but the jump link of the first slide
                # still leads to it: the part stays in the package
                item = opcx.rels_item_name(pres)
                rr = etree.fromstring(out[item], opcx.PLAIN)
                for rel in list(rr):
                    if rel.get("Id") == victim.get("{%s}id" % opcx.NS_R):
                        rr.remove(rel)
                out[item] = etree.tostring(rr, xml_declaration=True, encoding="UTF-8", standalone=True)
            buf = io.BytesIO()
            with zipfile.ZipFile(buf, "w", zipfile.ZIP_DEFLATED) as zf:
                for name_, blob_ in out.items():
                    zf.writestr(name_, blob_)
            data = buf.getvalue()
    if rnd.random() < 0.5:
        # slide ids not ascending in presentation order, the highest not last (a later slide was dragged to the front)
        pk = opcx.Pkg.from_bytes(data)
        pres = [r_.target for r_ in pk.rels("/") if r_.type == opcx.RT_OFFICE_DOCUMENT][0]
        root = etree.fromstring(pk.members[pres[1:]], opcx.PLAIN)
        sld = root.findall("{%s}sldIdLst/{%s}sldId" % (P, P))
        ids = sorted((el.get("id") for el in sld), key=int, reverse=True)
        if len(ids) > 1:
            tail = ids[1:]
            rnd.shuffle(tail)
            for el, v in zip(sld, [ids[0]] + tail if rnd.random() < 0.5 else tail[:1] + [ids[0]] + tail[1:]):
                el.set("id", v)
            out = dict(pk.members)
            out[pres[1:]] = etree.tostring(root, xml_declaration=True, encoding="UTF-8", standalone=True)
            buf = io.BytesIO()
            with zipfile.ZipFile(buf, "w", zipfile.ZIP_DEFLATED) as zf:
                for name_, blob_ in out.items():
                    zf.writestr(name_, blob_)
            data = buf.getvalue()
    return data, nums


_GRAFTS = {
    # kind: (source, relationship type suffix, part name, content type, payload, declared by Default extension or None)
    "commentAuthors": ("pres", "commentAuthors", "/ppt/commentAuthors.xml", "application/vnd.openxmlformats-officedocument.presentationml.commentAuthors+xml",
                       b'<p:cmAuthorLst xmlns:p="http://schemas.openxmlformats.org/presentationml/2006/main"><p:cmAuthor id="0" name="A B" initials="AB" lastIdx="1" clrIdx="0"/></p:cmAuthorLst>', None),
    "comments": ("slide", "comments", "/ppt/comments/comment1.xml", "application/vnd.openxmlformats-officedocument.presentationml.comments+xml",
                 b'<p:cmLst xmlns:p="http://schemas.openxmlformats.org/presentationml/2006/main"><p:cm authorId="0" dt="2020-01-01T00:00:00.000" idx="1"><p:pos x="10" y="10"/><p:text>why?</p:text></p:cm></p:cmLst>', None),
    "tags": ("slide", "tags", "/ppt/tags/tag1.xml", "application/vnd.openxmlformats-officedocument.presentationml.tags+xml",
             b'<p:tagLst xmlns:p="http://schemas.openxmlformats.org/presentationml/2006/main"><p:tag name="K" val="v"/></p:tagLst>', None),
    "customXml": ("pres", "customXml", "/customXml/item1.xml", None, b'<?xml version="1.0"?><root xmlns="urn:x-verif"><v>1</v></root>', "xml"),
    "custom-properties": ("root", "custom-properties", "/docProps/custom.xml", "application/vnd.openxmlformats-officedocument.custom-properties+xml",
                          b'<Properties xmlns="http://schemas.openxmlformats.org/officeDocument/2006/custom-properties" xmlns:vt="http://schemas.openxmlformats.org/officeDocument/2006/docPropsVTypes"><property fmtid="{D5CDD505-2E9C-101B-9397-08002B2CF9AE}" pid="2" name="k"><vt:lpwstr>v</vt:lpwstr></property></Properties>', None),
    "font": ("pres", "font", "/ppt/fonts/font1.fntdata", "application/x-fontdata", bytes(range(256)) * 3, "fntdata"),
    "audio": ("slide", "MS-MEDIA", "/ppt/media/audio1.wav", "audio/wav", b"RIFF\x24\x00\x00\x00WAVEfmt " + bytes(28), "wav"),
    "slideUpdateInfo": ("slide", "slideUpdateInfo", "/ppt/slideUpdateInfo/slideUpdateInfo1.xml", "application/vnd.openxmlformats-officedocument.presentationml.slideUpdateInfo+xml",
                        b'<p:sldSyncPr xmlns:p="http://schemas.openxmlformats.org/presentationml/2006/main" serverSldId="s" serverSldModifiedTime="2020-01-01T00:00:00" clientInsertedTime="2020-01-01T00:00:00"/>', None),
}


def graft_foreign_parts(data, rnd):
    """One to three parts of kinds python-pptx has no class for (comment authors, comments, tags, custom XML with its
    properties part, custom document properties, an embedded font, slide update info), hung on the presentation, a slide or
    the package at zip level with a fresh relationship id, declared by Override or - where producers do - by Default."""
    pk = opcx.Pkg.from_bytes(data)
    out = dict(pk.members)
    pres = [r_.target for r_ in pk.rels("/") if r_.type == opcx.RT_OFFICE_DOCUMENT][0]
    slides = [r_.target for r_ in pk.rels(pres) if r_.type.endswith("/slide")]
    ct = etree.fromstring(out["[Content_Types].xml"], opcx.PLAIN)
    CT = "{http://schemas.openxmlformats.org/package/2006/content-types}"
    for kind in rnd.sample(sorted(_GRAFTS), rnd.choice([1, 2, 3])):
        where, rt, name, ctype, blob, default_ext = _GRAFTS[kind]
        src = {"pres": pres, "root": "/", "slide": rnd.choice(slides) if slides else pres}[where]
        if name[1:] in out:
            continue
        item = ("_rels/.rels" if src == "/" else opcx.rels_item_name(src).lstrip("/"))
        if item in out:
            root = etree.fromstring(out[item], opcx.PLAIN)
        else:
            root = etree.fromstring(b'<Relationships xmlns="%s"/>' % opcx.NS_PR.encode())
        used = {r_.get("Id") for r_ in root}
        rid = next("rId%d" % k for k in range(rnd.choice([1, len(used) + 1, len(used) + 7]), 10 ** 6) if "rId%d" % k not in used)
        base = "/" if src == "/" else posixpath.dirname(src)
        target = name[1:] if base == "/" else posixpath.relpath(name, base)
        rtype = "http://schemas.microsoft.com/office/2007/relationships/media" if rt == "MS-MEDIA" else "http://schemas.openxmlformats.org/officeDocument/2006/relationships/" + rt
        etree.SubElement(root, "{%s}Relationship" % opcx.NS_PR, Id=rid, Type=rtype, Target=target)
        out[item] = etree.tostring(root, xml_declaration=True, encoding="UTF-8", standalone=True)
        out[name[1:]] = blob
        exts = {d.get("Extension").lower(): d.get("ContentType") for d in ct if d.tag == CT + "Default"}
        if default_ext and (default_ext not in exts or ctype is None or exts[default_ext] == ctype):
            if default_ext not in exts:
                ct.insert(0, etree.Element(CT + "Default", Extension=default_ext, ContentType=ctype or "application/xml"))
        else:
            etree.SubElement(ct, CT + "Override", PartName=name, ContentType=ctype or "application/xml")
        if kind == "customXml":  # its properties part, related from the item itself
            out["customXml/itemProps1.xml"] = b'<ds:datastoreItem xmlns:ds="http://schemas.openxmlformats.org/officeDocument/2006/customXml" ds:itemID="{00000000-0000-0000-0000-000000000001}"><ds:schemaRefs/></ds:datastoreItem>'
            out["customXml/_rels/item1.xml.rels"] = (
                b'<?xml version="1.0" encoding="UTF-8" standalone="yes"?><Relationships xmlns="%s"><Relationship Id="rId1" Type="http://schemas.openxmlformats.org/officeDocument/2006/relationships/customXmlProps" Target="itemProps1.xml"/></Relationships>' % opcx.NS_PR.encode()
            )
            etree.SubElement(ct, CT + "Override", PartName="/customXml/itemProps1.xml", ContentType="application/vnd.openxmlformats-officedocument.customXmlProperties+xml")
    out["[Content_Types].xml"] = etree.tostring(ct, xml_declaration=True, encoding="UTF-8", standalone=True)
    buf = io.BytesIO()
    with zipfile.ZipFile(buf, "w", zipfile.ZIP_DEFLATED) as zf:
        for name_, blob_ in out.items():
            zf.writestr(name_, blob_)
    return buf.getvalue()


def respell_targets(data, rnd, share=0.35):
    """Some internal relationship Targets re-spelt in another form OPC allows for the same part: absolute ('/ppt/media/image1.png'),
    with a leading './', or up to the parent directory and down again."""
    pk = opcx.Pkg.from_bytes(data)
    out = dict(pk.members)
    for name, blob in pk.members.items():
        d, f = posixpath.split(name)
        if not (f.endswith(".rels") and posixpath.basename(d) == "_rels"):
            continue
        src_dir = posixpath.dirname(d)
        src = "/" if name == "_rels/.rels" else "/" + (src_dir + "/" if src_dir else "") + f[: -len(".rels")]
        root = etree.fromstring(blob, opcx.PLAIN)
        hit = False
        for rel in root.iter("{%s}Relationship" % opcx.NS_PR):
            if rel.get("TargetMode") == "External" or rnd.random() > share:
                continue
            tgt = opcx.resolve(src, rel.get("Target"))
            if tgt[1:] not in pk.members:
                continue
            how = rnd.choice(["abs", "abs", "dot", "updown"])
            base = "/" if src == "/" else posixpath.dirname(src)
            relref = tgt[1:] if base == "/" else posixpath.relpath(tgt, base)
            if how == "abs":
                new = tgt
            elif how == "dot":
                new = "./" + relref
            else:
                segs = relref.split("/")
                new = (segs[0] + "/../" + relref) if len(segs) > 1 and segs[0] != ".." else "./" + relref
            if opcx.resolve(src, new) == tgt:
                rel.set("Target", new)
                hit = True
        if hit:
            out[name] = etree.tostring(root, xml_declaration=True, encoding="UTF-8", standalone=True)
    buf = io.BytesIO()
    with zipfile.ZipFile(buf, "w", zipfile.ZIP_DEFLATED) as zf:
        for name_, blob_ in out.items():
            zf.writestr(name_, blob_)
    return buf.getvalue()


def renumber_rids(data, source, how, rnd):
    """The relationship ids of one source part (or of the package, source '/') re-spelt consistently in its relationship item
    and in every r:* attribute of its XML: 'shifted' (rId2..rId<n+1>), 'gap' (one id moved to rId<n+1>: a hole below, the name
    just above the count in use) or 'foreign' (R1fa0, R1fa1 ... as other producers write)."""
    pk = opcx.Pkg.from_bytes(data)
    item = opcx.rels_item_name(source)[0:] if source != "/" else "_rels/.rels"
    item = item.lstrip("/")
    if item not in pk.members:
        return data
    root = etree.fromstring(pk.members[item], opcx.PLAIN)
    rels = list(root.iter("{%s}Relationship" % opcx.NS_PR))
    ids = [r_.get("Id") for r_ in rels]
    n = len(ids)
    if n < 2:
        return data
    if how == "shifted":
        mapping = {old: "rId%d" % (k + 2) for k, old in enumerate(ids)}
    elif how == "gap":
        mapping = {old: "rId%d" % (k + 1) for k, old in enumerate(ids)}
        mapping[ids[rnd.randrange(0, n - 1)]] = "rId%d" % (n + 1)
    else:
        mapping = {old: "R1fa%x" % k for k, old in enumerate(ids)}
    for r_ in rels:
        r_.set("Id", mapping[r_.get("Id")])
    out = dict(pk.members)
    out[item] = etree.tostring(root, xml_declaration=True, encoding="UTF-8", standalone=True)
    if source != "/":
        part = etree.fromstring(pk.members[source[1:]], opcx.PLAIN)
        for el in part.iter():
            for k_, v_ in list(el.attrib.items()):
                if k_.startswith("{%s}" % opcx.NS_R) and v_ in mapping:
                    el.set(k_, mapping[v_])
        out[source[1:]] = etree.tostring(part, xml_declaration=True, encoding="UTF-8", standalone=True)
    buf = io.BytesIO()
    with zipfile.ZipFile(buf, "w", zipfile.ZIP_DEFLATED) as zf:
        for name, blob in out.items():
            zf.writestr(name, blob)
    return buf.getvalue()


def open_start(start, rnd):
    """-> (Presentation, input bytes, description)"""
    import pptx

    kind = start["kind"]
    if kind == "default":
        data = default_template_bytes()
    elif kind == "corpus":
        data = open(os.path.join(env.REPO, start["deck"]), "rb").read()
    elif kind == "manufactured":
        data, nums = manufactured_deck(env.rng("manufactured", start.get("k", 0)), start.get("n", 3))
    else:
        raise ValueError(kind)
    return pptx.Presentation(io.BytesIO(data)), data


# ============================================================================ helpers over the object model
def all_slides(prs):
    return list(prs.slides)


def iter_shapes(container):
    for sh in container.shapes:
        yield sh
        if sh.shape_type is not None and getattr(sh, "shapes", None) is not None and sh.__class__.__name__ == "GroupShape":
            yield from iter_shapes(sh)


def slide_shapes(slide):
    try:
        return list(iter_shapes(slide))
    except Exception:
        return list(slide.shapes)


def xml_parts(prs):
    out = []
    for part in prs.part.package.iter_parts():
        el = getattr(part, "_element", None)
        if el is not None:
            out.append(part)
    return out


def part_hash(part):
    return hash(etree.tostring(part._element))


# ============================================================================ the interpreter
class Run:
    def __init__(self, profile, start, seed_parts, nops, acc, deciders, tmp, save_every=None):
        self.profile = profile
        self.start = start
        self.seed_parts = list(seed_parts)
        self.nops = nops
        self.acc = acc
        self.deciders = set(deciders)
        self.tmp = tmp
        self.rnd = env.rng("hist", profile, start, *seed_parts)
        self.log = []
        self.prs = None
        self.baseline_closure = Counter()
        self.val_baseline = {}  # part object -> Counter of validator messages
        self.hashes = {}
        self.handles = []  # (slide_id, part)
        self.slides_accessed = False
        self.files = None
        self.abandoned = False
        self.saves = 0
        self.save_every = save_every

    # ---- witness / reporting
    def witness(self):
        return {"profile": self.profile, "start": self.start, "seed": self.seed_parts, "nops": self.nops, "at_op": len(self.log), "ops": self.log[-12:]}

    def report(self, prop, key, what):
        if prop in self.deciders:
            self.acc.violation(key, "%s | after ops: %s" % (what, " ; ".join(self.log[-4:])), self.witness())
        else:
            self.acc.count("side-observation:%s:%s" % (prop, key))

    def drain_monitors(self):
        for prop, key, what in monitors.SINK.drain():
            self.report(prop, key, what)

    # ---- files used by ops
    def ensure_files(self):
        if self.files is None:
            r = env.rng("files", *self.seed_parts)
            f = {}
            for i in range(3):
                p = os.path.join(self.tmp, "img%d_%s.png" % (i, "_".join(str(x) for x in self.seed_parts)))
                open(p, "wb").write(gen.png_bytes(r))
                f["img%d" % i] = p
            p = os.path.join(self.tmp, "pic.jpg")
            open(p, "wb").write(gen.png_bytes(r, fmt="JPEG"))
            f["jpg"] = p
            p = os.path.join(self.tmp, "movie.mp4")
            open(p, "wb").write(b"\x00\x00\x00\x18ftypmp42" + bytes(r.randrange(256) for _ in range(64)))
            f["movie"] = p
            p = os.path.join(self.tmp, "CLIP.MP4")  # upper-case extension: content types resolve case-insensitively
            open(p, "wb").write(b"\x00\x00\x00\x18ftypmp42" + bytes(r.randrange(256) for _ in range(48)))
            f["movie_upper"] = p
            p = os.path.join(self.tmp, "embedded.xlsx")
            open(p, "wb").write(b"PK\x05\x06" + b"\x00" * 18)
            f["ole"] = p
            p = os.path.join(self.tmp, "notimage.txt")
            open(p, "wb").write(b"this is not an image")
            f["notimage"] = p
            self.files = f
        return self.files

    # ---- open
    def open(self):
        self.prs, data = open_start(self.start, self.rnd)
        if self.start["kind"] != "default" and self.rnd.random() < 0.35:
            # the deck is saved once straight after opening, before anything (the slide collection in particular) has been
            # touched: whatever that first save computes and keeps must not outlive the renaming of parts that follows
            self.prs.save(io.BytesIO())
            self.log.append("save-before-anything-else")
            self.acc.count("histories_starting_with_a_save_before_any_access")
        if self.profile in ("xml", "mixed", "sat"):
            from . import ops

            ops.enrich_start(self)
        pin = opcx.Pkg.from_bytes(data)
        # "... equal to the type it was created or loaded with": the type each loaded part has IN THE INPUT, read by the harness
        self.loaded_types = {}
        for part in self.prs.part.package.iter_parts():
            t = pin.ctype(str(part.partname)) if pin.has_part(str(part.partname)) else None
            if t is not None:
                self.loaded_types[id(part)] = (part, str(part.partname), t)
        self.baseline_closure = Counter((r, _norm_detail(d)) for r, d in opcx.closure_problems(pin))
        # relationships of the INPUT whose target part is absent ("voided"): python-pptx cannot but drop them, and an r:id the
        # source's XML still carries was unresolvable before it was opened
        self.voided_in_input = {(src, r_.id) for src in pin.part_names() for r_ in (pin.rels(src) or []) if not r_.external and not pin.has_part(r_.target)}
        # (... or that had no relationship at all in the input, e.g. the same deck saved by python-pptx and opened again)
        self.voided_in_input |= {(src, val) for src in pin.part_names() for _a, val in pin.r_refs(src) if val and val not in {r_.id for r_ in (pin.rels(src) or [])}}
        for part in xml_parts(self.prs):
            errs, why = xsdkit.validate_part(etree.tostring(part._element))
            self.val_baseline[part] = errs if errs is not None else None
            self.hashes[part] = part_hash(part)
        if "C10" in self.deciders:  # duplicates a start deck brings along are not python-pptx's
            for part in xml_parts(self.prs):
                if part._element.tag.endswith("}chartSpace"):
                    self.__dict__.setdefault("idx_dups", {})[part] = {(h_, k_, v_) for h_, k_, v_, _c in _indexed_duplicates(part._element)}
        # bytes of every image the opened deck holds, wherever it sits (slide / layout pictures, the docProps thumbnail ...)
        self.open_images = sorted({part.blob for part in self.prs.part.package.iter_parts()
                                   if str(part.partname).startswith("/ppt/media/image") or str(getattr(part, "content_type", "")).startswith("image/")})[:8]
        self.acc.count("decks_opened")
        monitors.SINK.drain()

    # ---- after every op
    def after_op(self, opname, rejected):
        self.drain_monitors()
        if "C03" in self.deciders or "C03" in getattr(self, "observe", ()) or "C10" in self.deciders:
            self.check_validity(opname, rejected)
        if "C06" in self.deciders:
            self.check_ids(opname)

    def check_validity(self, opname, rejected):
        for part in xml_parts(self.prs):
            h = part_hash(part)
            if self.hashes.get(part) == h:
                continue
            if "C10" in self.deciders and part._element.tag.endswith("}chartSpace"):
                # 'get or add creates at most one child', for the children that are keyed by an index: one c:dPt / c:dLbl per c:idx
                C = "{http://schemas.openxmlformats.org/drawingml/2006/chart}"
                seen_dups = self.__dict__.setdefault("idx_dups", {}).setdefault(part, set())
                for hname, kind, v_, c_ in _indexed_duplicates(part._element):
                    if (hname, kind, v_) not in seen_dups:
                        seen_dups.add((hname, kind, v_))
                        self.report("C10", "get-or-add-duplicate:c:%s>c:%s" % (hname, kind), "op %s: %d <c:%s> with c:idx %s in one <c:%s> of %s" % (opname, c_, kind, v_, hname, part.partname))
                self.acc.count("indexed_children_checked_for_duplicates")
            new_part = part not in self.hashes
            self.hashes[part] = h
            errs, why = xsdkit.validate_part(etree.tostring(part._element))
            if errs is None:
                self.acc.count("parts_without_shipped_schema_skipped")
                continue
            self.acc.count("parts_revalidated")
            base = Counter() if new_part else (self.val_baseline.get(part) or Counter())
            if new_part:
                self.val_baseline[part] = Counter()
            fresh = errs - base
            has_mc = b"AlternateContent" in etree.tostring(part._element)
            for msg, n in fresh.items():
                key = "invalid-xml:%s:%s%s" % (opname, _msg_class(msg), ":part-has-mc-AlternateContent" if has_mc else "")
                self.report(
                    "C03",
                    key,
                    "%s %s left %s with a new schema error: %s" % ("rejected call" if rejected else "op", opname, part.partname, msg[:300]),
                )
                # C10's clause seen from the result, whatever code did the inserting (also hand-written code that does not go through
                # insert_element_before): an element the parent's type DOES permit now stands where the schema does not expect it
                pc = _misplaced_pair(msg)
                if pc is not None:
                    self.report(
                        "C10",
                        "out-of-order-after-op:%s>%s%s" % (pc[0], pc[1], ":part-has-mc-AlternateContent" if has_mc else ""),
                        "op %s left <%s> in <%s> of %s where the schema does not expect it: %s" % (opname, pc[1], pc[0], part.partname, msg[:240]),
                    )
            # errors accepted into the baseline so that each is reported once per history
            self.val_baseline[part] = base + fresh

    def check_ids(self, opname):
        prs = self.prs
        # duplicate shape ids per slide-like part (new duplicates only)
        for part in xml_parts(prs):
            root = part._element
            if root.tag not in ("{%s}sld" % P, "{%s}sldLayout" % P, "{%s}sldMaster" % P, "{%s}notes" % P, "{%s}notesMaster" % P):
                continue
            ids = xp(root, "//p:cNvPr[not(ancestor::p:oleObj and @id='0')]/@id")  # the icon picture nested in p:oleObj carries id=0 by convention (any other id it carries counts)
            ids = [monitors.canon_id(i) for i in ids]  # '003', ' 3', '+3' and '3' are one id
            dups = {i for i, c in Counter(ids).items() if c > 1}
            known = self.id_dups.setdefault(part, None)
            if known is None:
                self.id_dups[part] = dups
                continue
            for d in dups - known:
                self.report(
                    "C06",
                    "duplicate-shape-id" + (":after-turbo-add-enabled" if getattr(self, "turbo_used", False) else ""),
                    "op %s: shape id %s now occurs twice in %s" % (opname, d, part.partname),
                )
            self.id_dups[part] = dups
            self.acc.count("shape_id_sets_checked")
        # slide ids
        sldIdLst = prs.part._element.find("{%s}sldIdLst" % P)
        cur = {}
        if sldIdLst is not None:
            vals = [monitors.canon_id(s.get("id")) for s in sldIdLst if isinstance(s.tag, str)]
            for v, c in Counter(vals).items():
                if c > 1 and v not in self.sld_dups:
                    self.sld_dups.add(v)
                    if opname != "open":  # duplicates injected into the start state are baseline
                        self.report("C06", "duplicate-slide-id", "op %s: slide id %s occurs %d times" % (opname, v, c))
            for s in (x for x in sldIdLst if isinstance(x.tag, str)):
                rid = s.get("{%s}id" % opcx.NS_R)
                try:
                    part = prs.part.related_part(rid)
                except KeyError:
                    continue
                cur[part] = s.get("id")
                if s.get("id") is not None and s.get("id").isdecimal() and not (256 <= int(s.get("id")) <= 2147483647) and part not in self.slide_ids:
                    self.report("C06", "slide-id-out-of-range", "op %s: new slide has id %s" % (opname, s.get("id")))
            for part, sid in self.slide_ids.items():
                if part in cur and cur[part] != sid:
                    self.report("C06", "slide-id-changed", "op %s: slide %s id %s -> %s" % (opname, part.partname, sid, cur[part]))
            self.slide_ids = cur
            self.acc.count("slide_id_lists_checked")
        # relationship ids keep designating the same target; part names unique
        names = Counter()
        for part in [None] + list(prs.part.package.iter_parts()):
            rels = prs.part.package._rels if part is None else part.rels
            now = {}
            for rid, rel in rels.items():
                now[rid] = rel._target if rel.is_external else id(rel._target)
            old = self.rel_maps.get(part)
            el_root = getattr(part, "_element", None) if part is not None else None
            if old is not None:
                for rid, tgt in now.items():
                    if rid in old and old[rid] != tgt:
                        # reassignment is only a violation while the id is in use: some element that
                        # referred to it before the op still exists and still carries the same value
                        users = [
                            (el, k)
                            for el, k, v in self.ref_users.get(part, ())
                            if v == rid and el.get(k) == rid and el_root is not None and _top(el) is el_root
                        ]
                        if users:
                            self.report("C06", "rId-reassigned-while-in-use", "op %s: %s %s now designates another target while <%s> still refers to it" % (opname, part.partname, rid, xsdkit.pfx_tag(users[0][0].tag)))
                        else:
                            self.acc.count("rId_reused_after_drop_allowed")
                    elif rid not in old:
                        # a NEW id: no element that was there before the op may already have carried it (a reference whose
                        # relationship was voided in the input is still 'in use' by the XML)
                        users = [
                            (el, k)
                            for el, k, v in self.ref_users.get(part, ())
                            if v == rid and el.get(k) == rid and el_root is not None and _top(el) is el_root
                        ]
                        if users:
                            self.report("C06", "rId-reassigned-while-in-use:was-unresolved", "op %s: %s hands out %s, which <%s> already referred to (without a relationship) before the op" % (opname, part.partname, rid, xsdkit.pfx_tag(users[0][0].tag)))
            self.rel_maps[part] = now
            if el_root is not None and len(rels):
                self.ref_users[part] = [
                    (el, k, v) for el in el_root.iter() if isinstance(el.tag, str) for k, v in el.attrib.items() if k.startswith("{%s}" % opcx.NS_R)
                ]
            if part is not None:
                names[str(part.partname)] += 1
        for n, c in names.items():
            if c > 1:
                self.report("C06", "duplicate-partname", "op %s: %d parts named %s" % (opname, c, n))
        # an rId handed to a hyperlink element designates a hyperlink (or, for a jump, a slide) - not whatever took the number since
        known_bad = self.__dict__.setdefault("link_kind_bad", set())
        for part in xml_parts(prs):
            for el in xp(part._element, "//a:hlinkClick[@r:id!=''] | //a:hlinkHover[@r:id!='']"):
                rid = el.get("{%s}id" % opcx.NS_R)
                rel = part.rels.get(rid) if hasattr(part.rels, "get") else None
                kind = None if rel is None else rel.reltype.rsplit("/", 1)[-1]
                if kind not in ("hyperlink", "slide") and (id(el), rid, kind) not in known_bad:
                    known_bad.add((id(el), rid, kind))  # (an id that designated nothing at open and designates an image now is a new event)
                    if opname != "open":
                        self.report("C06", "link-rId-designates-%s" % (kind or "nothing"), "op %s: <a:%s r:id=%r> in %s designates a relationship of kind %s" % (opname, el.tag.split("}")[1], rid, part.partname, kind))
        self.acc.count("hyperlink_rids_checked")
        self.acc.count("relationship_maps_checked")
        # handles taken earlier still designate the same slide
        for sid, part in self.handles:
            if str(sid) in self.sld_dups:
                continue  # ambiguous in the start state
            try:
                s = prs.slides.get(sid)
            except Exception:
                s = None
            if s is None or s.part is not part:
                self.report("C06", "slide-handle-stale", "op %s: slides.get(%s) no longer designates the same slide" % (opname, sid))
        for slide_part, shape_id, el in self.shape_handles[-40:]:
            found = xp(slide_part._element, "//p:cNvPr[@id='%d']" % shape_id)
            if len(found) == 1 and found[0] is not el:
                self.report("C06", "shape-handle-stale", "op %s: shape id %d in %s designates another element" % (opname, shape_id, slide_part.partname))
            self.acc.count("shape_handles_checked")

    # ---- save
    def save_and_check(self, how="stream"):
        try:
            return self._save_and_check(how)
        except Exception as e:  # noqa
            if getattr(self, "_saving", False) and "C02" in self.deciders:
                # "at any point of any sequence of public-API operations ... saving produces a zip": a save() that raises
                # produces none (or half of one, over whatever the path held)
                self._saving = False
                self.report("C02", "save-raises:%s" % type(e).__name__, "save #%d (%s) raised %s: %s" % (self.saves + 1, how, type(e).__name__, str(e)[:160]))
            raise

    def _save_and_check(self, how="stream"):
        prs = self.prs
        expect_types = {str(p.partname): p.content_type for p in prs.part.package.iter_parts()}
        self._saving = True
        if how == "path":
            path = os.path.join(self.tmp, "save_%s.pptx" % "_".join(str(x) for x in self.seed_parts))
            prs.save(path)
            data = open(path, "rb").read()
            os.unlink(path)
        elif how == "same-stream":
            # the caller keeps one stream object and saves into it again and again (never rewinds it)
            if getattr(self, "shared_stream", None) is None:
                self.shared_stream = io.BytesIO()
            prs.save(self.shared_stream)
            data = self.shared_stream.getvalue()
        elif how == "same-path":
            path = os.path.join(self.tmp, "same_%s.pptx" % "_".join(str(x) for x in self.seed_parts))
            prs.save(path)
            data = open(path, "rb").read()
        else:
            buf = io.BytesIO()
            prs.save(buf)
            data = buf.getvalue()
        self._saving = False
        self.saves += 1
        self.acc.count("saves")
        self.acc.hit("Presentation.save")
        self.drain_monitors()
        if "C02" not in self.deciders and "C06" not in self.deciders:
            return data
        try:
            pout = opcx.Pkg.from_bytes(data)
        except Exception as e:  # noqa
            self.report("C02", "saved-file-unreadable", "saved bytes are not a readable zip: %r" % e)
            return data
        if "C02" in self.deciders:
            probs = Counter((r, _norm_detail(d)) for r, d in opcx.closure_problems(pout, expect_types))
            fresh = probs - self.baseline_closure
            now_named = {str(part.partname): rec[1] for part in prs.part.package.iter_parts() for rec in [getattr(self, "loaded_types", {}).get(id(part))] if rec is not None and rec[0] is part}
            for (rule, det), n in fresh.items():
                if rule == "dangling-r-reference" and getattr(self, "voided_in_input", None):
                    src_, ref_ = det.split(" r:", 1)
                    if (now_named.get(src_, src_), ref_.split("=", 1)[1]) in self.voided_in_input:
                        self.acc.count("references_to_relationships_voided_in_the_input")
                        continue
                self.report("C02", "closure:%s" % rule, "save #%d: %s %s" % (self.saves, rule, det))
            self.acc.count("saves_checked_for_closure")
            for part in prs.part.package.iter_parts():
                rec = getattr(self, "loaded_types", {}).get(id(part))
                if rec is not None and rec[0] is part and pout.has_part(str(part.partname)) and pout.ctype(str(part.partname)) != rec[2]:
                    self.report("C02", "content-type-changed-from-loaded:%s" % rec[2], "save #%d: %s (loaded as %s with type %r) is written with type %r" % (self.saves, part.partname, rec[1], rec[2], pout.ctype(str(part.partname))))
            self.acc.count("loaded_part_types_compared", len(getattr(self, "loaded_types", {})))
            # every in-memory part is in the file under its name
            for pn in expect_types:
                if not pout.has_part(pn):
                    self.report("C02", "part-not-written", "save #%d: in-memory part %s is not in the file" % (self.saves, pn))
            self.reopen_and_compare(data)
        if "C06" in self.deciders and self.slides_accessed:
            self.check_slide_names(pout)
        return data

    def check_slide_names(self, pout):
        root = pout.xml_root("/ppt/presentation.xml")
        if root is None:
            return
        rels = {r.id: r for r in pout.rels("/ppt/presentation.xml") or []}
        names = []
        lst = root.find("{%s}sldIdLst" % P)
        for s in [x for x in lst if isinstance(x.tag, str)] if lst is not None else []:
            r = rels.get(s.get("{%s}id" % opcx.NS_R))
            if r is not None:
                names.append(r.target)
        want = ["/ppt/slides/slide%d.xml" % (i + 1) for i in range(len(names))]
        self.acc.count("slide_name_orders_checked")
        if getattr(self, "names_disturbed", False):
            # a slide was deleted by the recipe (harness-side surgery on p:sldIdLst, not an operation of the public API): the
            # names close up again at the next add_slide or the next first access
            self.acc.count("slide_name_orders_not_judged_after_a_recipe_deletion")
        elif names != want:
            self.report("C06", "slide-partnames-not-1..n-in-order", "after .slides access the saved slide parts are %s" % names[:8])

    def reopen_and_compare(self, data):
        import pptx

        try:
            stream = io.BytesIO()
            stream.write(data)  # the stream as a save leaves it: cursor at the end (half of the time), else rewound
            if self.saves % 2:
                stream.seek(0)
            prs2 = pptx.Presentation(stream)
        except Exception as e:  # noqa
            self.report("C02", "reopen-raises:%s" % type(e).__name__, "re-opening save #%d raised %r" % (self.saves, e))
            return None
        self.acc.count("reopens")
        try:
            a = snapshot(self.prs)
            b = snapshot(prs2)
        except Exception as e:  # noqa  (snapshot walks public readers; an exotic corpus shape may not support one)
            self.acc.count("snapshot_not_comparable:%s" % type(e).__name__)
            return prs2
        self.slides_accessed = True
        if a != b:
            self.report("C02", "reopened-differs:%s" % diff_class(a, b), "re-opened save #%d differs from memory: %s" % (self.saves, first_diff(a, b)))
        self.acc.count("snapshots_compared")
        return prs2

    # ---- main loop
    def run(self):
        from . import ops

        self.id_dups, self.sld_dups, self.slide_ids, self.rel_maps, self.shape_handles, self.ref_users = {}, set(), {}, {}, [], {}
        try:
            self.open()
        except Exception as e:  # noqa
            self.acc.count("start_state_not_openable:%s" % type(e).__name__)
            return
        if "C06" in self.deciders:
            ops.inject_id_state(self)
            self.check_ids("open")
        table = ops.profile_table(self.profile)
        for i in range(self.nops):
            name, fn, doc_exc = ops.pick(table, self.rnd)
            rejected = False
            try:
                desc = fn(self)
                self.log.append("%s(%s)" % (name, desc if desc is not None else ""))
                self.acc.classes["op:" + name] = self.acc.classes.get("op:" + name, 0) + 1
            except Rejected:
                # nothing suitable exists yet: create something the op family needs instead
                self.acc.count("ops_skipped_nothing_suitable")
                name = ops.creator_for(name, self.rnd)
                fn, doc_exc = ops.ALL_OPS[name][0], ops.ALL_OPS[name][1] or (Rejected,)
                try:
                    desc = fn(self)
                    self.log.append("%s(%s)" % (name, desc if desc is not None else ""))
                    self.acc.classes["op:" + name] = self.acc.classes.get("op:" + name, 0) + 1
                except Rejected:
                    continue
                except Exception as e:  # noqa
                    self.abandoned = True
                    self.acc.count("abandoned:%s:%s" % (name, type(e).__name__))
                    self.acc.note("history abandoned at %s: %s: %s" % (name, type(e).__name__, str(e)[:120]))
                    self.drain_monitors()
                    return
            except doc_exc as e:
                rejected = True
                self.log.append("%s -> rejected %s" % (name, type(e).__name__))
                self.acc.count("rejected_calls")
            except Exception as e:  # undocumented exception: outside what is quantified over; abandon
                if name.startswith("add_") and "C06" in self.deciders and name != "add_picture_notimage":
                    # ... except for C06, which quantifies over "however shapes are added ... on decks with arbitrary existing
                    # ids": an addition to a loadable deck that raises is no addition
                    self.report("C06", "addition-raises:%s:%s" % (name, type(e).__name__), "op %s raised %s: %s" % (name, type(e).__name__, str(e)[:120]))
                self.abandoned = True
                self.acc.count("abandoned:%s:%s" % (name, type(e).__name__))
                self.acc.note("history abandoned at %s: %s: %s" % (name, type(e).__name__, str(e)[:120]))
                self.drain_monitors()
                return
            self.acc.count("ops_executed")
            try:
                self.after_op(name, rejected)
                if self.save_every and (i + 1) % self.save_every == 0 and not name.startswith("save"):
                    self.save_and_check("stream")
            except Exception as e:  # noqa
                import traceback

                self.acc.inconclusive.append("oracle error after %s: %s" % (name, traceback.format_exc()[-800:]))
                return


def _indexed_duplicates(root):
    """[(holder local name, 'dPt'|'dLbl', idx, count)] for every c:ser / c:dLbls holding several children with one c:idx."""
    C = "{http://schemas.openxmlformats.org/drawingml/2006/chart}"
    out = []
    for holder in root.iter(C + "ser", C + "dLbls"):
        for kind in ("dPt", "dLbl"):
            idxs = [(k_.find(C + "idx").get("val") if k_.find(C + "idx") is not None else None) for k_ in holder.findall(C + kind)]
            out += [(holder.tag.split("}")[1], kind, v_, c_) for v_, c_ in Counter(idxs).items() if c_ > 1]
    return out


def _misplaced_pair(msg):
    """('p:sld', 'p:timing(marker)') when a validator message says 'element not expected' about a child that some schema type
    of its parent does permit (wrong position, second member of a choice, one occurrence too many); None otherwise (a child
    the parent's type never permits is not an ordering matter)."""
    import re

    where, _, text = msg.partition(" | ")
    if "This element is not expected" not in text:
        return None
    path = where.split("/")
    if len(path) < 2:
        return None
    m = re.match(r"([A-Za-z0-9]+:[A-Za-z0-9_]+)(\(.*\))?$", path[-1])
    if not m:
        return None
    child, marker = m.group(1), m.group(2) or ""
    parent = path[-2]
    try:
        pt, ct = xsdkit.clark(parent), xsdkit.clark(child)
    except Exception:  # noqa
        return None
    mdl = xsdkit.model()
    ptypes = monitors._candidate_types(pt)
    if len(path) >= 3:  # the parent's type where it stands (c:ser, a:xfrm, c:tx ... have several): as declared by the grandparent's types
        try:
            gt = xsdkit.clark(re.sub(r"\(.*\)$", "", path[-3]))
            narrowed = {e.type for t in monitors._candidate_types(gt) if mdl.particle(t) is not None for e in mdl.particle(t).elements() if e.name == pt and e.type}
            if narrowed:
                ptypes = sorted(narrowed)
        except Exception:  # noqa
            pass
    for t in ptypes:
        prt = mdl.particle(t) if mdl.is_complex(t) else None
        if prt is not None and any(e.name == ct for e in prt.elements()):
            return parent, child + marker
    return None


def _top(el):
    """Topmost ancestor (a removed lxml element keeps its document, so getroottree() cannot tell)."""
    while el.getparent() is not None:
        el = el.getparent()
    return el


def _norm_detail(d):
    return d


def _msg_class(msg):
    """Normalise a validator message into a mechanism key: where (grandparent/parent/element) +
    kind of complaint, concrete values stripped."""
    import re

    where, _, text = msg.partition(" | ")
    m = re.match(r"Element '([^']+)'(?:, attribute '([^']+)')?: (.*)", text)
    if not m:
        return re.sub(r"'[^']*'", "'..'", text)[:80]
    el, attr, rest = m.groups()
    if "This element is not expected" in rest:
        kind = "unexpected-element"
    elif "Missing child element" in rest:
        kind = "missing-child"
    elif "'xs:unsignedInt'" in rest and re.match(r"'-[0-9]+' is not a valid value", rest):
        kind = "negative-unsignedInt"
    elif "is not a valid value" in rest or "facet" in rest:
        kind = "bad-value"
    elif "is required but missing" in rest:
        kind = "missing-attribute"
    elif "is not allowed" in rest:
        kind = "attribute-not-allowed"
    else:
        kind = re.sub(r"'[^']*'", "'..'", rest)[:40]
    return "%s%s:%s" % (where or el, "/@" + attr if attr else "", kind)


# ============================================================================ semantic snapshot (public API only)
def snapshot(prs):
    out = []
    for slide in prs.slides:
        s = {"layout": slide.slide_layout.name, "shapes": []}
        for sh in iter_shapes(slide):
            d = {"kind": sh.__class__.__name__, "id": sh.shape_id, "name": sh.name}
            try:
                d["geom"] = (sh.left, sh.top, sh.width, sh.height)
            except Exception:
                d["geom"] = None
            if getattr(sh, "has_text_frame", False) and sh._element.find("{%s}txBody" % P) is not None:
                d["text"] = sh.text_frame.text
            if sh.__class__.__name__ in ("Picture", "PlaceholderPicture"):
                try:
                    d["image"] = sh.image.sha1
                except Exception:
                    d["image"] = "?"
            if getattr(sh, "has_chart", False):
                ch = sh.chart
                c = {"type": str(ch.chart_type), "plots": []}
                for pl in ch.plots:
                    c["plots"].append({"cats": [str(x) for x in pl.categories], "series": [(se.name, tuple(se.values)) for se in pl.series]})
                d["chart"] = c
            if getattr(sh, "has_table", False):
                d["table"] = [[c.text for c in row.cells] for row in sh.table.rows]
            if sh.__class__.__name__ != "GroupShape" and hasattr(sh, "click_action"):
                try:
                    ca = sh.click_action
                    tgt = ca.target_slide
                    # (for a jump the "address" is the target's part NAME, which the first .slides access of a re-opened deck may
                    # legitimately renumber: the slide id says which slide it is)
                    d["action"] = (str(ca.action), ca.hyperlink.address if tgt is None else "(slide)", tgt.slide_id if tgt is not None else None)
                except Exception as e:  # a jump to a slide no longer in the list etc.
                    d["action"] = "raises:" + type(e).__name__
            if getattr(sh, "has_text_frame", False) and sh._element.find("{%s}txBody" % P) is not None:
                d["links"] = [r.hyperlink.address for p_ in sh.text_frame.paragraphs for r in p_.runs if r.hyperlink.address is not None]
            s["shapes"].append(d)
        if slide.has_notes_slide:
            tf = slide.notes_slide.notes_text_frame
            s["notes"] = tf.text if tf is not None else None
        out.append(s)
    return out


def first_diff(a, b):
    if len(a) != len(b):
        return "slide count %d vs %d" % (len(a), len(b))
    for i, (x, y) in enumerate(zip(a, b)):
        if x != y:
            if len(x["shapes"]) != len(y["shapes"]):
                return "slide %d: shape count %d vs %d" % (i + 1, len(x["shapes"]), len(y["shapes"]))
            for sx, sy in zip(x["shapes"], y["shapes"]):
                if sx != sy:
                    ks = [k for k in sx if sx.get(k) != sy.get(k)]
                    return "slide %d shape id %s: %s: %r vs %r" % (i + 1, sx["id"], ks, {k: sx.get(k) for k in ks}, {k: sy.get(k) for k in ks})
            return "slide %d: %r vs %r" % (i + 1, {k: x[k] for k in x if k != "shapes"}, {k: y[k] for k in y if k != "shapes"})
    return "?"


def diff_class(a, b):
    if len(a) != len(b):
        return "slide-count"
    for x, y in zip(a, b):
        if x != y:
            if len(x["shapes"]) != len(y["shapes"]):
                return "shape-count"
            for sx, sy in zip(x["shapes"], y["shapes"]):
                if sx != sy:
                    ks = sorted(k for k in sx if sx.get(k) != sy.get(k))
                    return "+".join(ks)
            return "slide-attributes"
    return "?"


# ============================================================================ unit runners used by property modules
def corpus_starts():
    return [{"kind": "corpus", "deck": os.path.relpath(p, env.REPO)} for p in env.corpus_decks()]


def run_histories(profile, deciders, unit, tier, seed, acc, save_every=None, starts=None):
    monitors.install()
    with env.Scratch("hist") as tmp:
        for i in range(unit["lo"], unit["hi"]):
            r = env.rng("start", profile, seed, i)
            start = pick_start(r, starts, i)
            run = Run(profile, start, (seed, i), unit["nops"], acc, deciders, tmp, save_every=save_every)
            run.observe = unit.get("observe", ())
            run.run()
            nontriv = run.saves >= 2 or len(run.log) >= 4
            acc.case(
                desc={"profile": profile, "start": start, "ops": run.log},
                nontrivial=nontriv and not run.abandoned,
                cls="start:" + start["kind"],
                sample={"start": start, "ops": run.log[:14]},
            )
    for k, v in monitors.SINK.counters.items():
        acc.counters[k] = acc.counters.get(k, 0) + v
    monitors.SINK.counters.clear()


def pick_start(r, starts=None, index=None):
    k = r.random()
    if starts == "default-only":
        return {"kind": "default"}
    if index is not None and index < len(corpus_starts()):
        return corpus_starts()[index]  # the first histories of a run take every corpus deck once, whatever the seed; the rest draw
    if k < 0.4:
        return {"kind": "default"}
    if k < 0.7:
        return {"kind": "manufactured", "k": r.randrange(1000), "n": r.choice([2, 3, 4])}
    decks = corpus_starts()
    return r.choice(decks)


def run_online_unit(prop, unit, tier, seed, acc):
    """Online half of C10/C11/C19: the property's monitor is the only decider inside mixed histories."""
    u = {"lo": unit["shard"] * unit["n"], "hi": (unit["shard"] + 1) * unit["n"], "nops": 14 if tier == "quick" else 30}
    run_histories(unit.get("profile", "mixed"), {prop}, u, tier, seed, acc, save_every=7)


def replay_history(w, acc, deciders):
    monitors.install()
    with env.Scratch("hist") as tmp:
        run = Run(w["profile"], w["start"], tuple(w["seed"]), w["nops"], acc, deciders, tmp, save_every=w.get("save_every"))
        run.observe = ()
        run.run()
        for line in run.log:
            print("  op:", line)
