"""M-REACH: which functions of the files a property is anchored in did the workload actually execute?

sys.monitoring PY_START with DISABLE after the first hit of each code object (negligible cost).
The table goes into the evidence (coverage.anchor_reach); it describes what the monitors could
have observed, it is never a verdict."""
from __future__ import annotations

import fnmatch
import json
import os
import sys

from . import env

TOOL = 3  # sys.monitoring tool id (free slot)
_seen = set()
_patterns = []
_active = False


def anchor_files(pid):
    try:
        for line in open(os.path.join(env.VERIF, "properties.jsonl")):
            d = json.loads(line)
            if d["id"] == pid:
                return [f for f in d["anchors"]["files"] if f.startswith("src/")]
    except Exception:
        pass
    return []


def start(pid):
    global _active, _patterns
    if not hasattr(sys, "monitoring"):
        return False
    _patterns = [os.path.join(os.path.dirname(env.SRC), f) for f in anchor_files(pid)]
    if os.environ.get("VERIF_REACH_ALL"):  # tools/reachmap.py: every function of the library, not just the anchored files
        _patterns = ["*"]
    if not _patterns:
        return False
    mon = sys.monitoring
    try:
        mon.use_tool_id(TOOL, "verif-reach")
    except ValueError:
        return False

    def on_start(code, offset):
        fn = code.co_filename
        if fn.startswith(env.SRC) and any(fnmatch.fnmatch(fn, p) for p in _patterns):
            _seen.add((os.path.relpath(fn, env.SRC), code.co_qualname))
        return mon.DISABLE

    mon.register_callback(TOOL, mon.events.PY_START, on_start)
    mon.set_events(TOOL, mon.events.PY_START)
    _active = True
    return True


def stop(acc):
    if not _active:
        return
    mon = sys.monitoring
    mon.set_events(TOOL, 0)
    mon.free_tool_id(TOOL)
    if os.environ.get("VERIF_REACH_ALL"):
        with open(os.path.join(os.environ["VERIF_REACH_ALL"], "reach-%d.txt" % os.getpid()), "a") as f:
            f.write("".join("%s:%s\n" % k for k in sorted(_seen)))
        return
    acc.extra["anchor_functions_executed"] = sorted("%s:%s" % k for k in _seen if "<" not in k[1])


def summarise(acc):
    """Parent side: turn the merged list into per-file counts."""
    funcs = acc.extra.pop("anchor_functions_executed", None)
    if funcs is None:
        return
    per = {}
    for f in funcs:
        per[f.split(":")[0]] = per.get(f.split(":")[0], 0) + 1
    acc.extra["anchor_reach"] = {"functions_executed_per_anchor_file": dict(sorted(per.items())), "distinct_functions": len(funcs), "sample": funcs[:40]}
