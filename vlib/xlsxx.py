"""Independent reader of an .xlsx blob (zipfile + lxml plain parser; shares no code with XlsxWriter
or python-pptx), an A1 reference parser and the bijective base-26 column model.

    wb = Workbook.from_bytes(blob)
    wb.date1904                         # xl/workbook.xml workbookPr/@date1904
    wb.sheet_names                      # in workbook order
    wb.cells(0)  -> {"B2": Cell(kind, value, formula)}   kind in 's' 'n' 'b' 'e' 'empty'
    parse_ref("Sheet1!$A$2:$B$5") -> Ref(sheet, c1, r1, c2, r2, inverted); .cells() row-major; .rows/.cols
    col_name(28) == "AB";  col_number("AB") == 28          (1-based, bijective base 26)

    serial(date, date1904)              # Excel day number in the 1900 system (phantom 1900-02-29) or the 1904 system
    read_chart(chartSpace root)         # the chart side of the references: plots in document order, series by c:order,
                                        # per series c:tx/c:cat/c:val/c:xVal/c:yVal/c:bubbleSize as {ref, f, count, pts, levels}

Shared strings are the concatenation of si/t and si/r/t (phonetic runs rPh ignored); `_xHHHH_`
escapes of ST_Xstring are decoded, as a spreadsheet application does on load."""
from __future__ import annotations

import datetime
import io
import posixpath
import re
import zipfile
from collections import namedtuple

from lxml import etree

PLAIN = etree.XMLParser(resolve_entities=False, no_network=True, huge_tree=True)
NS_S = "http://schemas.openxmlformats.org/spreadsheetml/2006/main"
NS_R = "http://schemas.openxmlformats.org/officeDocument/2006/relationships"
NS_PR = "http://schemas.openxmlformats.org/package/2006/relationships"
CT_SHEET = "application/vnd.openxmlformats-officedocument.spreadsheetml.sheet"
MAX_COL, MAX_ROW = 16384, 1048576

Cell = namedtuple("Cell", "kind value formula")
EMPTY = Cell("empty", None, None)


def S(local):
    return "{%s}%s" % (NS_S, local)


# ------------------------------------------------------------------ column model
def col_name(n):
    """1 -> 'A', 26 -> 'Z', 27 -> 'AA', 702 -> 'ZZ', 703 -> 'AAA' (bijective base 26: digits 1..26, no zero)."""
    if not isinstance(n, int) or n < 1:
        raise ValueError("column number must be an int >= 1")
    digits = []
    while n > 0:
        n -= 1  # shift to 0..25 for this digit, which also borrows from the next one
        digits.append("ABCDEFGHIJKLMNOPQRSTUVWXYZ"[n % 26])
        n //= 26
    return "".join(reversed(digits))


def col_number(name):
    n = 0
    for ch in name:
        if not "A" <= ch <= "Z":
            raise ValueError("bad column name %r" % name)
        n = n * 26 + (ord(ch) - 64)
    if n < 1:
        raise ValueError("empty column name")
    return n


# ------------------------------------------------------------------ A1 references
_CELL = r"\$?([A-Za-z]{1,3})\$?([0-9]{1,7})"
_REF = re.compile(r"^(?:(?:'((?:[^']|'')+)'|([^'!:\s]+))!)?%s(?::%s)?$" % (_CELL, _CELL))


class Ref(namedtuple("Ref", "sheet c1 r1 c2 r2")):
    """Columns and rows 1-based, as written (not normalised): r2 < r1 or c2 < c1 means `inverted`."""

    @property
    def inverted(self):
        return self.r2 < self.r1 or self.c2 < self.c1

    @property
    def rows(self):
        return max(0, self.r2 - self.r1 + 1)

    @property
    def cols(self):
        return max(0, self.c2 - self.c1 + 1)

    def cells(self):
        """cell names in row-major order; empty for an inverted range"""
        return [col_name(c) + str(r) for r in range(self.r1, self.r2 + 1) for c in range(self.c1, self.c2 + 1)]

    def column(self, k):
        """cell names of the k-th column (0-based) of the range, top to bottom"""
        return [col_name(self.c1 + k) + str(r) for r in range(self.r1, self.r2 + 1)]


def parse_ref(text):
    """'Sheet1!$A$2:$A$5', "'My ''Sheet'''!B1", 'C3' -> Ref; ValueError when it is not an A1 cell/area reference."""
    m = _REF.match(text or "")
    if not m:
        raise ValueError("not an A1 reference: %r" % (text,))
    qs, ps, c1, r1, c2, r2 = m.groups()
    sheet = qs.replace("''", "'") if qs is not None else ps
    c1n, r1n = col_number(c1.upper()), int(r1)
    c2n, r2n = (col_number(c2.upper()), int(r2)) if c2 is not None else (c1n, r1n)
    for c, r in ((c1n, r1n), (c2n, r2n)):
        if not (1 <= c <= MAX_COL and 1 <= r <= MAX_ROW):
            raise ValueError("reference outside the sheet: %r" % (text,))
    return Ref(sheet, c1n, r1n, c2n, r2n)


_CELLNAME = re.compile(r"^([A-Z]{1,3})([0-9]+)$")


def split_cell(name):
    m = _CELLNAME.match(name)
    if not m:
        raise ValueError("bad cell name %r" % (name,))
    return col_number(m.group(1)), int(m.group(2))


# ------------------------------------------------------------------ workbook
_ESC = re.compile(r"_x([0-9A-Fa-f]{4})_")


def unescape(s):
    return _ESC.sub(lambda m: chr(int(m.group(1), 16)), s) if s and "_x" in s else s


def _si_text(si):
    """text of a CT_Rst: direct t plus the t of every rich run r (rPh/phoneticPr are not part of the value)"""
    out = []
    for ch in si:
        if ch.tag == S("t"):
            out.append(ch.text or "")
        elif ch.tag == S("r"):
            for t in ch.findall(S("t")):
                out.append(t.text or "")
    return unescape("".join(out))


def _truth(v):
    return (v or "").strip().lower() in ("1", "true", "on")


class Workbook:
    def __init__(self, members):
        self.members = members
        self.problems = []
        self._cells = {}
        wb = self._xml("xl/workbook.xml")
        if wb is None:
            raise ValueError("no readable xl/workbook.xml in the blob (members: %s)" % sorted(members)[:8])
        pr = wb.find(S("workbookPr"))
        self.date1904 = pr is not None and _truth(pr.get("date1904"))
        rels = {}
        rx = self._xml("xl/_rels/workbook.xml.rels")
        if rx is not None:
            for r in rx.iter("{%s}Relationship" % NS_PR):
                tgt = r.get("Target") or ""
                rels[r.get("Id")] = tgt.lstrip("/") if tgt.startswith("/") else posixpath.normpath("xl/" + tgt)
        self.sheets = []  # [(name, member)]
        for sh in wb.iter(S("sheet")):
            self.sheets.append((sh.get("name"), rels.get(sh.get("{%s}id" % NS_R))))
        self.shared = []
        sst = self._xml("xl/sharedStrings.xml")
        if sst is not None:
            self.shared = [_si_text(si) for si in sst.findall(S("si"))]

    @classmethod
    def from_bytes(cls, blob):
        try:
            zf = zipfile.ZipFile(io.BytesIO(blob))
        except zipfile.BadZipFile as e:
            raise ValueError("not a zip package: %s" % e)
        return cls({i.filename: zf.read(i) for i in zf.infolist() if not i.is_dir()})

    def _xml(self, name):
        blob = self.members.get(name)
        if blob is None:
            return None
        try:
            return etree.fromstring(blob, PLAIN)
        except etree.XMLSyntaxError as e:
            self.problems.append("%s malformed: %s" % (name, e))
            return None

    @property
    def sheet_names(self):
        return [n for n, _ in self.sheets]

    def sheet_index(self, name):
        """index of the sheet called `name` (case-insensitive, as in a spreadsheet application), None if absent"""
        for i, (n, _) in enumerate(self.sheets):
            if n is not None and name is not None and n.lower() == name.lower():
                return i
        return None

    def cells(self, index=0):
        """{cell name: Cell}; cells without a value and without a formula are left out (they are empty)."""
        if index in self._cells:
            return self._cells[index]
        out = {}
        member = self.sheets[index][1] if index < len(self.sheets) else None
        root = self._xml(member) if member else None
        if root is None:
            self.problems.append("sheet %d has no readable part (%s)" % (index, member))
            self._cells[index] = out
            return out
        data = root.find(S("sheetData"))
        next_row = 1
        for row in data if data is not None else ():
            if row.tag != S("row"):
                continue
            rno = int(row.get("r")) if row.get("r") else next_row
            next_row = rno + 1
            next_col = 1
            for c in row:
                if c.tag != S("c"):
                    continue
                if c.get("r"):
                    cno, r2 = split_cell(c.get("r"))
                    if r2 != rno:
                        self.problems.append("cell %s sits in row %d" % (c.get("r"), rno))
                else:
                    cno = next_col
                next_col = cno + 1
                name = col_name(cno) + str(rno)
                if name in out:
                    self.problems.append("cell %s occurs twice" % name)
                cell = self._cell(c)
                if cell is not EMPTY:
                    out[name] = cell
        self._cells[index] = out
        return out

    def _cell(self, c):
        t = c.get("t", "n")
        v = c.find(S("v"))
        f = c.find(S("f"))
        formula = None if f is None else (f.text or "")
        vt = None if v is None else (v.text or "")
        if t == "inlineStr":
            is_ = c.find(S("is"))
            return Cell("s", _si_text(is_) if is_ is not None else "", formula)
        if vt is None:
            return EMPTY if formula is None else Cell("empty", None, formula)
        if t == "s":
            try:
                return Cell("s", self.shared[int(vt)], formula)
            except (ValueError, IndexError):
                self.problems.append("cell %s: shared string index %r out of range" % (c.get("r"), vt))
                return Cell("e", vt, formula)
        if t == "str":
            return Cell("s", unescape(vt), formula)
        if t == "b":
            return Cell("b", _truth(vt), formula)
        if t == "e":
            return Cell("e", vt, formula)
        if t == "d":
            return Cell("s", vt, formula)  # ISO 8601 date text; not written by XlsxWriter, kept as text
        try:
            return Cell("n", float(vt), formula)
        except ValueError:
            self.problems.append("cell %s: %r is not a number" % (c.get("r"), vt))
            return Cell("e", vt, formula)

    def get(self, name, index=0):
        return self.cells(index).get(name, EMPTY)


# ------------------------------------------------------------------ date systems
def serial(d, date1904=False):
    """Excel day number of a date: 1900-01-01 = 1 and the non-existent 1900-02-29 = 60; or days since 1904-01-01"""
    o = datetime.date(d.year, d.month, d.day).toordinal()
    if date1904:
        return float(o - datetime.date(1904, 1, 1).toordinal())
    n = o - datetime.date(1899, 12, 31).toordinal()
    return float(n + 1 if n >= 60 else n)


# ------------------------------------------------------------------ the chart side: references and caches of a chart part
C = "http://schemas.openxmlformats.org/drawingml/2006/chart"
DATA = ("tx", "cat", "val", "xVal", "yVal", "bubbleSize")


def c(local):
    return "{%s}%s" % (C, local)


def local(el):
    return el.tag.split("}")[-1] if isinstance(el.tag, str) else ""


def read_cache(cache):
    out = {"count": None, "pts": {}, "levels": None, "fmt": None, "dup": False}
    if cache is None:
        return out
    pc = cache.find(c("ptCount"))
    out["count"] = int(pc.get("val")) if pc is not None and pc.get("val") is not None else None
    fc = cache.find(c("formatCode"))
    out["fmt"] = None if fc is None else (fc.text or "")

    def pts(parent):
        d = {}
        for pt in parent.findall(c("pt")):
            i, v = int(pt.get("idx")), pt.find(c("v"))
            out["dup"] = out["dup"] or i in d
            d[i] = "" if v is None or v.text is None else v.text
        return d

    lvls = cache.findall(c("lvl"))
    if lvls:
        out["levels"] = [pts(l) for l in lvls]
        out["pts"] = out["levels"][0]
    else:
        out["pts"] = pts(cache)
    return out


def read_source(el):
    """c:tx / c:cat / c:val / c:xVal / c:yVal / c:bubbleSize -> {ref, f, count, pts {idx: text}, levels, fmt} or None"""
    if el is None:
        return None
    for ch in el:
        ln = local(ch)
        if ln in ("strRef", "numRef", "multiLvlStrRef"):
            f = ch.find(c("f"))
            cache = next((x for x in ch if local(x).endswith("Cache")), None)
            return dict(read_cache(cache), ref=ln, f=None if f is None else (f.text or ""))
        if ln in ("strLit", "numLit"):
            return dict(read_cache(ch), ref=ln, f=None)
        if ln in ("v", "rich"):
            return {"ref": ln, "f": None, "count": 1, "pts": {0: "".join(ch.itertext())}, "levels": None, "fmt": None, "dup": False}
    return {"ref": None, "f": None, "count": None, "pts": {}, "levels": None, "fmt": None, "dup": False}


def plot_elements(root):
    pa = root.find("%s/%s" % (c("chart"), c("plotArea")))
    return [] if pa is None else [e for e in pa if local(e).endswith("Chart")]


def ordered_sers(plot):
    def order(s):
        o = s.find(c("order"))
        return int(o.get("val")) if o is not None and (o.get("val") or "").lstrip("-").isdigit() else 1 << 40

    return sorted(plot.findall(c("ser")), key=order)


def read_chart(root):
    d = root.find(c("date1904"))
    ext = root.find(c("externalData"))
    out = {"date1904": d is not None and d.get("val", "1").lower() in ("1", "true"), "plots": [], "ext_rid": None if ext is None else ext.get("{%s}id" % NS_R)}
    for pl in plot_elements(root):
        sers = []
        for s in ordered_sers(pl):
            one = {k: read_source(s.find(c(k))) for k in DATA}
            for k in ("idx", "order"):
                e = s.find(c(k))
                one[k] = None if e is None else e.get("val")
            sers.append(one)
        out["plots"].append({"tag": local(pl), "sers": sers})
    return out
