"""Known-findings registry.  Keys are *mechanisms* computed by each property's own
classifier from the witness (never a case hash); this file only matches keys.
known_findings.json is committed and never written at run time."""
from __future__ import annotations

import fnmatch
import json
import os
import re

from . import env

PATH = os.path.join(env.VERIF, "known_findings.json")


def load():
    if not os.path.exists(PATH):
        return []
    with open(PATH) as fh:
        return json.load(fh).get("findings", [])


def safe(key):
    return re.sub(r"[^A-Za-z0-9_.-]+", "_", key)[:120]


def classify(pid, violations, known):
    """-> (new violations deduplicated by key, [(key, what, n)] for open known findings)."""
    opens = [k for k in known if k.get("property") == pid and k.get("status") == "open"]
    new, seen = {}, {}
    for v in violations:
        hit = None
        for k in opens:
            if v["key"] == k["key"] or fnmatch.fnmatchcase(v["key"], k["key"]):
                hit = k
                break
        if hit is not None:
            e = seen.setdefault(hit["key"], [hit["key"], hit.get("what", ""), 0])
            e[2] += 1
        elif v["key"] not in new:
            new[v["key"]] = v
    return list(new.values()), [tuple(e) for e in seen.values()]
