"""Run environment: which source tree is under test, seed, tier, scratch space.

The tree under test is /repo/src (python-pptx is installed editable there, so a fresh
interpreter *is* a rebuild from the working tree).  VERIF_PPTX_SRC overrides it for
mutant self-tests only (tools/mutcheck), never for registered commands.
"""
from __future__ import annotations

import hashlib
import json
import os
import random
import shutil
import subprocess
import sys
import tempfile

VERIF = os.path.dirname(os.path.dirname(os.path.abspath(__file__)))
REPO = os.environ.get("VERIF_REPO", "/repo")
SRC = os.path.realpath(os.environ.get("VERIF_PPTX_SRC", os.path.join(REPO, "src")))
SPEC = os.path.join(REPO, "spec")
XSD4 = os.path.join(SPEC, "ISO-IEC-29500-4", "xsd")
XSD2 = os.path.join(SPEC, "ISO-IEC-29500-2", "opc-xsd")
EVIDENCE_DIR = os.path.realpath(os.environ.get("VERIF_EVIDENCE_DIR") or os.path.join(VERIF, "evidence"))
PY = sys.executable

CORPUS_DIRS = [
    os.path.join(REPO, "features", "steps", "test_files"),
    os.path.join(REPO, "tests", "test_files"),
]


def seed() -> int:
    try:
        return int(os.environ.get("VERIF_SEED", "0"))
    except ValueError:
        return 0


def bootstrap_pptx():
    """Make `import pptx` resolve to the tree under test and prove it did."""
    if SRC not in sys.path[:1]:
        sys.path.insert(0, SRC)
    import pptx  # noqa

    f = os.path.realpath(pptx.__file__)
    if not f.startswith(SRC + os.sep):
        raise SystemExit("INCONCLUSIVE: pptx imported from %s, expected under %s" % (f, SRC))
    return pptx


def tree_identity() -> dict:
    def git(*a):
        try:
            return subprocess.run(
                ["git", "-C", REPO, *a], capture_output=True, text=True, timeout=20
            ).stdout.strip()
        except Exception:
            return ""

    dirty = git("status", "--porcelain", "--", "src")
    h = hashlib.sha1()
    for root, dirs, files in sorted(os.walk(os.path.join(SRC, "pptx"))):
        dirs.sort()
        for fn in sorted(files):
            if fn.endswith((".py", ".xml")):
                p = os.path.join(root, fn)
                h.update(p[len(SRC):].encode())
                with open(p, "rb") as fh:
                    h.update(fh.read())
    return {
        "src": SRC,
        "head": git("rev-parse", "HEAD"),
        "src_dirty": bool(dirty),
        "src_sha1": h.hexdigest(),
    }


def rng(*parts) -> random.Random:
    """Deterministic RNG from VERIF_SEED plus any identifying parts."""
    key = json.dumps([seed(), *parts], sort_keys=True, default=str)
    return random.Random(int(hashlib.sha1(key.encode()).hexdigest()[:16], 16))


def khash(obj) -> str:
    return hashlib.sha1(
        json.dumps(obj, sort_keys=True, default=str, ensure_ascii=True).encode()
    ).hexdigest()[:14]


class Scratch:
    """Temp directory removed on exit; nothing a registered command needs lives in it."""

    def __init__(self, tag="verif"):
        self.tag = tag
        self.path = None

    def __enter__(self):
        self.path = tempfile.mkdtemp(prefix="pptx-%s-" % self.tag)
        return self.path

    def __exit__(self, *exc):
        shutil.rmtree(self.path, ignore_errors=True)
        return False


def corpus_decks() -> list[str]:
    out = []
    for d in CORPUS_DIRS:
        for root, dirs, files in os.walk(d):
            dirs.sort()
            for fn in sorted(files):
                if fn.lower().endswith((".pptx", ".pptm")):
                    out.append(os.path.join(root, fn))
    return sorted(out)


def corpus_dir_packages() -> list[str]:
    out = []
    for d in CORPUS_DIRS:
        for root, dirs, files in os.walk(d):
            if "[Content_Types].xml" in files:
                out.append(root)
    return sorted(out)
