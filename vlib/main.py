"""Driver: ./check <Cnn> [--tier quick|thorough] [--replay file] [--workers N]

Exit 0 = held on everything explored (KNOWN-FINDING lines allowed);
exit 1 = violation (VIOLATION property=<id> replay=<path> per distinct mechanism);
exit 2 = inconclusive (deciding monitor never reached, watchdog fired, oracle unavailable).
"""
from __future__ import annotations

import argparse
import importlib
import json
import os
import subprocess
import sys
import tempfile
import time

from . import env, findings
from .acc import Acc
from .evidence import write_evidence


def _split(units, n):
    buckets = [[] for _ in range(n)]
    for i, u in enumerate(units):
        buckets[i % n].append(u)
    return [b for b in buckets if b]


def run_property(pid, tier, workers=None, replay=None):
    t0 = time.time()
    mod = importlib.import_module("props.%s" % pid.lower())
    sd = env.seed()
    if replay:
        env.bootstrap_pptx()
        with open(replay) as fh:
            rec = json.load(fh)
        acc = Acc()
        mod.replay(rec["witness"], acc)
        for v in acc.violations:
            print("REPLAY-VIOLATION property=%s key=%s %s" % (pid, v["key"], v["what"]))
        print("replay: %d violation(s) observed" % len(acc.violations))
        return 1 if acc.violations else 0

    units = mod.plan(tier, sd)
    nw = workers or int(os.environ.get("VERIF_WORKERS", "0")) or min(16, os.cpu_count() or 4)
    nw = max(1, min(nw, len(units)))
    wall_cap = getattr(mod, "WATCHDOG_S", {}).get(tier, 900 if tier == "quick" else 3600)
    acc = Acc()
    with env.Scratch("drv-" + pid) as tmp:
        procs = []
        for i, bucket in enumerate(_split(units, nw)):
            uf = os.path.join(tmp, "units%d.json" % i)
            of = os.path.join(tmp, "out%d.json" % i)
            with open(uf, "w") as fh:
                json.dump({"units": bucket, "tier": tier, "seed": sd}, fh)
            errf = open(os.path.join(tmp, "err%d.txt" % i), "w")
            p = subprocess.Popen(
                [env.PY, "-m", "vlib.worker", "props.%s" % pid.lower(), uf, of],
                stdout=errf,
                stderr=subprocess.STDOUT,
                cwd=env.VERIF,
            )
            procs.append((p, of, errf, i))
        deadline = t0 + wall_cap
        for p, of, errf, i in procs:
            try:
                p.wait(timeout=max(1, deadline - time.time()))
            except subprocess.TimeoutExpired:
                p.kill()
                p.wait()
                acc.inconclusive.append("watchdog: worker %d exceeded %ds" % (i, wall_cap))
            errf.close()
            if os.path.exists(of):
                with open(of) as fh:
                    acc.merge_json(json.load(fh))
            else:
                with open(errf.name) as fh:
                    tail = fh.read()[-1500:]
                acc.inconclusive.append("worker %d died without result: %s" % (i, tail))
    from . import reach

    reach.summarise(acc)
    if hasattr(mod, "finalize"):
        mod.finalize(acc, tier, sd)
    if acc.evaluations == 0:
        acc.inconclusive.append("no case was evaluated")

    known = findings.load()
    new, seen_known = findings.classify(pid, acc.violations, known)
    wall = time.time() - t0
    replays = []
    rdir = os.path.join(env.EVIDENCE_DIR, "replays", pid)
    for v in new:
        os.makedirs(rdir, exist_ok=True)
        path = os.path.join(rdir, "%s.json" % findings.safe(v["key"]))
        with open(path, "w") as fh:
            json.dump({"property": pid, **v}, fh, indent=1, default=str)
        replays.append((v, path))
    write_evidence(mod, pid, tier, sd, acc, wall, new, seen_known)

    for k, what, n in seen_known:
        print("KNOWN-FINDING: property=%s %s [%s; %d witness(es) this run]" % (pid, what, k, n))
    print(
        "%s tier=%s seed=%d evaluations=%d distinct_nontrivial=%d violations=%d known=%d wall=%.1fs"
        % (pid, tier, sd, acc.evaluations, acc.distinct_nontrivial, len(new), len(seen_known), wall)
    )
    if new:
        for v, path in replays:
            print("  what: [%s] %s" % (v["key"], v["what"][:600]))
            print("VIOLATION property=%s replay=%s" % (pid, path))
        return 1
    if acc.inconclusive:
        for r in acc.inconclusive[:4]:
            print("INCONCLUSIVE property=%s reason=%s" % (pid, r[-700:].replace("\n", " | ")))
        return 2
    return 0


def main(argv=None):
    ap = argparse.ArgumentParser()
    ap.add_argument("prop")
    ap.add_argument("--tier", default=os.environ.get("VERIF_TIER", "quick"), choices=["quick", "thorough"])
    ap.add_argument("--replay")
    ap.add_argument("--workers", type=int)
    a = ap.parse_args(argv)
    sys.exit(run_property(a.prop.upper(), a.tier, a.workers, a.replay))


if __name__ == "__main__":
    main()
