"""Evidence writer: /verif/evidence/<id>.json, checked against the schema's structural rules
(own small checker; jsonschema is only used by tools/validate.py from the tooling venv)."""
from __future__ import annotations

import json
import os

from . import env

LEVELS = {"exploration", "fault_enumeration", "model_checking", "proof", "translation_validation", "other"}


def structural_check(ev):
    errs = []
    for k in ("property_id", "tier", "seed", "level", "coverage", "wall_s"):
        if k not in ev:
            errs.append("missing " + k)
    if ev.get("tier") not in ("quick", "thorough"):
        errs.append("tier")
    if not isinstance(ev.get("seed"), int):
        errs.append("seed")
    if ev.get("level") not in LEVELS:
        errs.append("level")
    cov = ev.get("coverage", {})
    if ev.get("level") in ("exploration", "fault_enumeration"):
        if not (isinstance(cov.get("evaluations"), int) and cov["evaluations"] >= 1):
            errs.append("coverage.evaluations")
        if not (isinstance(cov.get("distinct_nontrivial"), int) and cov["distinct_nontrivial"] >= 2):
            errs.append("coverage.distinct_nontrivial")
        if not isinstance(cov.get("rule"), str):
            errs.append("coverage.rule")
        if not (isinstance(cov.get("samples"), list) and cov["samples"]):
            errs.append("coverage.samples")
    return errs


def write_evidence(mod, pid, tier, seed, acc, wall, new, seen_known):
    os.makedirs(env.EVIDENCE_DIR, exist_ok=True)
    cov = {
        "evaluations": acc.evaluations,
        "distinct_nontrivial": acc.distinct_nontrivial,
        "rule": getattr(mod, "RULE", ""),
        "samples": acc.samples or ["(no case recorded)"],
        "exhaustive": bool(getattr(mod, "EXHAUSTIVE", {}).get(tier, False)) if isinstance(getattr(mod, "EXHAUSTIVE", None), dict) else bool(getattr(mod, "EXHAUSTIVE", False)),
        "cases_per_class": dict(sorted(acc.classes.items())),
        "monitor_counters": dict(sorted(acc.counters.items())),
        "reach": dict(sorted(acc.reach.items())),
        "known_findings_seen": [{"key": k, "what": w, "witnesses": n} for k, w, n in seen_known],
        "new_violations": [{"key": v["key"], "what": v["what"][:400]} for v in new],
        "inconclusive_reasons": acc.inconclusive[:20],
        "notes": acc.notes,
        "tree": env.tree_identity(),
        "verdict": "violated" if new else ("inconclusive" if acc.inconclusive else "held on what was observed"),
    }
    cov.update(acc.extra)
    ev = {
        "property_id": pid,
        "tier": tier,
        "seed": seed,
        "level": getattr(mod, "LEVEL", "exploration"),
        "coverage": cov,
        "assumptions": list(getattr(mod, "ASSUMPTIONS", [])),
        "wall_s": round(wall, 2),
        "violations": len(new),
    }
    errs = structural_check(ev)
    if errs:
        acc.inconclusive.append("evidence would not validate: %s" % errs)
        ev["coverage"]["inconclusive_reasons"] = acc.inconclusive[:20]
        ev["coverage"]["verdict"] = "violated" if new else "inconclusive"
    path = os.path.join(env.EVIDENCE_DIR, "%s.json" % pid)
    with open(path, "w") as fh:
        json.dump(ev, fh, indent=1, default=str, sort_keys=False)
        fh.write("\n")
    return path
