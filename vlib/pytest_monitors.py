"""pytest plugin: run the repository's own test suite with the harness monitors installed
(`-p vlib.pytest_monitors`, PYTHONPATH=<src>:/verif, PPTX_VERIF_MONITORS=1).  A monitor that fires
inside a test is reported with the test's node id; the monitors never raise into the test.
Output: JSON at $VERIF_SUITE_OUT {tests, violations: [[nodeid, prop, key, what]], counters}."""
import json
import os

_state = {"tests": 0, "violations": [], "pptx": None}


def pytest_configure(config):
    from vlib import env, monitors

    _state["pptx"] = os.path.realpath(env.bootstrap_pptx().__file__)
    monitors.install()


def pytest_runtest_teardown(item, nextitem):
    from vlib import monitors

    _state["tests"] += 1
    for prop, key, what in monitors.SINK.drain():
        if len(_state["violations"]) < 2000:
            _state["violations"].append([item.nodeid, prop, key, what[:600]])


def pytest_sessionfinish(session, exitstatus):
    from vlib import monitors

    out = os.environ.get("VERIF_SUITE_OUT")
    if out:
        json.dump({"tests": _state["tests"], "violations": _state["violations"], "counters": dict(monitors.SINK.counters), "pptx": _state["pptx"], "exitstatus": int(exitstatus)},
                  open(out, "w"))
