"""The repository's own tests as one more workload for the online monitors (guidance: "run the
repository's own tests with the contracts on").  The tests decide nothing here; M-INS / M-ATTR / M-ID /
M-URI observe what the tests make python-pptx do and report per test node id."""
from __future__ import annotations

import json
import os
import subprocess
import sys

from . import env

HERE = os.path.dirname(os.path.dirname(os.path.abspath(__file__)))


def run_suite(select=None, timeout=1500):
    """-> dict from vlib/pytest_monitors.py, or {'error': ...}."""
    with env.Scratch("suite") as tmp:
        out = os.path.join(tmp, "suite.json")
        e = dict(os.environ, PYTHONPATH=os.pathsep.join([env.SRC, HERE]), PPTX_VERIF_MONITORS="1", VERIF_SUITE_OUT=out, PYTHONDONTWRITEBYTECODE="1")
        cmd = [sys.executable, "-m", "pytest", "-q", "-p", "no:cacheprovider", "-p", "vlib.pytest_monitors", "-W", "ignore::DeprecationWarning",
               "--timeout=900", "--continue-on-collection-errors", "-x" if False else "-q"]
        cmd += list(select or ["tests"])
        try:
            p = subprocess.run(cmd, cwd=env.REPO, env=e, capture_output=True, text=True, timeout=timeout)
        except subprocess.TimeoutExpired:
            return {"error": "pytest timed out after %d s" % timeout}
        if not os.path.exists(out):
            return {"error": "no result file; pytest said: %s" % (p.stdout[-400:] + p.stderr[-400:])}
        res = json.load(open(out))
        res["tail"] = (p.stdout.strip().splitlines() or [""])[-1]
        return res


def run_suite_unit(prop, acc, select=None):
    res = run_suite(select)
    if "error" in res:
        acc.inconclusive.append("repository suite under monitors: " + res["error"])
        return
    if not res["pptx"].startswith(env.SRC + os.sep):
        acc.inconclusive.append("repository suite imported pptx from %s, expected under %s" % (res["pptx"], env.SRC))
        return
    acc.count("suite_tests_run_under_monitors", res["tests"])
    for k, v in res["counters"].items():
        acc.counters["suite:" + k] = acc.counters.get("suite:" + k, 0) + v
    acc.note("repository suite under monitors: %s" % res["tail"])
    if res["tests"] < 500:
        acc.inconclusive.append("repository suite under monitors ran only %d tests" % res["tests"])
    seen = set()
    for nodeid, p, key, what in res["violations"]:
        if p != prop:
            acc.count("side-observation:%s:%s" % (p, key))
            continue
        acc.violation(key, "%s | in repository test %s" % (what, nodeid), {"suite_test": nodeid})
        seen.add(key)
    acc.case(desc={"suite": "repository tests under monitors"}, nontrivial=True, cls="repository-suite")


def replay_suite(w, acc, prop):
    res = run_suite([w["suite_test"]])
    print(json.dumps({k: v for k, v in res.items() if k != "counters"}, indent=1)[:3000])
    for nodeid, p, key, what in res.get("violations", []):
        if p == prop:
            acc.violation(key, "%s | in repository test %s" % (what, nodeid), {"suite_test": nodeid})
