"""Independent OPC package reader and closure rules (shares no code with python-pptx).

zipfile / directory -> members; content-type resolution (Override then Default, case-insensitive,
as OPC 10.1.2.4 says); relationship items; reachability from the package root; r:* reference scan;
canonical XML for equivalence; the five closure rules of C02."""
from __future__ import annotations

import io
import os
import posixpath
import zipfile
from collections import Counter

from lxml import etree

PLAIN = etree.XMLParser(resolve_entities=False, no_network=True, huge_tree=True)
NS_CT = "http://schemas.openxmlformats.org/package/2006/content-types"
NS_PR = "http://schemas.openxmlformats.org/package/2006/relationships"
NS_R = "http://schemas.openxmlformats.org/officeDocument/2006/relationships"
RT_OFFICE_DOCUMENT = "http://schemas.openxmlformats.org/officeDocument/2006/relationships/officeDocument"
CT_RELS = "application/vnd.openxmlformats-package.relationships+xml"
PRES_MAIN_TYPES = {
    "application/vnd.openxmlformats-officedocument.presentationml.presentation.main+xml",
    "application/vnd.openxmlformats-officedocument.presentationml.template.main+xml",
    "application/vnd.openxmlformats-officedocument.presentationml.slideshow.main+xml",
    "application/vnd.ms-powerpoint.presentation.macroEnabled.main+xml",
    "application/vnd.ms-powerpoint.template.macroEnabled.main+xml",
    "application/vnd.ms-powerpoint.slideshow.macroEnabled.main+xml",
}


class Rel:
    __slots__ = ("id", "type", "external", "raw", "target")

    def __init__(self, id, type, external, raw, target):
        self.id, self.type, self.external, self.raw, self.target = id, type, external, raw, target

    def key(self):
        return (self.id, self.type, "External" if self.external else "Internal", self.raw if self.external else self.target)

    def __repr__(self):
        return "Rel%r" % (self.key(),)


def resolve(source_partname, target):
    """RFC 3986 path resolution of a relationship target against its source part."""
    if target.startswith("/"):
        path = target
    else:
        base = "/" if source_partname == "/" else posixpath.dirname(source_partname)
        path = (base if base.endswith("/") else base + "/") + target
    out = []
    for seg in path.split("/")[1:]:
        if seg == ".":
            continue
        if seg == "..":
            if out:
                out.pop()
            continue
        out.append(seg)
    return "/" + "/".join(out)


def rels_item_name(partname):
    if partname == "/":
        return "_rels/.rels"
    d, f = posixpath.split(partname)
    return (d.rstrip("/") + "/_rels/" + f + ".rels").lstrip("/")


class Pkg:
    def __init__(self, members, order=None, duplicates=()):
        self.members = members  # name (no leading slash) -> bytes
        self.order = order or list(members)
        self.duplicates = list(duplicates)
        self._ct = None
        self._rels = {}

    # ---- construction
    @classmethod
    def from_bytes(cls, data):
        zf = zipfile.ZipFile(io.BytesIO(data))
        names = [i.filename for i in zf.infolist() if not i.is_dir()]
        dup = [n for n, c in Counter(names).items() if c > 1]
        members = {}
        for i in zf.infolist():
            if not i.is_dir():
                members[i.filename] = zf.read(i)
        return cls(members, names, dup)

    @classmethod
    def from_path(cls, path):
        if os.path.isdir(path):
            members = {}
            for root, dirs, files in os.walk(path):
                dirs.sort()
                for fn in sorted(files):
                    p = os.path.join(root, fn)
                    members[os.path.relpath(p, path).replace(os.sep, "/")] = open(p, "rb").read()
            return cls(members)
        with open(path, "rb") as fh:
            return cls.from_bytes(fh.read())

    # ---- content types
    def _load_ct(self):
        if self._ct is None:
            ov, df, problems = {}, {}, []
            blob = self.members.get("[Content_Types].xml")
            if blob is None:
                problems.append("no [Content_Types].xml")
            else:
                try:
                    root = etree.fromstring(blob, PLAIN)
                    for el in root:
                        if el.tag == "{%s}Override" % NS_CT:
                            k = (el.get("PartName") or "").lower()
                            if k in ov:
                                problems.append("two Overrides for %s" % k)
                            ov[k] = el.get("ContentType")
                        elif el.tag == "{%s}Default" % NS_CT:
                            k = (el.get("Extension") or "").lower()
                            if k in df:
                                # OPC 10.1.2.2.2: at most one Default per extension, compared case-insensitively
                                problems.append("two Defaults for %s" % k)
                            df[k] = el.get("ContentType")
                except etree.XMLSyntaxError as e:
                    problems.append("[Content_Types].xml malformed: %s" % e)
            self._ct = (ov, df, problems)
        return self._ct

    def ctype(self, partname):
        ov, df, _ = self._load_ct()
        k = partname.lower()
        if k in ov:
            return ov[k]
        fn = partname.rsplit("/", 1)[1]
        ext = fn.rsplit(".", 1)[1].lower() if "." in fn else ""
        return df.get(ext)

    def ct_problems(self):
        return self._load_ct()[2]

    # ---- relationships
    def rels(self, source):
        if source not in self._rels:
            out = []
            blob = self.members.get(rels_item_name(source))
            if blob is not None:
                try:
                    root = etree.fromstring(blob, PLAIN)
                    for el in root.iter("{%s}Relationship" % NS_PR):
                        ext = el.get("TargetMode") == "External"
                        raw = el.get("Target") or ""
                        out.append(Rel(el.get("Id"), el.get("Type"), ext, raw, None if ext else resolve(source, raw)))
                except etree.XMLSyntaxError:
                    out = None
            self._rels[source] = out
        return self._rels[source]

    def has_part(self, partname):
        return partname.lstrip("/") in self.members

    def find_member_ci(self, partname):
        low = partname.lstrip("/").lower()
        for n in self.members:
            if n.lower() == low:
                return n
        return None

    def reachable(self):
        """Part names reachable by internal relationships from the package root (present ones), in DFS order."""
        seen, order = set(), []

        def walk(src):
            for r in self.rels(src) or []:
                if r.external or r.target in seen:
                    continue
                if not self.has_part(r.target):
                    continue
                seen.add(r.target)
                order.append(r.target)
                walk(r.target)

        walk("/")
        return order

    def part_names(self):
        """All members that are neither [Content_Types].xml nor a relationships item."""
        out = []
        for n in self.members:
            if n == "[Content_Types].xml":
                continue
            d, f = posixpath.split(n)
            if f.endswith(".rels") and posixpath.basename(d) == "_rels":
                continue
            out.append("/" + n)
        return out

    def blob(self, partname):
        return self.members[partname.lstrip("/")]

    # ---- XML helpers
    def xml_root(self, partname):
        try:
            return etree.fromstring(self.blob(partname), PLAIN)
        except etree.XMLSyntaxError:
            return None

    def r_refs(self, partname):
        """[(attribute local name, value)] of every attribute in the officeDocument relationships
        namespace inside the part's XML (r:id, r:embed, r:link, r:pict, r:href, r:dm ...)."""
        root = self.xml_root(partname)
        if root is None:
            return []
        out = []
        for el in root.iter():
            if not isinstance(el.tag, str):
                continue
            for k, v in el.attrib.items():
                if k.startswith("{%s}" % NS_R):
                    out.append((k.split("}")[1], v))
        return out


# ------------------------------------------------------------------------------ XML equivalence
def canonical(blob_or_root):
    """C14N after removing whitespace-only text nodes that have element siblings
    (never the only text of a leaf).  None if not well-formed."""
    if isinstance(blob_or_root, (bytes, str)):
        try:
            root = etree.fromstring(blob_or_root, PLAIN)
        except etree.XMLSyntaxError:
            return None
    else:
        import copy

        root = copy.deepcopy(blob_or_root)
    for el in root.iter():
        if not isinstance(el.tag, str):
            continue
        if len(el):
            if el.text is not None and not el.text.strip():
                el.text = None
            for ch in el:
                if ch.tail is not None and not ch.tail.strip():
                    ch.tail = None
    return etree.tostring(root, method="c14n")


def same_payload(a, b, strict=False):
    """Byte-identical, or XML-equivalent.  strict: plain C14N, whitespace-only text nodes kept - for XML whose vocabulary is not
    one of the Office schemas (application/xml, custom XML): nobody can say its blanks are insignificant (mixed content)."""
    if a == b:
        return True
    if strict:
        try:
            return etree.tostring(etree.fromstring(a, PLAIN), method="c14n") == etree.tostring(etree.fromstring(b, PLAIN), method="c14n")
        except etree.XMLSyntaxError:
            return False
    ca = canonical(a)
    if ca is None:
        return False
    cb = canonical(b)
    return cb is not None and ca == cb


# ------------------------------------------------------------------------------ closure rules
def closure_problems(pkg, expect_types=None):
    """The C02 closure rules on one package.  -> list of (rule, detail) tuples.
    expect_types: optional {partname: content type the part was created/loaded with}."""
    out = []
    for n in pkg.duplicates:
        out.append(("duplicate-member", n))
    for p in pkg.ct_problems():
        out.append(("content-types", p))
    names = pkg.part_names()
    low = Counter(n.lower() for n in names)
    for n, c in low.items():
        if c > 1:
            out.append(("duplicate-member-case", n))
    for pn in names:
        ct = pkg.ctype(pn)
        if ct is None:
            out.append(("no-content-type", pn))
        elif expect_types is not None and pn in expect_types and expect_types[pn] != ct:
            out.append(("content-type-changed", "%s: %s -> %s" % (pn, expect_types[pn], ct)))
    for src in ["/"] + names:
        rels = pkg.rels(src)
        if rels is None:
            out.append(("rels-malformed", src))
            continue
        ids = Counter(r.id for r in rels)
        for i, c in ids.items():
            if c > 1:
                out.append(("duplicate-rId", "%s %s" % (src, i)))
        for r in rels:
            if not r.external and not pkg.has_part(r.target):
                out.append(("dangling-relationship", "%s %s -> %s" % (src, r.id, r.target)))
        if src != "/":
            known = set(ids)
            for attr, val in pkg.r_refs(src):
                if val and val not in known:
                    out.append(("dangling-r-reference", "%s r:%s=%s" % (src, attr, val)))
    root_rels = pkg.rels("/") or []
    od = [r for r in root_rels if r.type == RT_OFFICE_DOCUMENT and not r.external]
    if len(od) != 1:
        out.append(("office-document-relationship", "%d officeDocument relationships" % len(od)))
    elif not pkg.has_part(od[0].target) or pkg.ctype(od[0].target) not in PRES_MAIN_TYPES:
        out.append(("office-document-relationship", "%s is %s" % (od[0].target, pkg.ctype(od[0].target) if pkg.has_part(od[0].target) else "absent")))
    # unreachable parts are "extra" members: every part written must be reachable
    reach = set(pkg.reachable())
    for pn in names:
        if pn not in reach:
            out.append(("unreachable-part-written", pn))
    return out


def rel_sets(pkg, sources):
    return {src: sorted(r.key() for r in (pkg.rels(src) or [])) for src in sources}
