"""Generation of schema-valid child sequences from XsdModel content models (workload only —
every generated context is self-checked by libxml2 before use; rejected ones are discarded)."""
from __future__ import annotations

FOREIGN = "{urn:verif:any}x"


def tags_of(p):
    return [e.name for e in p.elements()]


def _contains(p, tags):
    if p.kind == "elem":
        return p.name in tags
    return any(_contains(c, tags) for c in p.children)


def gen(p, want, target=None, prefer=()):
    """One child-tag sequence for particle `p` that includes every tag of the ordered list `want`
    where the content model lets them coexist, required particles at their minimum otherwise.
    Choices (maxOccurs=1) take the alternative holding `target`, else one holding a `prefer` tag,
    else the first wanted, else (when required) the first.  Repeatable choices emit one
    alternative per entry of `want`, in the order of `want` (so orderings are under caller control)."""
    wantset = set(want)
    if p.kind == "elem":
        if p.name in wantset:
            return [p.name] * max(p.min, 1)
        return [p.name] * p.min
    if p.kind == "any":
        return [FOREIGN] * p.min
    wanted = _contains(p, wantset)
    if not wanted and p.min == 0:
        return []
    if p.kind == "seq":
        out = []
        for c in p.children:
            out.extend(gen(c, want, target, prefer))
        return out
    # choice
    alts = p.children
    if not alts:
        return []
    alts_w = [c for c in alts if _contains(c, wantset)]
    if not alts_w:
        # required but nothing wanted: smallest alternative
        best = min((gen(c, want, target, prefer) for c in alts), key=len)
        return best
    if p.max == 1:
        pick = None
        if target is not None:
            pick = next((c for c in alts_w if _contains(c, {target})), None)
        if pick is None and prefer:
            pick = next((c for c in alts_w if _contains(c, set(prefer))), None)
        if pick is None:
            pick = alts_w[0]
        return gen(pick, want, target, prefer)
    out = []
    for w in want:
        c = next((c for c in alts if _contains(c, {w})), None)
        if c is not None:
            out.extend(gen(c, [w], target, prefer))
    return out


def repeatable_members(p, inside=False):
    """Tags that sit inside a repeatable choice/sequence (mixed content such as a:p's (r|br|fld)*)."""
    out = []
    rep = inside or (p.kind in ("choice", "seq") and p.max > 1 and len(p.children) > 1)
    if p.kind == "elem":
        return [p.name] if inside else []
    for c in p.children:
        for t in repeatable_members(c, rep):
            if t not in out:
                out.append(t)
    return out


def contexts_for(p, X, pairwise=False):
    """Child-tag sequences containing X for content model `p`, per the C10 quantifier:
    X with every single other child; with all later children; with all earlier children; with all
    permitted children (one per alternative of other choices); orderings of two kinds around X in
    repeatable mixed content; optionally X with every pair of other children."""
    all_tags = []
    for t in tags_of(p):
        if t not in all_tags:
            all_tags.append(t)
    others = [t for t in all_tags if t != X]
    seen = set()
    out = []

    def emit(kind, seq):
        if X not in seq:
            return
        k = tuple(seq)
        if k in seen:
            return
        seen.add(k)
        out.append((kind, seq))

    full = gen(p, [X] + others, X)
    emit("all-permitted", full)
    if X in full:
        i = full.index(X)
        j = len(full) - 1 - full[::-1].index(X)
        later = [t for t in full[j + 1:]]
        earlier = [t for t in full[:i]]
        emit("all-later", gen(p, [X] + later, X))
        emit("all-earlier", gen(p, earlier + [X], X))
    emit("alone", gen(p, [X], X))
    for y in others:
        if y not in full:
            emit("all-permitted-alt", gen(p, [X] + others, X, prefer=(y,)))
        emit("one-other", gen(p, [X, y], X))
        emit("one-other-rev", gen(p, [y, X], X))
        emit("sandwich", gen(p, [y, X, y], X))
        emit("two-x", gen(p, [X, y, X], X))
    rep = repeatable_members(p)
    for y in rep:
        for z in rep:
            if y != z:
                emit("mixed-order", gen(p, [X, y, z], X))
                emit("mixed-order", gen(p, [y, z, X], X))
                emit("mixed-order", gen(p, [y, X, z], X))
    if pairwise:
        for a in others:
            for b in others:
                if a < b:
                    emit("two-others", gen(p, [a, X, b], X))
                    emit("two-others", gen(p, [b, X, a], X))
                    emit("two-others", gen(p, [a, b, X], X))
                    emit("two-others", gen(p, [X, b, a], X))
    return out


def contexts_without(p, X, members):
    """Sequences that hold another member of X's choice group instead of X (for get_or_change_to)."""
    out = []
    seen = set()
    all_tags = []
    for t in tags_of(p):
        if t not in all_tags:
            all_tags.append(t)
    for y in members:
        if y == X:
            continue
        for want in ([y], [t for t in all_tags if t != X and (t == y or t not in members)]):
            seq = gen(p, want, y)
            if y in seq and X not in seq and tuple(seq) not in seen:
                seen.add(tuple(seq))
                out.append((y, seq))
    return out
