"""Run-time introspection of the *real* element classes (no transcription of declarations)."""
from __future__ import annotations

import inspect


def registrations():
    """-> {clark tag: element class} for every tag registered with the oxml parser."""
    import pptx.opc.oxml  # noqa  (registers ct:/pr: classes)
    import pptx.oxml as ox
    from pptx.oxml.ns import _nsmap

    regs = {}
    for pfx, uri in _nsmap.items():
        nsreg = ox.element_class_lookup.get_namespace(uri)
        for name, cls in nsreg.items():
            if name is None:
                continue
            local = name.decode() if isinstance(name, bytes) else name
            regs["{%s}%s" % (uri, local)] = cls
    return regs


def _closure_decl(fn):
    """The xmlchemy declaration object captured by a generated closure, or None."""
    if fn is None or not getattr(fn, "__closure__", None):
        return None
    for cell in fn.__closure__:
        try:
            v = cell.cell_contents
        except ValueError:
            continue
        if type(v).__module__.endswith("xmlchemy") and hasattr(v, "populate_class_members"):
            return v
    return None


def child_decls(cls):
    """Child-element declarations of an element class, recovered from the generated
    `_insert_<x>` closures.  -> list of dicts."""
    from pptx.oxml.ns import qn

    out = []
    seen = set()
    for name in dir(cls):
        if not name.startswith("_insert_"):
            continue
        fn = inspect.getattr_static(cls, name)
        decl = _closure_decl(fn)
        if decl is None:
            # hand-written inserter: keep it, successors unknown
            out.append({"prop": name[len("_insert_"):], "tag": None, "decl": None, "kind": "custom", "methods": [name]})
            continue
        prop = name[len("_insert_"):]
        if prop in seen:
            continue
        seen.add(prop)
        kind = type(decl).__name__
        methods = [m for m in ("_insert_" + prop, "_add_" + prop, "get_or_add_" + prop, "get_or_change_to_" + prop, "add_" + prop, "_remove_" + prop) if hasattr(cls, m)]
        # is each method the generated one (closure over a declaration) or hand-written?
        generated = {}
        for m in methods:
            generated[m] = _closure_decl(inspect.getattr_static(cls, m)) is not None
        out.append(
            {
                "prop": prop,
                "tag": qn(decl._nsptagname),
                "nsptag": decl._nsptagname,
                "successors": tuple(decl._successors),
                "kind": kind,
                "methods": methods,
                "generated": generated,
                "group": getattr(decl, "_group_prop_name", None),
                "decl": decl,
            }
        )
    return out


def choice_groups(cls):
    """-> {group prop name: [member clark tags]} for ZeroOrOneChoice groups of cls."""
    from pptx.oxml.ns import qn

    groups = {}
    for d in child_decls(cls):
        if d["kind"] == "Choice" and d["group"]:
            groups.setdefault(d["group"], []).append(d["tag"])
    return groups


def attr_decls(cls):
    """Attribute declarations of an element class from the generated property closures."""
    from pptx.oxml.ns import qn

    out = []
    for name, prop in inspect.getmembers(cls, lambda o: isinstance(o, property)):
        decl = _closure_decl(prop.fget)
        if decl is None or not hasattr(decl, "_attr_name"):
            continue
        an = decl._attr_name
        out.append(
            {
                "prop": name,
                "attr": an,
                "clark": qn(an) if ":" in an else an,
                "simple_type": decl._simple_type,
                "required": type(decl).__name__ == "RequiredAttribute",
                "default": getattr(decl, "_default", None),
            }
        )
    return out
