"""Accumulator for what a worker observed; JSON-serialisable and mergeable."""
from __future__ import annotations

import json

from .env import khash

MAX_SAMPLES = 6
MAX_VIOLATIONS_PER_KEY = 3
MAX_KEYS = 400000


class Acc:
    def __init__(self):
        self.evaluations = 0
        self.keys = set()  # hashes of distinct non-trivial cases
        self.nontrivial_count = 0  # for disjointly enumerated spaces (summed, not unioned)
        self.counters = {}
        self.classes = {}
        self.samples = []
        self.violations = []  # {key, what, witness}
        self._vio_per_key = {}
        self.reach = {}
        self.notes = []
        self.inconclusive = []
        self.extra = {}

    # --- recording -------------------------------------------------------------
    def case(self, desc=None, nontrivial=False, cls=None, sample=None, key=None):
        """Record one evaluated case. `desc` identifies it (hashed for distinctness)."""
        self.evaluations += 1
        if cls is not None:
            self.classes[cls] = self.classes.get(cls, 0) + 1
        if nontrivial:
            if key is None and desc is None:
                self.nontrivial_count += 1
            elif len(self.keys) < MAX_KEYS:
                self.keys.add(key if key is not None else khash(desc))
        if len(self.samples) < MAX_SAMPLES:
            s = sample if sample is not None else desc
            if s is not None:
                self.samples.append(s)

    def count(self, name, n=1):
        self.counters[name] = self.counters.get(name, 0) + n

    def hit(self, name, n=1):
        self.reach[name] = self.reach.get(name, 0) + n

    def violation(self, key, what, witness):
        """key = mechanism key (stable across cases); witness = JSON-able replay case."""
        n = self._vio_per_key.get(key, 0)
        self._vio_per_key[key] = n + 1
        if n < MAX_VIOLATIONS_PER_KEY:
            self.violations.append({"key": key, "what": what, "witness": witness})
        self.count("violation_events")

    def note(self, s):
        if s not in self.notes and len(self.notes) < 50:
            self.notes.append(s)

    # --- (de)serialisation -----------------------------------------------------
    def to_json(self):
        return {
            "evaluations": self.evaluations,
            "keys": sorted(self.keys),
            "nontrivial_count": self.nontrivial_count,
            "counters": self.counters,
            "classes": self.classes,
            "samples": self.samples,
            "violations": self.violations,
            "vio_per_key": self._vio_per_key,
            "reach": self.reach,
            "notes": self.notes,
            "inconclusive": self.inconclusive,
            "extra": self.extra,
        }

    def merge_json(self, d):
        self.evaluations += d["evaluations"]
        self.keys.update(d["keys"])
        self.nontrivial_count += d["nontrivial_count"]
        for name in ("counters", "classes", "reach"):
            tgt = getattr(self, name)
            for k, v in d[name].items():
                tgt[k] = tgt.get(k, 0) + v
        for s in d["samples"]:
            if len(self.samples) < MAX_SAMPLES:
                self.samples.append(s)
        for v in d["violations"]:
            n = sum(1 for x in self.violations if x["key"] == v["key"])
            if n < MAX_VIOLATIONS_PER_KEY:
                self.violations.append(v)
        for k, v in d.get("vio_per_key", {}).items():
            self._vio_per_key[k] = self._vio_per_key.get(k, 0) + v
        for n in d["notes"]:
            self.note(n)
        self.inconclusive.extend(d["inconclusive"])
        for k, v in d.get("extra", {}).items():
            if isinstance(v, (int, float)) and isinstance(self.extra.get(k, 0), (int, float)):
                self.extra[k] = self.extra.get(k, 0) + v
            elif isinstance(v, list):
                cur = self.extra.setdefault(k, [])
                seen = set(map(repr, cur))
                for item in v:
                    if repr(item) not in seen and len(cur) < 5000:
                        cur.append(item)
                        seen.add(repr(item))
            elif isinstance(v, dict):
                cur = self.extra.setdefault(k, {})
                for kk, vv in v.items():
                    if isinstance(vv, (int, float)):
                        cur[kk] = cur.get(kk, 0) + vv
                    else:
                        cur.setdefault(kk, vv)
            else:
                self.extra.setdefault(k, v)

    @property
    def distinct_nontrivial(self):
        return len(self.keys) + self.nontrivial_count


def jsonable(x):
    try:
        json.dumps(x)
        return x
    except Exception:
        return repr(x)
