"""Schema-derived donors: a minimal VALID instance of any element declaration of the shipped schemas
(required attributes with a valid value, required children recursively), and `saturate()`, which gives a
live element the optional children its content model permits but python-pptx never writes ("siblings
python-pptx itself never writes but PowerPoint does").  Workload only: every donor is deep-validated by
libxml2 against the real schema before use and discarded otherwise; every insertion position is checked
with the order schema before and after.  Nothing here is an oracle.
"""
from __future__ import annotations

import copy

from lxml import etree

from . import xsdkit

R_NS = "http://schemas.openxmlformats.org/officeDocument/2006/relationships"
_CANDIDATES = ["0", "1", "x", "100000", "FF0000", "{00000000-0000-0000-0000-000000000000}", "en-US", "50%", "1.5", "a1", "10pt", "http://x/"]
_donor = {}
_value = {}
STATS = {"donors_built": 0, "donors_rejected": 0}


class _Fail(Exception):
    pass


def _sample(tname):
    """A valid lexical value of simple type `tname` (None when none of the candidates is valid)."""
    if tname in _value:
        return _value[tname]
    m = xsdkit.model()
    cands = []
    if tname is not None:
        cands += (m.enumeration(tname) or [])[:2]
        f = m.facets(tname)
        for k in ("minInclusive", "maxInclusive"):
            if f.get(k) is not None:
                cands.append(f[k])
    cands += _CANDIDATES
    res = None
    if tname is None:
        res = "x"
    else:
        for c in cands:
            try:
                if xsdkit.type_valid(tname, c)[0]:
                    res = c
                    break
            except LookupError:
                break
    _value[tname] = res
    return res


def _fill(el, tname, depth):
    m = xsdkit.model()
    if depth > 7:
        raise _Fail("depth")
    if tname is None or not m.is_complex(tname):
        if tname is not None:
            v = _sample(tname)
            if v is None:
                raise _Fail("no value for " + tname)
            el.text = v
        return
    for name, (typ, use, _default) in m.attributes(tname).items():
        if use != "required":
            continue
        if name.startswith("{" + R_NS + "}"):
            raise _Fail("required relationship reference")
        v = _sample(typ)
        if v is None:
            raise _Fail("no value for attribute %s" % name)
        el.set(name, v)
    p = m.particle(tname)
    if p is not None:
        _emit(el, p, depth)


def _emit(parent, p, depth):
    if p.min == 0:
        return
    if p.kind == "any":
        raise _Fail("required wildcard")
    if p.kind == "elem":
        for _ in range(p.min):
            child = etree.SubElement(parent, p.name)
            _fill(child, p.type, depth + 1)
        return
    for _ in range(p.min):
        if p.kind == "seq":
            for c in p.children:
                _emit(parent, c, depth)
            continue
        last = None
        for alt in sorted(p.children, key=lambda c: (c.kind != "elem", len(list(c.elements())))):  # simplest alternative that works
            mark = len(parent)
            try:
                if alt.min == 0:  # an optional alternative may stay empty
                    break
                _emit(parent, alt, depth)
                break
            except _Fail as e:
                last = e
                del parent[mark:]
        else:
            raise last or _Fail("empty choice")


_valid = {}


def _valid_values(tname):
    """Every candidate lexical value that is valid for simple type `tname` (enumeration tokens, facet bounds, stock values)."""
    if tname not in _valid:
        m = xsdkit.model()
        cands = []
        if tname is not None:
            cands += m.enumeration(tname) or []
            f = m.facets(tname)
            for k in ("minInclusive", "maxInclusive"):
                if f.get(k) is not None:
                    cands.append(f[k])
        big = ["-1", "255", "0.5", "-0.25", "21600000", "5400000", "12700", "914400"]
        if tname is not None and f.get("base") in ("unsignedInt", "int", "long", "unsignedLong", "integer", "unsignedShort", "short") and f.get("maxInclusive") is None:
            # a bare count / index (c:ptCount, c:idx, ...): an authoring application writes small numbers here, and python-pptx
            # legitimately loops over them
            cands = [c for c in cands if not c.lstrip("-").isdigit() or abs(int(c)) <= 12]
            big = ["3", "7"]
        cands += [c for c in _CANDIDATES if not (big == ["3", "7"] and c.isdigit() and int(c) > 12)] + ["true", "false"] + big
        out = []
        for c in dict.fromkeys(cands):
            try:
                if tname is None or xsdkit.type_valid(tname, c)[0]:
                    out.append(c)
            except LookupError:
                break
        _valid[tname] = out
    return _valid[tname]


def _fill_rich(el, tname, rnd, p, depth):
    """Like _fill, but optional attributes and optional / repeatable children are taken with probability p and values are drawn
    from everything valid for the type (not just the first): an instance as an authoring application might have written it."""
    m = xsdkit.model()
    if depth > 5:
        raise _Fail("depth")
    if tname is None or not m.is_complex(tname):
        if tname is not None:
            vals = _valid_values(tname)
            if not vals:
                raise _Fail("no value for " + tname)
            el.text = rnd.choice(vals)
        return
    for name, (typ, use, _default) in m.attributes(tname).items():
        if name.startswith("{" + R_NS + "}"):
            if use == "required":
                raise _Fail("required relationship reference")
            continue
        if use == "required" or (use != "prohibited" and rnd.random() < p):
            vals = _valid_values(typ)
            if not vals:
                if use == "required":
                    raise _Fail("no value for attribute %s" % name)
                continue
            el.set(name, rnd.choice(vals))
    prt = m.particle(tname)
    if prt is not None:
        _emit_rich(el, prt, rnd, p * (0.7 if depth else 1.0), depth)


def _emit_rich(parent, prt, rnd, p, depth):
    n = prt.min if prt.min else (1 if rnd.random() < p else 0)
    # (a repeatable particle is taken once: two random c:dLbl / c:dPt / c:legendEntry would collide on their c:idx)
    if n == 0:
        return
    if prt.kind == "any":
        if prt.min:
            raise _Fail("required wildcard")
        return
    for _ in range(n):
        if prt.kind == "elem":
            child = etree.SubElement(parent, prt.name)
            try:
                _fill_rich(child, prt.type, rnd, p, depth + 1)
            except _Fail:
                parent.remove(child)
                if prt.min:
                    raise
        elif prt.kind == "seq":
            for c in prt.children:
                _emit_rich(parent, c, rnd, p, depth)
        else:
            alts = list(prt.children)
            rnd.shuffle(alts)
            last = None
            for alt in alts:
                mark = len(parent)
                try:
                    before = len(parent)
                    _emit_rich(parent, alt if alt.min else _forced(alt), rnd, p, depth)
                    if len(parent) > before or not prt.min:
                        break
                except _Fail as e:
                    last = e
                    del parent[mark:]
            else:
                if prt.min:
                    raise last or _Fail("empty choice")


class _forced:
    """A particle taken at least once (the chosen alternative of a choice)."""

    def __init__(self, prt):
        self.__dict__.update(kind=prt.kind, min=max(1, prt.min), max=prt.max, children=prt.children, name=prt.name, type=prt.type)


def donor_rich(tag, tname, rnd, p=0.45):
    """A randomly filled-in valid <tag> of type `tname` (serialized), or None when what was drawn does not validate."""
    try:
        nsmap = {pf: u for pf, u in xsdkit.NS.items() if pf in ("a", "p", "c", "r")}
        el = etree.Element(tag, nsmap=nsmap)
        _fill_rich(el, tname, rnd, p, 0)
        if tname is None or not xsdkit.model().is_complex(tname) or not xsdkit.fragment_errors(el, tname):
            STATS["rich_donors_built"] = STATS.get("rich_donors_built", 0) + 1
            return etree.tostring(el)
    except (_Fail, LookupError, KeyError, RecursionError):
        pass
    STATS["rich_donors_rejected"] = STATS.get("rich_donors_rejected", 0) + 1
    return None


def donor(tag, tname):
    """Serialized minimal valid <tag> of type `tname`, or None."""
    k = (tag, tname)
    if k not in _donor:
        res = None
        try:
            nsmap = {p: u for p, u in xsdkit.NS.items() if p in ("a", "p", "c", "r")}
            el = etree.Element(tag, nsmap=nsmap)
            _fill(el, tname, 0)
            if tname is None or not xsdkit.model().is_complex(tname) or not xsdkit.fragment_errors(el, tname):
                res = etree.tostring(el)
        except (_Fail, LookupError, KeyError, RecursionError):
            res = None
        STATS["donors_built" if res else "donors_rejected"] += 1
        _donor[k] = res
    return _donor[k]


_child_type = {}


def _declared(ptype, tag):
    k = (ptype, tag)
    if k not in _child_type:
        m = xsdkit.model()
        p = m.particle(ptype) if (ptype and m.is_complex(ptype)) else None
        _child_type[k] = next((e.type for e in p.elements() if e.name == tag), None) if p is not None else None
    return _child_type[k]


def declared_type(el):
    """The schema type `el` is declared with where it stands (None when the chain of declarations breaks, e.g. under xsd:any)."""
    chain = [el]
    while chain[-1].getparent() is not None:
        chain.append(chain[-1].getparent())
    t = xsdkit.model().global_elems.get(chain[-1].tag)
    for node in reversed(chain[:-1]):
        t = _declared(t, node.tag) if t is not None else None
        if t is None:
            # below a wildcard (a:graphicData, a:ext): a global element declaration starts a new chain (a:tbl, c:chart, ...)
            t = xsdkit.model().global_elems.get(node.tag)
    return t


def parent_type(el):
    """The complex type `el` is declared with WHERE IT STANDS (global element of the part's root, then declaration by
    declaration down to `el`: a:xfrm, c:ser, c:tx... have several types), provided its present children are in order."""
    from . import monitors

    chain = [el]
    while chain[-1].getparent() is not None:
        chain.append(chain[-1].getparent())
    t = xsdkit.model().global_elems.get(chain[-1].tag)
    for node in reversed(chain[:-1]):
        if t is None:
            return None
        t = _declared(t, node.tag)
    if t is None or not xsdkit.model().is_complex(t) or xsdkit.model().particle(t) is None:
        return None
    tags = [c.tag for c in el if isinstance(c.tag, str)]
    return t if monitors.order_ok(t, tags) else None


def saturate(el, rnd, parser_el=None, p_add=0.6, p_swap=0.25, skip=(), rich=0.0):
    """Add to `el` children its type permits and it lacks (donors placed at the first position the order schema accepts);
    where a lacking child cannot coexist (choice group) it may REPLACE the present member.  -> list of ('add'|'swap', tag)."""
    from . import monitors

    tau = parent_type(el)
    if tau is None:
        return []
    done = []
    decls = []
    for e in xsdkit.model().particle(tau).elements():
        if e.name not in [d.name for d in decls]:
            decls.append(e)
    rnd.shuffle(decls)
    for e in decls:
        if e.name in skip or rnd.random() > p_add or el.find(e.name) is not None:
            continue
        blob = donor_rich(e.name, e.type, rnd) if rich and rnd.random() < rich else None
        if blob is None:
            blob = donor(e.name, e.type)
        if blob is None:
            continue
        tags = [c.tag for c in el if isinstance(c.tag, str)]
        kids = [c for c in el if isinstance(c.tag, str)]
        pos = next((i for i in range(len(tags), -1, -1) if monitors.order_ok(tau, tags[:i] + [e.name] + tags[i:])), None)
        new = (parser_el or etree.fromstring)(blob)
        if pos is not None:
            if pos == len(kids):
                el.append(new)
            else:
                kids[pos].addprevious(new)
            done.append(("add", e.name))
        elif rnd.random() < p_swap:
            j = next((j for j in range(len(tags)) if monitors.order_ok(tau, tags[:j] + [e.name] + tags[j + 1:])), None)
            if j is not None:
                el.replace(kids[j], new)
                done.append(("swap", e.name))
    return done
