"""C05 — caller-supplied strings are stored as data, never interpreted as markup.

A SINK REGISTRY (one entry per public entry point that stores a caller's string in XML: shape / slide /
layout names, picture / placeholder-picture / poster-frame / OLE-icon / movie *file names* (real files with
hostile names in a scratch dir), movie MIME type, OLE prog-id, hyperlink addresses, chart series names,
category labels at every level, number formats wherever they can be given, chart / axis / data-label text,
font names, every string core property, text-frame / paragraph / run / table-cell / notes text).
Every (sink, string) case runs on its own fresh Presentation() and is judged four ways:
  1. the call (and the following save) must not raise for an in-domain string;
  2. the corresponding reader returns the string: public API on the live deck and on the re-opened deck,
     and an XPath of the harness evaluated with the plain lxml parser on the live part and the saved member;
  3. every XML member of the saved package parses with the plain parser;
  4. DIFFERENTIAL SKELETON: tag tree + attribute names (+ comment / PI nodes) of every saved XML member
     equal those produced by the same call with the control string "Abc" (the injection detector).
One violation per case: the most telling failed observation (raises > malformed > structure-changed > readback >
reopen); what follows from it is counted. Keys are "<observation>:<sink class>[:<exception type | kind of difference>]";
a sink class groups the entry points that reach one template / setter in the code under test.
Plus one fixed unit: built-in auto-shape base names that contain markup ('"No" Symbol') through add_shape.
"""
from __future__ import annotations

import datetime
import hashlib
import io
import os
import re
import zipfile

ID = "C05"
LEVEL = "exploration"
EXHAUSTIVE = False
RULE = (
    "sink registry x strings. String j of a sink: the first len(MUST) are fixed (each of & < > \" ' ]]> alone, entity-, "
    "comment-, element-, PI- and CDATA-like fragments, %-/{}-format fragments, backslashes, leading/trailing blanks, "
    "non-ASCII/astral, '[<100]0;0.0', tab/LF/CR, the empty string); the rest are seeded concatenations of 1-6 atoms from "
    "the same classes and plain words, <= 60 code points, then fitted to the sink's domain (file names: no '/'; text "
    "sinks: LF / VT only where the documented translation reads back unchanged; no other C0 control anywhere). "
    "quick 50, thorough 2500 strings per sink. A case = (sink, string); non-trivial when the string contains one of "
    "& < > \" '; distinct by (sink, string)."
)
ASSUMPTIONS = [
    "readers: public API plus harness XPath on zipfile + plain lxml (resolve_entities=False); the skeleton oracle uses only the plain parser",
    "the control string 'Abc' is handled correctly by every sink (a control run that fails makes the run inconclusive)",
    "file-name sinks: the stored string is the base name <string>.png / <string>.mp4 of a real file created in a scratch directory; poster-frame and "
    "OLE-icon file names and data-point number formats are stored nowhere in the XML: those sinks are judged on exceptions and structure only",
    "documented translations are not violations: text sinks split at LF (paragraphs) and VT (a:br) - such strings skip the skeleton comparison; "
    "C0 controls other than TAB/LF/CR (escaped as _xHHHH_ by text sinks) are left to C13; the empty string skips the skeleton comparison "
    "(assigning '' documents removal for slide names) and is not given to hyperlink addresses ('' removes the link)",
]
WATCHDOG_S = {"quick": 600, "thorough": 7200}

CONTROL = "Abc"
META = "&<>\"'"
N_STRINGS = {"quick": 50, "thorough": 2500}
BLOCK = {"quick": 50, "thorough": 250}
NS = {
    "a": "http://schemas.openxmlformats.org/drawingml/2006/main",
    "p": "http://schemas.openxmlformats.org/presentationml/2006/main",
    "c": "http://schemas.openxmlformats.org/drawingml/2006/chart",
    "r": "http://schemas.openxmlformats.org/officeDocument/2006/relationships",
    "cp": "http://schemas.openxmlformats.org/package/2006/metadata/core-properties",
    "dc": "http://purl.org/dc/elements/1.1/",
    "pr": "http://schemas.openxmlformats.org/package/2006/relationships",
    "ct": "http://schemas.openxmlformats.org/package/2006/content-types",
}
SLIDE, CHART, CORE = "ppt/slides/slide1.xml", "ppt/charts/chart1.xml", "docProps/core.xml"

# ------------------------------------------------------------------ strings
MUST = [
    "&", "<", ">", '"', "'", "]]>", "a&b<c>d\"e'f", "&amp;", "&#65;", "&nosuch;", "<!-- c -->", "<a:b/>", "</a:t><a:t>",
    "<?pi x?>", "<![CDATA[x]]>", "%s %d %(x)s", "{} {0} {x}", "C:\\dir\\n", "  lead", "trail  ", "\u00e9\u65e5\u672c\U0001F600",
    "[<100]0;0.0", '0.00"x"', 'x" y="z', "", "a\tb", "a\nb", "a\rb", "a\vb",
    # strings that are not in Unicode normal form C / KC (decomposed accent, OHM and ANGSTROM signs, Hangul jamo, a ligature): stored as given
    "e\u0301 \u2126\u212b \u1100\u1161 \ufb01\u00b5",
    # strings whose FIRST character means something to some reader of such a field (theme-font reference, vertical font, option, hidden file, id)
    "+mn-lt", "@Arial Unicode MS", "-x", ".hidden", "#ref!",
    # strings that spell the name or the value of a member of one of the library's enumerations, or a Python constant: still strings
    "XLSX", "PPTX", "DOCX", "None", "True", "RECTANGLE", "ctr", "Excel.Sheet.12",
]
ATOMS = [
    "&", "<", ">", '"', "'", "]]>", "&amp;", "&lt;", "&gt;", "&quot;", "&apos;", "&#65;", "&#x41;", "&#0;", "&nosuch;", "&a", "AT&T;",
    "<!--", "-->", "<!-- c -->", "--", "<a:b/>", "<a:t>", "</a:t>", "</c:v>", "<x", "/>", "<?pi x?>", "<?xml version='1.0'?>", "<![CDATA[",
    "<![CDATA[x]]>", "<!DOCTYPE x>", 'x="y"', "x='y'", 'xmlns:a="u"', "%s", "%d", "%(x)s", "%%", "%", "{}", "{0}", "{x}", "{", "}", "{{", "$1",
    "\\", "\\n", '\\"', "\\u0041", " ", "  ", "=", ";", "#", "[<100]", "0.0", "\u00e9", "\u65e5\u672c", "\U0001F600", "\U00010000", "\ufffd",
    "\u00a0", "\u2028", "\u0301", "_x000A_", "_x", "\t", "\n", "\r", "\v", "/", ":", "|", "*", "?",
]
WORDS = ["a", "b", "Abc", "x y", "Q1", "2024", "name", "General", "file", "Z"]


def gen_string(sink_name, j):
    from vlib import env

    if j < len(MUST):
        return MUST[j]
    rnd = env.rng("C05", sink_name, j)
    if j in (len(MUST), len(MUST) + 1):
        # a long markup-heavy string: exactly the documented 255-character maximum (and one less) for core properties, 400 elsewhere
        n = (255 if j == len(MUST) else 254) if sink_name.startswith("core:") else 400
        s = ""
        while len(s) < n:
            s += rnd.choice(ATOMS[:60]) if rnd.random() < 0.7 else rnd.choice(WORDS)
        return s[:n].rstrip("&<") + "x" * (n - len(s[:n].rstrip("&<")))
    parts = []
    for _ in range(rnd.choice([1, 2, 2, 3, 3, 4, 5, 6])):
        parts.append(rnd.choice(ATOMS) if rnd.random() < 0.72 else rnd.choice(WORDS))
    s = "".join(parts)
    if rnd.random() < 0.1:
        s = rnd.choice([" ", "  "]) + s
    if rnd.random() < 0.1:
        s = s + rnd.choice([" ", "  "])
    return s[:60]


def fit(s, sink):
    """Restrict s to the sink's domain (see ASSUMPTIONS)."""
    if sink.dom == "file":
        s = s.replace("/", "").replace("\v", "")[:100]  # a real file of that name is created
    elif sink.dom == "text":
        s = s.replace("\r", "")
        if not sink.breaks:
            s = s.replace("\n", "").replace("\v", "")
    else:
        s = s.replace("\v", "")
    if sink.nonempty and not s:
        s = "x"
    return s


def has_breaks(s):
    return "\n" in s or "\v" in s


# ------------------------------------------------------------------ deck helpers
class Deck:
    """A fresh default presentation, a scratch directory and a number from which unique pixels are derived."""

    def __init__(self, tmp, uniq):
        import pptx

        self.prs = pptx.Presentation()
        self.tmp, self.uniq, self.files = tmp, uniq, []

    def slide(self, layout=6):
        return self.prs.slides.add_slide(self.prs.slide_layouts[layout])

    def file(self, fname, data):
        """A real file of that name in the unit's scratch directory; removed by cleanup() when the case is over."""
        path = os.path.join(self.tmp, fname)
        with open(path, "wb") as fh:
            fh.write(data)
        self.files.append(path)
        return path

    def cleanup(self):
        for path in self.files:
            os.remove(path)

    def png(self, fname="img.png"):
        """A real PNG file of that name whose pixels no other case or call shares (images are de-duplicated by SHA-1)."""
        from PIL import Image

        u = self.uniq
        img = Image.new("RGB", (5, 4), (u & 255, (u >> 8) & 255, (u >> 16) & 255))
        img.putpixel((1, 1), ((u >> 24) & 255, len(self.files), 7))
        buf = io.BytesIO()
        img.save(buf, "PNG")
        return self.file(fname, buf.getvalue())


def emu(n):
    from pptx.util import Emu

    return Emu(n)


def box():
    return emu(100000), emu(200000), emu(3000000), emu(2000000)


def walk(shapes):
    for sh in shapes:
        yield sh
        if sh.shape_type is not None and getattr(sh, "shapes", None) is not None:
            yield from walk(sh.shapes)


def shape_of(prs, h):
    for sh in walk(prs.slides[0].shapes):
        if sh.shape_id == h["id"]:
            return sh
    raise LookupError("shape id %r not on slide 1" % h["id"])


def chart_of(prs, h):
    return shape_of(prs, h).chart


def cat_data(name="S1", cats=("c1", "c2"), nf="General", ser_nf=None):
    from pptx.chart.data import CategoryChartData

    cd = CategoryChartData(number_format=nf)
    cd.categories = list(cats)
    cd.add_series(name, (1.5, 2), ser_nf)
    return cd


def xy_data(kind, name="S1", nf="General", ser_nf=None, pt_nf=None):
    from pptx.chart.data import BubbleChartData, XyChartData

    cd = (XyChartData if kind == "xy" else BubbleChartData)(number_format=nf)
    ser = cd.add_series(name, ser_nf)
    for x in (1, 2):
        ser.add_data_point(x, x * 1.5, number_format=pt_nf) if kind == "xy" else ser.add_data_point(x, x * 1.5, 3, number_format=pt_nf)
    return cd


def add_chart(d, cd, ct="COLUMN_CLUSTERED"):
    from pptx.enum.chart import XL_CHART_TYPE

    return d.slide().shapes.add_chart(getattr(XL_CHART_TYPE, ct), *box(), cd)


# ------------------------------------------------------------------ the sink registry
class Sink:
    def __init__(self, name, cls, do, api=None, member=SLIDE, xp=None, dom="attr", exp=None, nonempty=False, breaks=False, names_vary=False):
        self.name, self.cls, self.do, self.api, self.member, self.xp = name, cls, do, api, member, xp
        self.names_vary = names_vary  # member NAMES legitimately depend on the string (a part named after the file's extension)
        self.dom, self.exp, self.nonempty, self.breaks = dom, exp or (lambda s: s), nonempty, breaks


SINKS = []


def sink(*a, **kw):
    SINKS.append(Sink(*a, **kw))


def _named(make, layout=6):
    def do(d, s):
        sh = make(d, d.slide(layout))
        sh.name = s
        return {"id": sh.shape_id}

    return do


def _mk_in_group(d, sl):
    from pptx.enum.shapes import MSO_SHAPE

    return sl.shapes.add_group_shape().shapes.add_shape(MSO_SHAPE.OVAL, *box())


def _retyped_placeholder(d, kind):
    """Slide with a picture / table / chart placeholder (idx 1); the stock template only has the picture kind."""
    if kind == "picture":
        return d.slide(8)
    sl = d.slide(1)
    sl.placeholders[1]._element.xpath("p:nvSpPr/p:nvPr/p:ph")[0].set("type", {"table": "tbl", "chart": "chart"}[kind])
    return sl


def _ph_reuse(kind):
    def do(d, s):
        sl = _retyped_placeholder(d, kind)
        ph = sl.placeholders[1]
        ph.name = s
        if kind == "picture":
            new = ph.insert_picture(d.png())
        elif kind == "table":
            new = ph.insert_table(2, 2)
        else:
            from pptx.enum.chart import XL_CHART_TYPE

            new = ph.insert_chart(XL_CHART_TYPE.PIE, cat_data())
        return {"id": new.shape_id}

    return do


def _movie_ext(d, s):
    """The string in the EXTENSION position of the movie's file name ('clip.' + s; the empty string = a name ending in a dot)."""
    f = d.file("clip." + s, b"not-a-movie %d" % d.uniq)
    return {"id": d.slide().shapes.add_movie(f, *box(), mime_type="video/mp4").shape_id}


def _movie(d, s=None, poster=None, mime="video/mp4"):
    f = d.file(s + ".mp4", b"not-a-movie %d" % d.uniq) if s is not None else io.BytesIO(b"not-a-movie %d" % d.uniq)
    return {"id": d.slide().shapes.add_movie(f, *box(), poster_frame_image=poster, mime_type=mime).shape_id}


def _ole(d, prog_id, icon=None):
    return {"id": d.slide().shapes.add_ole_object(io.BytesIO(b"ole %d" % d.uniq), prog_id, emu(0), emu(0), icon_file=icon).shape_id}


def _media_part(prs):
    return next(p for p in prs.part.package.iter_parts() if str(p.partname).startswith("/ppt/media/media"))


def _run_link(d, s):
    sh = d.slide().shapes.add_textbox(*box())
    r = sh.text_frame.paragraphs[0].add_run()
    r.text = "link"
    r.hyperlink.address = s
    return {"id": sh.shape_id}


def _click_link(d, s):
    from pptx.enum.shapes import MSO_SHAPE

    sh = d.slide().shapes.add_shape(MSO_SHAPE.RECTANGLE, *box())
    sh.click_action.hyperlink.address = s
    return {"id": sh.shape_id}


def _variant(s):
    """An address a caller may well also use on the same slide: the same string in the other letter case, or with a
    trailing '/', whichever differs from s."""
    v = s.swapcase()
    return v if v != s else s + "/"


def _link_after_variant(kind):
    """Two hyperlinks on one slide: first one to a near-variant of s, then one to s; each must keep its own address."""
    def do(d, s):
        class OneSlide:  # both links go on the same slide (Deck.slide() adds a new one per call)
            sl = d.slide()
            slide = staticmethod(lambda layout=6: OneSlide.sl)

        h1 = (_run_link if kind == "run" else _click_link)(OneSlide, _variant(s))
        h2 = (_run_link if kind == "run" else _click_link)(OneSlide, s)
        return {"id": h2["id"], "first": h1["id"], "first_addr": _variant(s)}

    def api(prs, h):
        get = (lambda sh: sh.text_frame.paragraphs[0].runs[0].hyperlink.address) if kind == "run" else (lambda sh: sh.click_action.hyperlink.address)
        first = get(shape_of(prs, {"id": h["first"]}))
        if first != h["first_addr"]:
            return "<the FIRST link on the slide now reads %r, it was given %r>" % (first, h["first_addr"])
        return get(shape_of(prs, h))

    return do, api


def _link_shared_then_one_changed(kind):
    """Two hyperlinks on one slide to the SAME address s (they may share one relationship), then the first is cleared or
    re-pointed: the second must still read s."""
    def do(d, s):
        class OneSlide:
            sl = d.slide()
            slide = staticmethod(lambda layout=6: OneSlide.sl)

        mk = _run_link if kind == "run" else _click_link
        h1, h2 = mk(OneSlide, s), mk(OneSlide, s)
        sh1 = [x for x in OneSlide.sl.shapes if x.shape_id == h1["id"]][0]
        link = sh1.text_frame.paragraphs[0].runs[0].hyperlink if kind == "run" else sh1.click_action.hyperlink
        link.address = None if kind == "run" else "http://elsewhere.example/"  # (the same steps for every s: the skeleton is compared with the control string's)
        return {"id": h2["id"]}

    def api(prs, h):
        sh = shape_of(prs, h)
        return sh.text_frame.paragraphs[0].runs[0].hyperlink.address if kind == "run" else sh.click_action.hyperlink.address

    return do, api


def _chart(build, ct="COLUMN_CLUSTERED", after=None, replace=False):
    def do(d, s):
        gf = add_chart(d, cat_data() if replace else build(s), ct)
        if replace:
            gf.chart.replace_data(build(s))
        if after:
            after(gf.chart, s)
        return {"id": gf.shape_id}

    return do


def _multi(level):
    def build(s):
        from pptx.chart.data import CategoryChartData

        cd = CategoryChartData()
        names = [s if level == k else "L%d" % k for k in (3, 2, 1)]
        cd.add_category(names[0]).add_sub_category(names[1]).add_sub_category(names[2])
        cd.add_series("S1", (1,))
        return cd

    return build


def _num_cats(dates, early=False):
    def build(s):
        labels = [datetime.date(2020, 1, 1), datetime.date(2020, 1, 2)] if dates else [1, 2]
        if early:
            # the format is set on the (still empty) categories first, the categories are added one by one afterwards
            from pptx.chart.data import CategoryChartData

            cd = CategoryChartData()
            cd.categories.number_format = s
            for lab in labels:
                cd.add_category(lab)
            cd.add_series("S1", (1.5, 2))
            return cd
        cd = cat_data(cats=labels)
        cd.categories.number_format = s
        return cd

    return build


def _set(path_fn, attr):
    def after(chart, s):
        setattr(path_fn(chart), attr, s)

    return after


def _dlbls(chart):
    plot = chart.plots[0]
    plot.has_data_labels = True
    return plot.data_labels


def _text(target, layout=6):
    def do(d, s):
        sl = d.slide(layout)
        sh = sl.shapes.add_textbox(*box()) if layout == 6 else sl.shapes.title
        obj = target(sh)
        obj.text = s
        return {"id": sh.shape_id}

    return do


def _font_do(where):
    def do(d, s):
        sh = d.slide().shapes.add_textbox(*box())
        p = sh.text_frame.paragraphs[0]
        r = p.add_run()
        r.text = "t"
        (r if where == "run" else p).font.name = s
        return {"id": sh.shape_id}

    return do


def _cell_do(d, s):
    gf = d.slide().shapes.add_table(2, 2, *box())
    gf.table.cell(0, 1).text = s
    return {"id": gf.shape_id}


def _register():
    from pptx.enum.shapes import MSO_CONNECTOR, MSO_SHAPE

    sp = "//p:cNvPr[@id='%(id)d']"
    name_api = lambda prs, h: shape_of(prs, h).name  # noqa: E731
    makers = {
        "autoshape": lambda d, sl: sl.shapes.add_shape(MSO_SHAPE.RECTANGLE, *box()),
        "textbox": lambda d, sl: sl.shapes.add_textbox(*box()),
        "picture": lambda d, sl: sl.shapes.add_picture(d.png(), emu(0), emu(0)),
        "connector": lambda d, sl: sl.shapes.add_connector(MSO_CONNECTOR.STRAIGHT, emu(0), emu(0), emu(100), emu(100)),
        "group": lambda d, sl: sl.shapes.add_group_shape(),
        "shape-in-group": _mk_in_group,
        "table-frame": lambda d, sl: sl.shapes.add_table(2, 2, *box()),
    }
    for k, mk in makers.items():
        sink("name:" + k, "shape-name", _named(mk), name_api, xp=sp + "/@name")
    sink("name:title-placeholder", "shape-name", _named(lambda d, sl: sl.shapes.title, layout=0), name_api, xp=sp + "/@name")

    put = lambda target, attr="name": lambda d, s: setattr(target(d), attr, s) or {}  # noqa: E731
    sink("name:slide", "slide-name", put(lambda d: d.slide()), lambda prs, h: prs.slides[0].name, xp="/p:sld/p:cSld/@name")
    sink("name:layout", "slide-name", put(lambda d: d.prs.slide_layouts[0]), lambda prs, h: prs.slide_layouts[0].name, member="ppt/slideLayouts/slideLayout1.xml", xp="/p:sldLayout/p:cSld/@name")
    sink("name:master", "slide-name", put(lambda d: d.prs.slide_master), lambda prs, h: prs.slide_master.name, member="ppt/slideMasters/slideMaster1.xml", xp="/p:sldMaster/p:cSld/@name")
    for k in ("picture", "table", "chart"):
        # insert_picture -> CT_Picture.new_ph_pic; insert_table / insert_chart -> CT_GraphicalObjectFrame.new_graphicFrame
        sink("placeholder-name>insert_" + k, "placeholder-name-into-" + ("picture" if k == "picture" else "graphic-frame"), _ph_reuse(k), name_api, xp=sp + "/@name")

    # ---- file names (the hostile string is the stem of a real file)
    png, mp4 = (lambda s: s + ".png"), (lambda s: s + ".mp4")
    sink("filename:add_picture", "picture-filename", lambda d, s: {"id": d.slide().shapes.add_picture(d.png(s + ".png"), emu(0), emu(0)).shape_id},
         xp=sp + "/@descr", dom="file", exp=png)
    def _second_name(d, s):
        """the same image bytes added twice under two file names: the picture under test is the SECOND one"""
        import shutil

        first = d.png("first name.png")
        second = os.path.join(d.tmp, s + ".png")
        shutil.copyfile(first, second)
        d.files.append(second)
        sl = d.slide()
        sl.shapes.add_picture(first, emu(0), emu(0))
        return {"id": sl.shapes.add_picture(second, emu(0), emu(0)).shape_id}

    sink("filename:add_picture:same-bytes-other-name", "picture-filename-of-bytes-already-in-the-deck", _second_name, xp=sp + "/@descr", dom="file", exp=png)
    sink("filename:insert_picture", "placeholder-picture-filename", lambda d, s: {"id": d.slide(8).placeholders[1].insert_picture(d.png(s + ".png")).shape_id},
         xp=sp + "/@descr", dom="file", exp=png)
    sink("filename:add_movie", "movie-filename", lambda d, s: _movie(d, s), name_api, xp=sp + "/@name", dom="file", exp=mp4)
    sink("fileext:add_movie", "movie-file-extension", _movie_ext, name_api, xp=sp + "/@name", dom="file", exp=lambda s: "clip." + s, names_vary=True)
    sink("filename:poster-frame", "poster-frame-filename", lambda d, s: _movie(d, None, poster=d.png(s + ".png")), dom="file")  # not stored: no reader
    sink("filename:ole-icon", "ole-icon-filename", lambda d, s: _ole(d, "Abc", icon=d.png(s + ".png")), dom="file")  # not stored: no reader
    sink("mime-type:add_movie", "movie-mime-type", lambda d, s: _movie(d, None, mime=s), lambda prs, h: _media_part(prs).content_type,
         member="[Content_Types].xml", xp="//ct:Override[starts-with(@PartName,'/ppt/media/media')]/@ContentType", nonempty=True)
    sink("prog-id:add_ole_object", "ole-prog-id", lambda d, s: _ole(d, s), lambda prs, h: shape_of(prs, h).ole_format.prog_id, xp="//p:oleObj/@progId")

    # ---- hyperlinks (stored as the Target of an external relationship)
    rel = "//pr:Relationship[@TargetMode='External']/@Target"
    sink("hyperlink:run", "hyperlink-address", _run_link, lambda prs, h: shape_of(prs, h).text_frame.paragraphs[0].runs[0].hyperlink.address,
         member="ppt/slides/_rels/slide1.xml.rels", xp=rel, nonempty=True)
    sink("hyperlink:click-action", "hyperlink-address", _click_link, lambda prs, h: shape_of(prs, h).click_action.hyperlink.address,
         member="ppt/slides/_rels/slide1.xml.rels", xp=rel, nonempty=True)

    for kind in ("run", "click-action"):
        do, api = _link_after_variant("run" if kind == "run" else "click")
        sink("hyperlink:%s:after-near-variant" % kind, "hyperlink-address", do, api, nonempty=True)
        do2, api2 = _link_shared_then_one_changed("run" if kind == "run" else "click")
        sink("hyperlink:%s:shared-then-the-other-changed" % kind, "hyperlink-address", do2, api2, nonempty=True)

    # ---- charts
    ser_name = lambda prs, h: chart_of(prs, h).plots[0].series[0].name  # noqa: E731
    ser_xp = "//c:ser[1]/c:tx//c:v/text()"
    sink("series-name:category", "series-name", _chart(lambda s: cat_data(name=s)), ser_name, CHART, ser_xp)
    sink("series-name:xy", "series-name", _chart(lambda s: xy_data("xy", name=s), "XY_SCATTER"), ser_name, CHART, ser_xp)
    sink("series-name:bubble", "series-name", _chart(lambda s: xy_data("bubble", name=s), "BUBBLE"), ser_name, CHART, ser_xp)
    sink("series-name:replace_data", "series-name", _chart(lambda s: cat_data(name=s), replace=True), ser_name, CHART, ser_xp)
    cat0 = lambda prs, h: str(chart_of(prs, h).plots[0].categories[0])  # noqa: E731
    cat_xp = "//c:ser[1]/c:cat//c:pt[@idx='0']/c:v/text()"
    sink("category-label:flat", "category-label", _chart(lambda s: cat_data(cats=(s, "c2"))), cat0, CHART, cat_xp)
    sink("category-label:replace_data", "category-label", _chart(lambda s: cat_data(cats=(s, "c2")), replace=True), cat0, CHART, cat_xp)
    for lvl in (1, 2, 3):
        sink("category-label:level-%d" % lvl, "category-label-multilevel", _chart(_multi(lvl)),
             (lambda lvl: lambda prs, h: chart_of(prs, h).plots[0].categories.flattened_labels[0][3 - lvl])(lvl), CHART,
             "//c:ser[1]/c:cat//c:lvl[%d]/c:pt[1]/c:v/text()" % lvl)
    val_xp = "//c:ser[1]/c:val//c:formatCode/text()"
    sink("number-format:chart-data", "number-format", _chart(lambda s: cat_data(nf=s)), None, CHART, val_xp)
    sink("number-format:series", "number-format", _chart(lambda s: cat_data(ser_nf=s)), None, CHART, val_xp)
    sink("number-format:replace_data", "number-format", _chart(lambda s: cat_data(nf=s), replace=True), None, CHART, val_xp)
    sink("number-format:xy-series", "number-format-xy", _chart(lambda s: xy_data("xy", ser_nf=s), "XY_SCATTER"), None, CHART, "//c:ser[1]/c:yVal//c:formatCode/text()")
    sink("number-format:bubble-series", "number-format-xy", _chart(lambda s: xy_data("bubble", ser_nf=s), "BUBBLE"), None, CHART, "//c:ser[1]/c:bubbleSize//c:formatCode/text()")
    sink("number-format:data-point", "data-point-number-format", _chart(lambda s: xy_data("xy", pt_nf=s), "XY_SCATTER"), member=CHART)  # not stored in the chart part
    tick = lambda prs, h: chart_of(prs, h).category_axis.tick_labels.number_format  # noqa: E731
    # numeric categories: only c:cat//c:formatCode (the category axis keeps "General"); date categories: also c:dateAx/c:numFmt/@formatCode
    sink("number-format:numeric-categories", "categories-number-format", _chart(_num_cats(False)), None, CHART, "//c:ser[1]/c:cat//c:formatCode/text()")
    sink("number-format:numeric-categories:set-before-the-categories", "categories-number-format", _chart(_num_cats(False, early=True)), None, CHART, "//c:ser[1]/c:cat//c:formatCode/text()")
    for ct in ("LINE", "AREA", "BAR_CLUSTERED"):  # the three chart writers that emit c:dateAx, one template each
        sink("number-format:date-categories:" + ct.lower(), "date-axis-number-format", _chart(_num_cats(True), ct), tick, CHART, "//c:dateAx/c:numFmt/@formatCode")
    sink("number-format:tick-labels", "axis-number-format", _chart(lambda s: cat_data(), after=_set(lambda ch: ch.value_axis.tick_labels, "number_format")),
         lambda prs, h: chart_of(prs, h).value_axis.tick_labels.number_format, CHART, "//c:valAx/c:numFmt/@formatCode")
    sink("number-format:data-labels", "data-labels-number-format", _chart(lambda s: cat_data(), after=_set(_dlbls, "number_format")),
         lambda prs, h: chart_of(prs, h).plots[0].data_labels.number_format, CHART, "//c:dLbls/c:numFmt/@formatCode")
    sink("text:chart-title", "chart-text", _chart(lambda s: cat_data(), after=_set(lambda ch: ch.chart_title.text_frame, "text")),
         lambda prs, h: chart_of(prs, h).chart_title.text_frame.text, CHART, "/c:chartSpace/c:chart/c:title//a:t/text()", dom="text", breaks=True)
    sink("text:axis-title", "chart-text", _chart(lambda s: cat_data(), after=_set(lambda ch: ch.value_axis.axis_title.text_frame, "text")),
         lambda prs, h: chart_of(prs, h).value_axis.axis_title.text_frame.text, CHART, "//c:valAx/c:title//a:t/text()", dom="text", breaks=True)
    sink("text:data-label", "chart-text", _chart(lambda s: cat_data(), after=_set(lambda ch: ch.plots[0].series[0].points[0].data_label.text_frame, "text")),
         lambda prs, h: chart_of(prs, h).plots[0].series[0].points[0].data_label.text_frame.text, CHART, "//c:dLbl//a:t/text()", dom="text", breaks=True)
    sink("font-name:chart", "font-name", _chart(lambda s: cat_data(), after=_set(lambda ch: ch.font, "name")), lambda prs, h: chart_of(prs, h).font.name,
         CHART, "/c:chartSpace/c:txPr//a:defRPr/a:latin/@typeface")

    # ---- fonts, text
    txb = "//p:sp[p:nvSpPr/p:cNvPr/@id='%(id)d']/p:txBody"
    sink("font-name:run", "font-name", _font_do("run"), lambda prs, h: shape_of(prs, h).text_frame.paragraphs[0].runs[0].font.name, xp=txb + "//a:rPr/a:latin/@typeface")
    sink("font-name:paragraph", "font-name", _font_do("paragraph"), lambda prs, h: shape_of(prs, h).text_frame.paragraphs[0].font.name, xp=txb + "//a:defRPr/a:latin/@typeface")
    tf_text = lambda prs, h: shape_of(prs, h).text_frame.text  # noqa: E731
    sink("text:text-frame", "text", _text(lambda sh: sh.text_frame), tf_text, xp=txb + "//a:t/text()", dom="text", breaks=True)
    sink("text:shape", "text", _text(lambda sh: sh), lambda prs, h: shape_of(prs, h).text, xp=txb + "//a:t/text()", dom="text", breaks=True)
    sink("text:paragraph", "text", _text(lambda sh: sh.text_frame.paragraphs[0]), lambda prs, h: shape_of(prs, h).text_frame.paragraphs[0].text, xp=txb + "//a:t/text()", dom="text")
    sink("text:run", "text", _text(lambda sh: sh.text_frame.paragraphs[0].add_run()), lambda prs, h: shape_of(prs, h).text_frame.paragraphs[0].runs[0].text, xp=txb + "//a:t/text()", dom="text")
    sink("text:title-placeholder", "text", _text(lambda sh: sh.text_frame, layout=0), lambda prs, h: prs.slides[0].shapes.title.text_frame.text, xp=txb + "//a:t/text()",
         dom="text", breaks=True)
    sink("text:table-cell", "text", _cell_do, lambda prs, h: shape_of(prs, h).table.cell(0, 1).text, xp="//a:tbl/a:tr[1]/a:tc[2]//a:t/text()", dom="text", breaks=True)
    sink("text:notes", "text", put(lambda d: d.slide().notes_slide.notes_text_frame, "text"), lambda prs, h: prs.slides[0].notes_slide.notes_text_frame.text, member="ppt/notesSlides/notesSlide1.xml",
         xp="//p:sp[p:nvSpPr/p:nvPr/p:ph/@type='body']//a:t/text()", dom="text", breaks=True)

    # ---- core properties: API name -> element of docProps/core.xml (OPC part 2, table of core properties)
    core = {
        "author": "dc:creator", "category": "cp:category", "comments": "dc:description", "content_status": "cp:contentStatus", "identifier": "dc:identifier",
        "keywords": "cp:keywords", "language": "dc:language", "last_modified_by": "cp:lastModifiedBy", "subject": "dc:subject", "title": "dc:title", "version": "cp:version",
    }
    for prop, tag in core.items():
        sink("core:" + prop, "core-property", put(lambda d: d.prs.core_properties, prop),
             (lambda prop: lambda prs, h: getattr(prs.core_properties, prop))(prop), CORE, "/cp:coreProperties/%s/text()" % tag)


def sinks():
    if not SINKS:
        _register()
    return {s.name: s for s in SINKS}


# ------------------------------------------------------------------ oracle
def skeleton(root):
    """Tag tree + sorted attribute names; comments and PIs are nodes; attribute values and text are blanked."""
    out = []

    def rec(el):
        if not isinstance(el.tag, str):
            out.append("<#%s/>" % type(el).__name__)
            return
        out.append("<%s %s>" % (el.tag, " ".join(sorted(el.attrib))))
        for ch in el:
            rec(ch)
        out.append("</>")

    rec(root)
    return hashlib.sha1("".join(out).encode()).hexdigest()[:16]


def is_xml(member):
    return member.endswith((".xml", ".rels", ".vml"))


def read_package(data):
    """{member: bytes} of a saved package, by zipfile only."""
    with zipfile.ZipFile(io.BytesIO(data)) as zf:
        return {i.filename: zf.read(i) for i in zf.infolist() if not i.is_dir()}


def xp_value(blob, xp, h):
    from lxml import etree
    from vlib.xsdkit import PLAIN

    res = etree.fromstring(blob, PLAIN).xpath(xp % h if "%(" in xp else xp, namespaces=NS)
    return "".join(str(x) for x in res)


def live_blob(prs, member):
    """Serialised form of a live part (rels items and the content-types stream exist only at save time)."""
    for part in prs.part.package.iter_parts():
        if str(part.partname) == "/" + member:
            return part.blob
    return None


def diff_kind(want, got):
    """Mechanism suffix computed from how the read value differs (never from the string itself)."""
    if got is None or (want == "" and got == "None"):
        return ":nothing-read" if want else ":empty-reads-as-none"
    if isinstance(got, str) and re.sub(r"[\t\n\r ]+", "", want) == re.sub(r"[\t\n\r ]+", "", got):
        return ":whitespace-altered"  # differs only in TAB / LF / CR / blank (attribute-value or line-end normalisation, dropped blanks)
    return ""


CONTROLS = {}


def control_for(snk, tmp_root):
    """Saved members and skeletons of the same call with the control string (once per sink and process)."""
    if snk.name not in CONTROLS:
        from lxml import etree
        from vlib.xsdkit import PLAIN

        d = Deck(tmp_root, 0xC0FFEE)
        snk.do(d, CONTROL)  # an exception here is a harness / precondition failure: the worker reports inconclusive
        d.cleanup()
        buf = io.BytesIO()
        d.prs.save(buf)
        members = read_package(buf.getvalue())
        CONTROLS[snk.name] = (members, {m: skeleton(etree.fromstring(b, PLAIN)) for m, b in members.items() if is_xml(m)})
    return CONTROLS[snk.name]


PRIORITY = ["raises", "saved-part-malformed", "saved-package-unsound", "structure-changed", "readback", "reopen"]


def package_faults(members):
    """What a consumer that follows the OPC rules trips over, read with zipfile + lxml + urllib only: a member whose name is not
    a part name (a segment that is empty or ends in a dot, a character a part name cannot hold), and an internal relationship
    whose Target - a URI reference: '#' starts a fragment, '?' a query - does not designate a member of the package."""
    import posixpath
    from urllib.parse import unquote, urlsplit

    from lxml import etree
    from vlib.xsdkit import PLAIN

    out = []
    for m in members:
        if m == "[Content_Types].xml":
            continue
        segs = m.split("/")
        if any(not g or g.endswith(".") for g in segs) or re.search(r"[^A-Za-z0-9\-._~!$&'()*+,;=:@%/\[\]]", m) or re.search(r"%(?![0-9A-Fa-f]{2})", m):
            out.append("member %r is not an OPC part name" % m)
    for m, b in members.items():
        if not m.endswith(".rels"):
            continue
        base = posixpath.dirname(posixpath.dirname(m))  # 'ppt/slides/_rels/slide1.xml.rels' -> 'ppt/slides'
        for rel in etree.fromstring(b, PLAIN):
            if not isinstance(rel.tag, str) or rel.get("TargetMode") == "External":
                continue
            u = urlsplit(rel.get("Target") or "")
            path = unquote(u.path)
            name = posixpath.normpath(path if path.startswith("/") else posixpath.join("/" + base, path)).lstrip("/")
            if u.query or u.fragment or "#" in (rel.get("Target") or "") or "?" in (rel.get("Target") or ""):
                out.append("%s: Target %r carries a query / fragment: as a URI it designates %r" % (m, rel.get("Target"), name))
            elif name not in members:
                out.append("%s: Target %r designates %r, which is not in the package" % (m, rel.get("Target"), name))
    return out


def run_case(snk, s, acc, uniq, tmp, say=None):
    from lxml import etree
    from vlib.xsdkit import PLAIN

    import pptx

    say = say or (lambda *a: None)
    want = snk.exp(s)
    acc.case(desc={"sink": snk.name, "s": s}, nontrivial=any(c in s for c in META), cls=snk.name)
    acc.hit("sink:" + snk.cls)
    found = []  # (kind, key suffix, detail) of every failed observation of this case

    def bad(kind, detail, suffix=""):
        found.append((kind, suffix, detail))
        say("  FAILED %s%s: %s" % (kind, suffix, detail))

    def check(stage, how, got):
        acc.count("reads_" + stage)
        say("  %s: %s -> %r" % (stage, how, got))
        if got != want:
            bad(stage, "%s returned %r, expected %r" % (how, got, want), diff_kind(want, got))

    def read_api(stage, how, prs):
        try:
            got = snk.api(prs, h)
        except Exception as e:  # noqa
            return bad(stage, "%s raised %r" % (how, e), ":" + type(e).__name__)
        check(stage, how, got)

    def observe():
        nonlocal h
        ctl_members, ctl_skel = control_for(snk, tmp)
        d = Deck(tmp, uniq)
        try:
            h = snk.do(d, s)
        except Exception as e:  # noqa
            return bad("raises", "the call raised %r" % (e,), ":" + type(e).__name__)
        finally:
            d.cleanup()
        acc.count("calls_accepted")
        # (2a) live readers
        if snk.api:
            read_api("readback", "public reader", d.prs)
        blob = live_blob(d.prs, snk.member) if snk.xp and not has_breaks(s) else None
        if blob is not None:
            check("readback", "XPath on the live part", xp_value(blob, snk.xp, h))
        try:
            buf = io.BytesIO()
            d.prs.save(buf)
        except Exception as e:  # noqa
            return bad("raises", "save after the call raised %r" % (e,), ":%s:on-save" % type(e).__name__)
        acc.count("saves")
        members = read_package(buf.getvalue())
        # (3) well-formedness and (4) differential skeleton, by the plain parser only
        skel = {}
        for m, b in members.items():
            if is_xml(m) and ctl_members.get(m) == b:
                skel[m] = ctl_skel[m]
            elif is_xml(m):
                try:
                    skel[m] = skeleton(etree.fromstring(b, PLAIN))
                    acc.count("saved_members_parsed")
                except etree.XMLSyntaxError as e:
                    bad("saved-part-malformed", "%s does not parse: %s" % (m, e))
        if any(k == "saved-part-malformed" for k, _, _ in found):
            return
        acc.count("saved_packages_checked_for_part_names_and_targets")
        for fault in package_faults(members)[:1]:
            bad("saved-package-unsound", fault)
        if not s or (snk.dom == "text" and has_breaks(s)):
            acc.count("skeleton_comparisons_skipped_documented_translation")
        else:
            acc.count("skeleton_comparisons")
            diff = ([] if snk.names_vary else sorted(set(members) ^ set(ctl_members))) + [m for m in skel if m in ctl_skel and skel[m] != ctl_skel[m] and not (snk.names_vary and m == "[Content_Types].xml")]
            say("  skeletons of %d XML members against the control run: %s" % (len(skel), "DIFFER in %s" % diff if diff else "equal"))
            if diff:
                bad("structure-changed", "members / element skeletons differ from what the control string %r produces: %s" % (CONTROL, diff[:4]))
        if snk.xp and not has_breaks(s):
            if snk.member in members:
                check("reopen", "XPath on saved %s" % snk.member, xp_value(members[snk.member], snk.xp, h))
            else:
                bad("reopen", "member %s is missing from the saved package" % snk.member, ":member-missing")
        # (2b) re-open with python-pptx
        try:
            prs2 = pptx.Presentation(io.BytesIO(buf.getvalue()))
        except Exception as e:  # noqa
            return bad("reopen", "re-opening the saved deck raised %r" % (e,), ":" + type(e).__name__)
        acc.count("reopens")
        if snk.api:
            read_api("reopen", "public reader after re-open", prs2)

    h = {}
    observe()
    # one violation per case: the most telling observation; what follows from it is counted, not reported
    if found:
        top = min(PRIORITY.index(k) for k, _, _ in found)
        kind, suffix, detail = next(f for f in found if PRIORITY.index(f[0]) == top)
        acc.count("consequent_observations_not_reported", len(found) - 1)
        acc.violation("%s:%s%s" % (kind, snk.cls, suffix), "%s(%r): %s" % (snk.name, s, detail), {"sink": snk.name, "cps": [ord(c) for c in s]})


def run_builtin_names(acc):
    """add_shape for every auto-shape type whose built-in base name contains markup; the name is read back."""
    import pptx
    from pptx.enum.shapes import MSO_SHAPE
    from pptx.spec import autoshape_types

    for mbr in MSO_SHAPE:
        base = autoshape_types.get(mbr, {}).get("basename", "")
        if not any(c in base for c in META):
            continue
        acc.case(desc={"builtin-basename": base}, nontrivial=True, cls="builtin-shape-name")
        acc.hit("sink:builtin-shape-name")
        w = {"builtin": mbr.name}
        prs = pptx.Presentation()
        try:
            sp = prs.slides.add_slide(prs.slide_layouts[6]).shapes.add_shape(mbr, *box())
            buf = io.BytesIO()
            prs.save(buf)
            got = xp_value(read_package(buf.getvalue())[SLIDE], "//p:cNvPr[@id='%d']/@name" % sp.shape_id, {})
        except Exception as e:  # noqa
            acc.violation("raises:builtin-shape-name:%s" % type(e).__name__, "add_shape(%s) with base name %r: %r" % (mbr.name, base, e), w)
            continue
        if sp.name != got or not got.startswith(base + " "):
            acc.violation("readback:builtin-shape-name", "add_shape(%s): name %r / saved %r, expected %r + number" % (mbr.name, sp.name, got, base), w)


# ------------------------------------------------------------------ contract
def plan(tier, seed):
    n, blk = N_STRINGS[tier], BLOCK[tier]
    units = [{"kind": "builtin"}]
    for lo in range(0, n, blk):
        units += [{"kind": "sink", "sink": name, "lo": lo, "hi": min(n, lo + blk)} for name in sinks()]
    return units


def run_unit(unit, tier, seed, acc):
    from vlib import env

    reg = sinks()
    acc.extra["sinks"] = sorted(reg)
    if unit["kind"] == "builtin":
        return run_builtin_names(acc)
    snk = reg[unit["sink"]]
    idx = sorted(reg).index(snk.name)
    with env.Scratch("c05") as tmp:
        for j in range(unit["lo"], unit["hi"]):
            run_case(snk, fit(gen_string(snk.name, j), snk), acc, (idx << 20) + j + 1, tmp)


def replay(w, acc):
    if "builtin" in w:
        run_builtin_names(acc)
    else:
        snk = sinks()[w["sink"]]
        s = "".join(chr(c) for c in w["cps"])
        print("sink %s (class %s), string %r, expected stored value %r" % (snk.name, snk.cls, s, snk.exp(s)))
        from vlib import env

        with env.Scratch("c05") as tmp:
            run_case(snk, s, acc, 12345, tmp, say=lambda *a: print(*a))
    print("violations:", [(v["key"], v["what"][:300]) for v in acc.violations])


def finalize(acc, tier, seed):
    missing = [n for n in sinks() if not acc.classes.get(n)]
    if missing:
        acc.inconclusive.append("registered sinks without a single case: %s" % missing[:8])
    for need in ("saves", "reopens", "skeleton_comparisons", "reads_readback", "reads_reopen"):
        if not acc.counters.get(need):
            acc.inconclusive.append("deciding counter is zero: " + need)
    if not acc.classes.get("builtin-shape-name"):
        acc.inconclusive.append("no built-in auto-shape base name with markup was exercised")
