"""C10 — a child is inserted where the schema allows it, whatever siblings exist.

Exhaustive over the real declarations: every registered tag -> class, every schema type the tag is
declared with, every child the class can insert; sibling contexts derived from the schema content
model (self-checked by libxml2), the real generated/hand-written method called on a parent built by
the real parser, result decided by libxml2 on a structure-only copy of the shipped schemas.
The online half (monitor M-INS on insert_element_before inside API histories) runs in unit 'online'.
"""
from __future__ import annotations

import inspect

ID = "C10"
LEVEL = "exploration"
EXHAUSTIVE = True
ONLINE = True
RULE = (
    "for every (registered tag T, schema complex type tau of T, child X the class of T declares and tau permits): "
    "sibling contexts = X alone / with each single other permitted child (both orders, sandwich) / with all later / all "
    "earlier / all permitted children (one per alternative of other choices) [+ every pair of others in thorough]; each context "
    "is validated first, X removed, the parent built with the real parser, _insert_/_add_/get_or_add_/get_or_change_to_/add_/"
    "_remove_ called and the child sequence validated against tau (structure-only schema). A case = (T,tau,X,context); "
    "non-trivial when X has a sibling before and one after it, or a sibling python-pptx has no class for; distinct by "
    "construction (enumerated once)."
)
ASSUMPTIONS = [
    "libxml2 XSD validation of a structure-only copy (all element types -> anyType, attributes ignored) of the shipped ISO 29500-4 schemas decides order/cardinality/choice",
    "contexts come from vlib/ctxgen.py; a context libxml2 rejects is discarded and counted, never blamed on python-pptx",
    "declarations are recovered from the generated method closures of the real classes (vlib/introspect.py)",
]


def plan(tier, seed):
    n = 16
    units = [{"kind": "decls", "shard": i, "of": n, "pairwise": tier == "thorough"} for i in range(n)]
    units.append({"kind": "suite"})
    units.append({"kind": "api_removers", "n": 300 if tier == "quick" else 6000})
    units.append({"kind": "switches"})
    if ONLINE:
        # mixed-profile histories (every op kind) and 'sat' histories (XML mutators next to schema-permitted siblings python-pptx
        # never writes: ops.op_saturate / ops.sat_select), both judged by monitor M-INS only
        units += [{"kind": "online", "n": 40 if tier == "quick" else 600, "shard": i, "profile": "mixed"} for i in range(0, 4 if tier == "quick" else 16, 2)]
        units += [{"kind": "online", "n": 40 if tier == "quick" else 300, "shard": i, "profile": "sat"} for i in range(1, 16 if tier == "quick" else 64, 2)]
    return units


def _mk(parser, tag, kids):
    from vlib.xsdkit import NS

    nsmap = {k: v for k, v in NS.items() if k in ("a", "p", "c", "r", "pic", "ct", "pr")}
    el = parser.makeelement(tag, nsmap=nsmap)
    for k in kids:
        el.append(parser.makeelement(k))
    return el


def _count(el, tag):
    return sum(1 for c in el if c.tag == tag)


def _callable_noargs(fn):
    try:
        sig = inspect.signature(fn)
    except (TypeError, ValueError):
        return False
    for i, (n, p) in enumerate(sig.parameters.items()):
        if i == 0:
            continue
        if p.default is inspect._empty and p.kind in (p.POSITIONAL_ONLY, p.POSITIONAL_OR_KEYWORD, p.KEYWORD_ONLY):
            return False
    return True


# arguments for the hand-written adders that need some (add_lumMod(value), add_tr(height), add_sldId(rId), ...), by parameter name
_ARGS = {"value": 0.5, "x": 0, "y": 0, "w": 914400, "h": 914400, "height": 914400, "width": 914400, "rId": "rId7", "ext": "xml",
         "content_type": "application/xml", "partname": "/ppt/verif.xml", "idx": 0, "text": "t", "name": "n"}


def _required_args(fn):
    """kwargs for fn's required parameters out of _ARGS, or None when one of them has no entry."""
    try:
        sig = inspect.signature(fn)
    except (TypeError, ValueError):
        return None
    out = {}
    for i, (n, p) in enumerate(sig.parameters.items()):
        if i == 0 or p.default is not inspect._empty or p.kind in (p.VAR_POSITIONAL, p.VAR_KEYWORD):
            continue
        if n not in _ARGS:
            return None
        out[n] = _ARGS[n]
    return out


def check_decl(T, cls, d, acc, pairwise, regs):
    from pptx.oxml import oxml_parser
    from vlib import ctxgen, xsdkit

    m = xsdkit.model()
    X = d["tag"]
    types = sorted({t for t in m.elem_decls.get(T, {}).values() if t and m.is_complex(t)})
    tT, tX = xsdkit.pfx_tag(T), xsdkit.pfx_tag(X)
    permitted_somewhere = False
    for tau in types:
        p = m.particle(tau)
        if p is None or X not in ctxgen.tags_of(p):
            acc.count("triples_skipped_type_does_not_permit_child")
            continue
        permitted_somewhere = True
        xmax = max(e.max for e in p.elements() if e.name == X)
        ctxs = ctxgen.contexts_for(p, X, pairwise)
        usable = 0
        seen_ctx = set()
        for kind, seq in ctxs:
            if xsdkit.skeleton_errors(None, tau, child_tags=seq):
                acc.count("contexts_rejected_by_selfcheck")
                continue
            usable += 1
            i = seq.index(X)
            nontriv = (0 < i and any(t != X for t in seq[i + 1:])) or any(t not in regs for t in seq if t != X)
            if tuple(seq) not in seen_ctx:
                seen_ctx.add(tuple(seq))
                acc.evaluations += 1
                acc.classes[kind] = acc.classes.get(kind, 0) + 1
                if nontriv:
                    acc.nontrivial_count += 1
                if len(acc.samples) < 5 and nontriv and acc.evaluations % 7 == 1:
                    acc.samples.append({"parent": tT, "type": xsdkit.pfx_tag(tau), "child": tX, "context": [xsdkit.pfx_tag(t) for t in seq]})
            # the states to insert into: X removed (all, for single-occurrence kinds; each one in turn otherwise)
            if d["kind"] in ("ZeroOrOne", "Choice") or xmax == 1:
                befores = [[t for t in seq if t != X]]
            else:
                idxs = [k for k, t in enumerate(seq) if t == X]
                befores = [seq[:k] + seq[k + 1:] for k in idxs]
            for before in befores:
                for meth in d["methods"]:
                    if meth.startswith("_remove_") or meth.startswith("get_or_change_to_"):
                        continue
                    fn = getattr(cls, meth)
                    kw = {}
                    if (meth.startswith("add_") or meth.startswith("_add_")) and not _callable_noargs(fn):
                        kw = _required_args(fn)
                        if kw is None:
                            acc.count("adders_with_unknown_required_args_skipped")
                            acc.note("%s.%s%s: no argument table entry" % (cls.__name__, meth, inspect.signature(fn)))
                            continue
                        acc.count("adders_called_with_table_arguments")
                    parent = _mk(oxml_parser, T, before)
                    try:
                        if meth.startswith("_insert_"):
                            newm = getattr(parent, "_new_" + d["prop"], None)
                            child = newm() if newm is not None and _callable_noargs(newm) else oxml_parser.makeelement(X)
                            fn(parent, child)
                        else:
                            fn(parent, **kw)
                            if meth.startswith("get_or_add_"):
                                fn(parent)
                                if _count(parent, X) != _count_list(before, X) + (1 if X not in before else 0):
                                    acc.violation(
                                        "get-or-add-count:%s>%s" % (tT, tX),
                                        "%s on <%s> with children %s left %d <%s>" % (meth, tT, _p(before), _count(parent, X), tX),
                                        {"T": T, "tau": tau, "X": X, "before": before, "method": meth},
                                    )
                    except Exception as e:  # noqa
                        acc.count("method_raised:%s" % type(e).__name__)
                        acc.note("%s.%s raised %s on context %s" % (cls.__name__, meth, type(e).__name__, _p(before)))
                        continue
                    acc.hit(("generated:" if d["generated"].get(meth) else "handwritten:") + meth[: len(meth) - len(d["prop"])])
                    after = [c.tag for c in parent if isinstance(c.tag, str)]
                    errs = xsdkit.skeleton_errors(None, tau, child_tags=after)
                    acc.count("insertions_validated")
                    if errs:
                        acc.violation(
                            "misplaced:%s>%s" % (tT, tX),
                            "%s.%s on <%s> (as %s) holding %s gives %s: %s"
                            % (cls.__name__, meth, tT, xsdkit.pfx_tag(tau), _p(before), _p(after), list(errs)[0]),
                            {"T": T, "tau": tau, "X": X, "before": before, "method": meth},
                        )
            # remove: all X gone
            rm = "_remove_" + d["prop"]
            if rm in d["methods"]:
                parent = _mk(oxml_parser, T, seq + ([X] if xmax > 1 else []))
                try:
                    getattr(parent, rm)()
                    acc.count("removals_checked")
                    if _count(parent, X):
                        acc.violation("remove-leaves:%s>%s" % (tT, tX), "%s left %d <%s>" % (rm, _count(parent, X), tX), {"T": T, "tau": tau, "X": X, "before": seq, "method": rm})
                except Exception as e:  # noqa
                    acc.count("method_raised:%s" % type(e).__name__)
        if usable == 0:
            acc.note("no usable context for %s as %s + %s" % (tT, xsdkit.pfx_tag(tau), tX))
            acc.count("triples_without_context")
        else:
            acc.count("triples_checked")
        # get_or_change_to: another member of the choice group is present instead of X
        gm = "get_or_change_to_" + d["prop"]
        if d["kind"] == "Choice" and gm in d["methods"]:
            members = d["members"]
            for y, seq in ctxgen.contexts_without(p, X, members):
                if xsdkit.skeleton_errors(None, tau, child_tags=seq):
                    acc.count("contexts_rejected_by_selfcheck")
                    continue
                parent = _mk(oxml_parser, T, seq)
                try:
                    getattr(parent, gm)()
                except Exception as e:  # noqa
                    acc.count("method_raised:%s" % type(e).__name__)
                    continue
                after = [c.tag for c in parent if isinstance(c.tag, str)]
                present = [t for t in after if t in members]
                errs = xsdkit.skeleton_errors(None, tau, child_tags=after)
                acc.count("change_to_checked")
                acc.hit("generated:get_or_change_to_")
                if present != [X] or errs:
                    acc.violation(
                        "change-to:%s>%s" % (tT, tX),
                        "%s on <%s> holding %s gives %s (%s)" % (gm, tT, _p(seq), _p(after), list(errs)[:1]),
                        {"T": T, "tau": tau, "X": X, "before": seq, "method": gm},
                    )
            # 'remove removes all of that kind' / 'change to leaves exactly one member', also from a parent that (invalidly, as
            # damaged or hand-edited documents do) holds SEVERAL members of the group: the valid rest of one context plus every
            # other member in schema order.  Only the members are judged here (the rest of the content was valid and stays).
            base = next((seq for _, seq in ctxgen.contexts_without(p, X, members) if not xsdkit.skeleton_errors(None, tau, child_tags=seq)), None)
            if base is not None:
                others = [mtag for mtag in members if mtag != X]
                k = next(i for i, t in enumerate(base) if t in members)
                crowded = [t for t in base[:k] if t not in members] + others + [t for t in base[k:] if t not in members]
                for meth in (gm, "_remove_" + (d.get("group") or "\x00")):
                    if not hasattr(cls, meth):
                        continue
                    parent = _mk(oxml_parser, T, crowded)
                    try:
                        getattr(parent, meth)()
                    except Exception as e:  # noqa
                        acc.count("method_raised:%s" % type(e).__name__)
                        continue
                    left = [t for t in (c.tag for c in parent if isinstance(c.tag, str)) if t in members]
                    acc.count("crowded_choice_groups_checked")
                    want = [X] if meth == gm else []
                    if left != want:
                        acc.violation(
                            ("change-to-from-several:%s>%s" if meth == gm else "group-remove-leaves:%s>%s") % (tT, tX),
                            "%s on <%s> holding the group members %s leaves %s, expected %s" % (meth, tT, _p(others), _p(left), _p(want)),
                            {"T": T, "tau": tau, "X": X, "before": crowded, "method": meth},
                        )
    if types and not permitted_somewhere:
        acc.count("decls_child_not_in_any_schema_type")
        acc.note("%s (as <%s>) declares child %s that no schema type of the tag permits" % (cls.__name__, tT, tX))


def _count_list(seq, X):
    return sum(1 for t in seq if t == X)


def _p(seq):
    from vlib.xsdkit import pfx_tag

    return "[" + " ".join(pfx_tag(t) for t in seq) + "]"


def api_removers(unit, seed, acc):
    """'remove removes ALL of that kind', at the level of the API calls documented to remove or replace something, on parents where
    the kind stands more than once (only kinds the schema lets repeat: colour transforms, paragraphs, runs / breaks / fields).
    The hand-written helpers behind these calls (clear_lum, clear_content, ...) are not generated by xmlchemy and so not in `decls`."""
    import pptx
    from pptx.dml.color import RGBColor
    from pptx.enum.dml import MSO_THEME_COLOR
    from pptx.oxml import parse_xml
    from vlib import env, xsdkit

    A = "http://schemas.openxmlformats.org/drawingml/2006/main"
    prs = pptx.Presentation()
    slide = prs.slides.add_slide(prs.slide_layouts[6])
    for i in range(unit["n"]):
        rnd = env.rng("C10api", seed, i)
        kind = ["brightness", "frame_clear", "para_clear"][i % 3]
        sp = slide.shapes.add_textbox(0, 0, 914400, 914400)
        w = {"api_remover": kind, "i": i, "seed": seed}
        if kind == "brightness":
            sp.fill.solid()
            cf = rnd.choice([sp.fill.fore_color, sp.line.color, sp.text_frame.paragraphs[0].font.color])
            if rnd.random() < 0.5:
                cf.rgb = RGBColor(1, 2, 3)
            else:
                cf.theme_color = MSO_THEME_COLOR.ACCENT_1
            clr = cf._color._xClr
            tags = ["lumMod", "lumOff"] * rnd.choice([1, 2, 3]) + rnd.sample(["satMod", "alpha", "shade", "tint"], rnd.choice([0, 1, 2]))
            rnd.shuffle(tags)
            for t in tags:
                clr.append(clr.makeelement("{%s}%s" % (A, t), {"val": str(rnd.choice([5000, 50000, 90000]))}))
            others = [c.tag for c in clr if c.tag.rsplit("}", 1)[1] not in ("lumMod", "lumOff")]
            cf.brightness = rnd.choice([0, 0.25, -0.4, 1.0, -1.0])
            acc.hit("ColorFormat.brightness")
            left = [c.tag.rsplit("}", 1)[1] for c in clr]
            if left.count("lumMod") > 1 or left.count("lumOff") > 1:
                acc.violation("api-remove-leaves:%s>a:lumMod/a:lumOff" % xsdkit.pfx_tag(clr.tag), "brightness assigned on a colour holding %s leaves %s" % (tags, left), w)
            if [c.tag for c in clr if c.tag.rsplit("}", 1)[1] not in ("lumMod", "lumOff")] != others:
                acc.violation("api-remove-takes-others:%s" % xsdkit.pfx_tag(clr.tag), "brightness assigned on a colour holding %s leaves %s" % (tags, left), w)
            parent, el = "colour", clr
        else:
            tf = sp.text_frame
            tx = tf._txBody
            for _ in range(rnd.choice([0, 1, 3])):
                tf.add_paragraph()
            for p_ in tx.findall("{%s}p" % A):
                for t in [rnd.choice(["r", "br", "fld", "r"]) for _ in range(rnd.choice([0, 2, 5]))]:
                    xml = {"r": '<a:r xmlns:a="%s"><a:t>x</a:t></a:r>', "br": '<a:br xmlns:a="%s"/>', "fld": '<a:fld xmlns:a="%s" id="{00000000-0000-0000-0000-000000000000}" type="slidenum"><a:t>1</a:t></a:fld>'}[t] % A
                    p_.append(parse_xml(xml))
                if rnd.random() < 0.5:
                    p_.append(parse_xml('<a:endParaRPr xmlns:a="%s" lang="en-US"/>' % A))
                if rnd.random() < 0.5:
                    p_.insert(0, parse_xml('<a:pPr xmlns:a="%s" algn="ctr"/>' % A))
            if kind == "frame_clear":
                tf.clear()
                acc.hit("TextFrame.clear")
                ps = tx.findall("{%s}p" % A)
                content = [c.tag.rsplit("}", 1)[1] for p_ in ps for c in p_ if c.tag.rsplit("}", 1)[1] in ("r", "br", "fld")]
                if len(ps) != 1 or content:
                    acc.violation("api-remove-leaves:p:txBody>a:p", "TextFrame.clear() leaves %d paragraphs holding %s" % (len(ps), content), w)
            else:
                para = rnd.choice(tf.paragraphs)
                keep = [c.tag.rsplit("}", 1)[1] for c in para._p if c.tag.rsplit("}", 1)[1] in ("pPr", "endParaRPr")]
                para.clear()
                acc.hit("_Paragraph.clear")
                left = [c.tag.rsplit("}", 1)[1] for c in para._p]
                if [t for t in left if t in ("r", "br", "fld")]:
                    acc.violation("api-remove-leaves:a:p>a:r/a:br/a:fld", "_Paragraph.clear() leaves %s" % left, w)
                if [t for t in left if t in ("pPr", "endParaRPr")] != keep:
                    acc.violation("api-remove-takes-others:a:p", "_Paragraph.clear() on a paragraph with %s leaves %s" % (keep, left), w)
        acc.count("api_removals_judged")
        acc.case(desc=w, nontrivial=True, cls="api-remover:" + kind)
        sp._element.getparent().remove(sp._element)


def api_switches(seed, acc):
    """'never more than one' at the level of the boolean switches of the API: every has_* / show-like switch assigned the value
    it already has (True twice, False twice, True-False-True) on every chart family - the element it stands for must occur
    at most once in its parent afterwards, and the part must validate as well as before."""
    import pptx
    from lxml import etree
    from pptx.chart.data import CategoryChartData, XyChartData
    from pptx.enum.chart import XL_CHART_TYPE
    from vlib import xsdkit

    def cat():
        d = CategoryChartData()
        d.categories = ["a", "b"]
        d.add_series("s", (1, 2))
        return d

    def xy():
        d = XyChartData()
        s_ = d.add_series("s")
        s_.add_data_point(1, 2)
        return d

    switches = [
        ("Chart.has_legend", lambda ch: ch, "has_legend"),
        ("Chart.has_title", lambda ch: ch, "has_title"),
        ("Plot.has_data_labels", lambda ch: ch.plots[0], "has_data_labels"),
        ("Plot.vary_by_categories", lambda ch: ch.plots[0], "vary_by_categories"),
        ("ValueAxis.has_major_gridlines", lambda ch: ch.value_axis, "has_major_gridlines"),
        ("ValueAxis.has_minor_gridlines", lambda ch: ch.value_axis, "has_minor_gridlines"),
        ("ValueAxis.has_title", lambda ch: ch.value_axis, "has_title"),
        ("CategoryAxis.has_title", lambda ch: ch.category_axis, "has_title"),
        ("CategoryAxis.has_major_gridlines", lambda ch: ch.category_axis, "has_major_gridlines"),
        ("ValueAxis.visible", lambda ch: ch.value_axis, "visible"),
        ("Legend.include_in_layout", lambda ch: (setattr(ch, "has_legend", True), ch.legend)[1], "include_in_layout"),
        ("DataLabel.has_text_frame", lambda ch: ch.plots[0].series[0].points[0].data_label, "has_text_frame"),
        ("ChartTitle.has_text_frame", lambda ch: (setattr(ch, "has_title", True), ch.chart_title)[1], "has_text_frame"),
    ]
    charts = [("COLUMN_CLUSTERED", cat), ("LINE", cat), ("PIE", cat), ("XY_SCATTER", xy), ("AREA", cat), ("RADAR", cat)]
    for ctype, mk in charts:
        for label, get, attr in switches:
            for seq in ((True, True), (False, False), (True, False, True), (False, True, True)):
                prs = pptx.Presentation()
                s = prs.slides.add_slide(prs.slide_layouts[6])
                ch = s.shapes.add_chart(getattr(XL_CHART_TYPE, ctype), 0, 0, 4000000, 3000000, mk()).chart
                w = {"switch": label, "chart": ctype, "seq": list(seq), "seed": seed}
                try:
                    obj = get(ch)
                except Exception:  # noqa  (a pie has no axes)
                    continue
                before, _ = xsdkit.validate_part(ch.part.blob)
                acc.case(desc=w, nontrivial=True, cls="api-switch")
                acc.hit("switch:" + label)
                try:
                    for v in seq:
                        setattr(obj, attr, v)
                except (TypeError, ValueError, NotImplementedError, AttributeError):
                    acc.count("api_switches_not_applicable_here")
                    continue
                acc.count("api_switch_sequences")
                root = ch._chartSpace
                for el in root.iter():
                    if not isinstance(el.tag, str):
                        continue
                    tags = [c.tag for c in el if isinstance(c.tag, str)]
                    for t in set(tags):
                        local = etree.QName(t).localname
                        if tags.count(t) > 1 and local in ("legend", "title", "dLbls", "majorGridlines", "minorGridlines", "varyColors", "delete", "layout", "tx", "rich", "autoTitleDeleted", "overlay"):
                            acc.violation("switch-leaves-duplicate:%s" % local, "%s = %s on a %s chart leaves %d <c:%s> in <c:%s>" % (label, list(seq), ctype, tags.count(t), local, etree.QName(el).localname), w)
                after, _ = xsdkit.validate_part(ch.part.blob)
                if before is not None and after is not None:
                    for m in xsdkit.new_errors(before, after):
                        acc.violation("switch-leaves-invalid:%s" % label, "%s = %s on a %s chart: %s" % (label, list(seq), ctype, str(m)[:200]), w)


def run_unit(unit, tier, seed, acc):
    from vlib import introspect

    if unit.get("kind") == "api_removers":
        return api_removers(unit, seed, acc)
    if unit.get("kind") == "switches":
        return api_switches(seed, acc)

    if unit.get("kind") == "suite":  # the repository's own tests as one more workload for this property's monitor
        from vlib import suite

        return suite.run_suite_unit(ID, acc)
    if unit["kind"] == "online":
        from vlib import histories

        histories.run_online_unit("C10", unit, tier, seed, acc)
        return
    regs = introspect.registrations()
    tags = sorted(regs)
    for i, T in enumerate(tags):
        if i % unit["of"] != unit["shard"]:
            continue
        cls = regs[T]
        decls = introspect.child_decls(cls)
        groups = {}
        for d in decls:
            if d["kind"] == "Choice":
                groups.setdefault(d["group"], []).append(d["tag"])
        acc.count("registered_tags")
        for d in decls:
            if d["tag"] is None:
                acc.count("handwritten_inserters_without_declaration")
                continue
            d["members"] = groups.get(d.get("group"), [])
            acc.count("declarations")
            check_decl(T, cls, d, acc, unit.get("pairwise", False), regs)


def replay(w, acc):
    if "suite_test" in w:
        from vlib import suite

        return suite.replay_suite(w, acc, ID)
    if "api_remover" in w:
        return api_removers({"n": w["i"] + 1}, w["seed"], acc)
    if "switch" in w:
        api_switches(w.get("seed", 0), acc)
        acc.violations[:] = [v for v in acc.violations if v["witness"].get("switch") == w["switch"]]
        return print([(v["key"], v["what"][:300]) for v in acc.violations])
    if "profile" in w:
        from vlib import histories

        return histories.replay_history(dict(w, save_every=7), acc, {"C10"})
    from pptx.oxml import oxml_parser
    from vlib import introspect, xsdkit

    regs = introspect.registrations()
    cls = regs[w["T"]]
    parent = _mk(oxml_parser, w["T"], w["before"])
    fn = getattr(parent, w["method"])
    if w["method"].startswith("_insert_"):
        fn(oxml_parser.makeelement(w["X"]))
    else:
        fn()
    after = [c.tag for c in parent if isinstance(c.tag, str)]
    errs = xsdkit.skeleton_errors(None, w["tau"], child_tags=after)
    print("before:", _p(w["before"]), "\nafter: ", _p(after), "\nerrors:", list(errs))
    if errs:
        acc.violation("misplaced:%s>%s" % (xsdkit.pfx_tag(w["T"]), xsdkit.pfx_tag(w["X"])), list(errs)[0], w)


def finalize(acc, tier, seed):
    if not acc.counters.get("insertions_validated"):
        acc.inconclusive.append("no insertion was validated")
    if not acc.counters.get("triples_checked"):
        acc.inconclusive.append("no (tag,type,child) triple was checked")
    if ONLINE and not acc.counters.get("M-INS:judged"):
        acc.inconclusive.append("online monitor M-INS never judged an insertion")
