"""C06 — shape ids, slide ids, relationship ids and part names are unique and stable.

Addition-only histories (vlib/histories.py, profile 'ids': slides, every shape kind incl. the two
that use the first-gap allocator — groups and freeforms — nested, pictures, charts, movies, notes,
hyperlinks, turbo-add on/off) over start states whose id populations were made adversarial with
lxml before monitoring starts (gaps, ids up to 2^31, duplicates, @id on non-shape elements,
non-numeric @id, slide ids at the upper bound).  Monitors: M-ID postconditions on the real
allocators, and after every operation an id model read from the XML by the harness's own XPath:
no new duplicate shape id, slide ids unique/in range/unchanged, every rId still designating the same
target, part names unique, earlier handles still designating the same content; at each save the
slide part names are slide1..n in presentation order once the slide collection has been accessed.
"""
from __future__ import annotations

ID = "C06"
LEVEL = "exploration"
RULE = (
    "a case = one addition-only history of 15 ops (quick) / 40 (thorough) from an adversarial id state (8 classes, counted "
    "under cases_per_class 'idstate:*'). Non-trivial when >= 4 operations executed and not abandoned; distinct by hash of "
    "(start, id state, executed op list)."
)
ASSUMPTIONS = [
    "ids are read from the XML with XPath by the harness, not through python-pptx's allocators",
    "turbo-add mode is exercised with a single shapes object per slide (its documented caveat concerns several proxies)",
]
WATCHDOG_S = {"quick": 900, "thorough": 5400}


def plan(tier, seed):
    n = 400 if tier == "quick" else 15000
    per = 25 if tier == "quick" else 250
    nops = 15 if tier == "quick" else 40
    return [{"lo": lo, "hi": min(n, lo + per), "nops": nops} for lo in range(0, n, per)] + [{"kind": "suite"}] + [{"kind": "families", "shard": i, "of": 6} for i in range(6)] + [{"kind": "voided"}]


# ---------------------------------------------------------------- part-name allocation under irregular numbering (directed)
FAMILIES = {  # family -> member-name templates that are renumbered together
    "slide": ["/ppt/slides/slide%d.xml"],
    "notesSlide": ["/ppt/notesSlides/notesSlide%d.xml"],
    "chart": ["/ppt/charts/chart%d.xml", "/ppt/embeddings/Microsoft_Excel_Sheet%d.xlsx"],
    "image": ["/ppt/media/image%d.png"],
    "media": ["/ppt/media/media%d.mp4"],
}
PATTERNS = [[2], [5], [1, 3], [2, 3], [3, 1], [1, 2, 4], [1, 3, 2], [2, 4, 6], [1, 2, 3],
            [1, 3, 4, 5, 6, 7, 8, 9, 10, 11],  # two-digit indices with a hole at 2 ("image10" sorts before "image2" as a string)
            [None], [None, 2]]  # a member WITHOUT a number (media.mp4, chart.xml: a singleton named by another producer)


def run_families(unit, acc):
    """'part names are unique in the package' for every numbered part family x every irregular numbering of the members a
    loaded deck already has (a gap below the top, a shifted range, numbers out of creation order, members owned by other
    slides than their number suggests) x three further additions of that family through the public API."""
    import io
    import zipfile
    from collections import Counter

    import pptx
    from pptx.chart.data import CategoryChartData
    from pptx.enum.chart import XL_CHART_TYPE
    from pptx.util import Emu
    from vlib import env, gen, histories, monitors

    monitors.install()

    def add_member(prs, fam, k, rnd):
        """one more member of the family; members made while building go on slides 1.. (slide 0 and new slides get the later ones)"""
        slides = prs.slides
        if fam == "slide":
            return slides.add_slide(prs.slide_layouts[6])
        target = next((s for s in list(slides)[1:] + [slides[0]] if (not s.has_notes_slide if fam == "notesSlide" else len(s.shapes) == 0)), None)
        if target is None:
            target = slides.add_slide(prs.slide_layouts[6])
        if fam == "notesSlide":
            target.notes_slide.notes_text_frame.text = "notes %d" % k
        elif fam == "chart":
            cd = CategoryChartData()
            cd.categories = ["a", "b"]
            cd.add_series("s%d" % k, (k, k + 1))
            target.shapes.add_chart(XL_CHART_TYPE.COLUMN_CLUSTERED, Emu(0), Emu(0), Emu(3000000), Emu(2000000), cd)
        elif fam == "image":
            target.shapes.add_picture(io.BytesIO(gen.png_bytes(rnd)), Emu(0), Emu(0))
        else:
            target.shapes.add_movie(io.BytesIO(b"\x00\x00\x00\x18ftypmp42" + bytes(rnd.randrange(256) for _ in range(40))), Emu(0), Emu(0), Emu(1000000), Emu(800000), mime_type="video/mp4")
        return target

    for fi, fam in enumerate(sorted(FAMILIES)):
        for pi, pat in enumerate(PATTERNS):
            if (fi * len(PATTERNS) + pi) % unit["of"] != unit["shard"]:
                continue
            rnd = env.rng("C06fam", fam, pi)
            wit = {"family": fam, "numbering": pat}
            prs = pptx.Presentation()
            for _ in range(len(pat) + 2 if fam != "slide" else 0):
                prs.slides.add_slide(prs.slide_layouts[6])
            for k in range(len(pat)):
                add_member(prs, fam, k, rnd)
            buf = io.BytesIO()
            prs.save(buf)
            data = buf.getvalue()
            for tmpl in FAMILIES[fam]:
                m1 = {tmpl % (i + 1): tmpl.replace("%d", "tmp%d") % (i + 1) for i in range(len(pat))}
                m2 = {tmpl.replace("%d", "tmp%d") % (i + 1): (tmpl % pat[i] if pat[i] is not None else tmpl.replace("%d", "")) for i in range(len(pat))}
                data = histories.rename_members(histories.rename_members(data, m1), m2)
            before = set(zipfile.ZipFile(io.BytesIO(data)).namelist())
            prs = pptx.Presentation(io.BytesIO(data))
            monitors.SINK.drain()
            if rnd.random() < 0.5 or fam == "slide":
                list(prs.slides)
            ok = True
            for k in range(3):
                try:
                    add_member(prs, fam, 100 + k, rnd)
                except Exception as e:  # noqa
                    acc.violation("family-addition-raises:%s:%s" % (fam, type(e).__name__), "%s numbered %s: addition %d raised %r" % (fam, pat, k + 1, e), wit)
                    ok = False
                    break
                acc.hit("family-addition:" + fam)
                for prop, key, what in monitors.SINK.drain():
                    if prop == "C06":
                        acc.violation(key, "%s | %s numbered %s, addition %d" % (what, fam, pat, k + 1), wit)
                names = Counter(str(p.partname) for p in prs.part.package.iter_parts())
                for n_, c_ in names.items():
                    if c_ > 1:
                        acc.violation("duplicate-partname", "%s numbered %s: after addition %d, %d parts are named %s" % (fam, pat, k + 1, c_, n_), wit)
            if ok:
                out = io.BytesIO()
                prs.save(out)
                nl = zipfile.ZipFile(io.BytesIO(out.getvalue())).namelist()
                for n_, c_ in Counter(nl).items():
                    if c_ > 1:
                        acc.violation("duplicate-partname:saved", "%s numbered %s: the saved zip holds %s %d times" % (fam, pat, n_, c_), wit)
                fam_members = [n_ for n_ in set(nl) if any(n_.startswith(t[1:].split("%d")[0]) and n_.endswith(t.split("%d")[1]) for t in FAMILIES[fam][:1])]
                acc.count("family_saves_checked")
                if len(fam_members) != len(pat) + 3:
                    acc.violation("family-member-count:" + fam, "%s numbered %s + 3 additions: the saved zip holds %d members of the family (%s)" % (fam, pat, len(fam_members), sorted(fam_members)[:8]), wit)
            acc.case(desc=wit, nontrivial=pat != list(range(1, len(pat) + 1)), cls="family:" + fam)
    if unit["shard"] == 0:
        # one more irregular deck: the notes master is referred to by the notes slides only (the presentation part's own
        # reference is gone); a further notes slide is then created
        from props import c12

        prs = pptx.Presentation()
        for _ in range(2):
            prs.slides.add_slide(prs.slide_layouts[6])
        prs.slides[0].notes_slide.notes_text_frame.text = "n"
        buf = io.BytesIO()
        prs.save(buf)
        prs = pptx.Presentation(io.BytesIO(c12.strip_notes_master_ref(buf.getvalue())))
        wit = {"family": "notesMaster", "numbering": "unreferenced-by-presentation"}
        try:
            _ = prs.slides[1].notes_slide
            out = io.BytesIO()
            prs.save(out)
            dup = [n_ for n_, c_ in Counter(zipfile.ZipFile(io.BytesIO(out.getvalue())).namelist()).items() if c_ > 1]
            if dup:
                acc.violation("notes-master-duplicated:presentation-does-not-refer-to-it", "a second /ppt/notesMasters/notesMaster1.xml is created beside the one the notes slides refer to; saved zip holds %s twice" % dup[:2], wit)
        except Exception as e:  # noqa
            acc.violation("family-addition-raises:notesMaster:%s" % type(e).__name__, "notes slide on a deck whose presentation part does not refer to its notes master: %r" % e, wit)
        acc.case(desc=wit, nontrivial=True, cls="family:notesMaster")
    for k, v in monitors.SINK.counters.items():
        acc.counters[k] = acc.counters.get(k, 0) + v
    monitors.SINK.counters.clear()


def run_voided(unit, seed, acc):
    """'rIds unique per source part' where the XML still mentions an rId the package no longer has a relationship for (a
    plug-in pointed an image's Target at a part that is not there; python-pptx drops such a relationship when it loads): for
    each position of the voided relationship among a slide's and for four kinds of further relationship, the ids handed out
    must differ from every id the slide's XML refers to, resolvable or not."""
    import io
    import zipfile

    import pptx
    from lxml import etree
    from vlib import env, gen, opcx

    R = "{http://schemas.openxmlformats.org/officeDocument/2006/relationships}"
    rnd = env.rng("C06", "voided", seed)
    # (image ids..., id of the slide's layout relationship): gaps, ids out of order, rId1 free below a dense block
    numberings = ((2, 3, 4, 1), (2, 5, 9, 1), (5, 2, 9, 1), (9, 7, 5, 1), (3, 4, 5, 1), (2, 3, 4, 5), (3, 4, 5, 2), (1, 2, 3, 4))
    for which, numbering in [(w_, n_) for w_ in (0, 1, 2, None) for n_ in numberings]:
        for later in ("picture", "hyperlink", "chart", "movie"):
            prs = pptx.Presentation()
            s = prs.slides.add_slide(prs.slide_layouts[6])
            for _ in range(3):
                s.shapes.add_picture(io.BytesIO(gen.png_bytes(rnd)), 0, 0)
            buf = io.BytesIO()
            prs.save(buf)
            pk = opcx.Pkg.from_bytes(buf.getvalue())
            out = dict(pk.members)
            name = "ppt/slides/_rels/slide1.xml.rels"
            root = etree.fromstring(out[name], opcx.PLAIN)
            imgs = sorted((r_ for r_ in root if r_.get("Type", "").endswith("/image")), key=lambda r_: r_.get("Id"))
            if which is not None:
                imgs[which].set("Target", "../media/NULL")
            lay = next(r_ for r_ in root if r_.get("Type", "").endswith("/slideLayout"))
            lay.set("Id", "rIdL")
            # the three image relationships numbered as another producer might have numbered them (gaps, not in order)
            sx = out["ppt/slides/slide1.xml"]
            for r_, num in zip(imgs, numbering):
                sx = sx.replace(b'r:embed="%s"' % r_.get("Id").encode(), b'r:embed="tmp%d"' % num)
                r_.set("Id", "rId%d" % num)
            out["ppt/slides/slide1.xml"] = sx.replace(b'r:embed="tmp', b'r:embed="rId')
            lay.set("Id", "rId%d" % numbering[3])
            out[name] = etree.tostring(root, xml_declaration=True, encoding="UTF-8", standalone=True)
            buf = io.BytesIO()
            with zipfile.ZipFile(buf, "w", zipfile.ZIP_DEFLATED) as zf:
                for n_, b_ in out.items():
                    zf.writestr(n_, b_)
            prs = pptx.Presentation(io.BytesIO(buf.getvalue()))
            s = prs.slides[0]
            wit = {"voided": which, "numbering": list(numbering), "later": later, "seed": seed}
            acc.case(desc=("voided", which, numbering, later), nontrivial=True, cls="voided-rId")
            for k in range(3):
                mentioned = {v for el in s._element.iter() if isinstance(el.tag, str) for a, v in el.attrib.items() if a.startswith(R)}
                before = set(s.part.rels.keys())
                held = {k_: (r_.reltype, r_.target_ref if r_.is_external else r_.target_part) for k_, r_ in s.part.rels.items()}
                try:
                    if later == "picture":
                        s.shapes.add_picture(io.BytesIO(gen.png_bytes(rnd)), 0, 0)
                    elif later == "hyperlink":
                        r_ = s.shapes.add_textbox(0, 0, 914400, 914400).text_frame.paragraphs[0].add_run()
                        r_.text = "x"
                        r_.hyperlink.address = "http://voided.example/%d" % k
                    elif later == "chart":
                        from pptx.chart.data import CategoryChartData
                        from pptx.enum.chart import XL_CHART_TYPE

                        cd = CategoryChartData()
                        cd.categories = ["a"]
                        cd.add_series("s", (1,))
                        s.shapes.add_chart(XL_CHART_TYPE.PIE, 0, 0, 914400, 914400, cd)
                    else:
                        s.shapes.add_movie(io.BytesIO(b"movie %d" % k), 0, 0, 914400, 914400, mime_type="video/mp4")
                except Exception as e:  # noqa
                    acc.violation("voided:addition-raises:%s:%s" % (later, type(e).__name__), "adding a %s to a slide with a voided relationship raised %r" % (later, e), wit)
                    break
                new = set(s.part.rels.keys()) - before
                changed = sorted(k_ for k_, v_ in held.items() if k_ not in s.part.rels or (s.part.rels[k_].reltype, s.part.rels[k_].target_ref if s.part.rels[k_].is_external else s.part.rels[k_].target_part) != v_)
                if changed:
                    acc.violation("rId-in-use", "%s added to a slide whose relationships are numbered %s: relationship(s) %s that were there now designate something else (their id was handed out again)" % (later, sorted(before), changed), wit)
                    break
                acc.count("relationship_ids_handed_out_beside_a_voided_one", len(new))
                clash = sorted(new & mentioned)
                if clash:
                    acc.violation("rId-reassigned-while-in-use:was-unresolved", "%s added to a slide whose XML mentions %s (relationship %d of 3 voided in the input): the new relationship was given %s" % (later, sorted(mentioned), which, clash), wit)
                    break


def run_unit(unit, tier, seed, acc):
    from vlib import histories

    if unit.get("kind") == "voided":
        return run_voided(unit, seed, acc)

    if unit.get("kind") == "families":
        return run_families(unit, acc)

    if unit.get("kind") == "suite":  # the repository's own tests as one more workload for this property's monitor
        from vlib import suite

        return suite.run_suite_unit(ID, acc)

    histories.run_histories("ids", {"C06"}, unit, tier, seed, acc, save_every=5)


def replay(w, acc):
    from vlib import histories

    if "suite_test" in w:
        from vlib import suite

        return suite.replay_suite(w, acc, ID)
    if "voided" in w:
        run_voided({}, w.get("seed", 0), acc)
        print([(v["key"], v["what"][:300]) for v in acc.violations])
        return
    if "family" in w:
        fi, pi = sorted(FAMILIES).index(w["family"]), PATTERNS.index(w["numbering"])
        run_families({"shard": fi * len(PATTERNS) + pi, "of": 10**6}, acc)
        print([(v["key"], v["what"][:300]) for v in acc.violations])
        return

    histories.replay_history(dict(w, save_every=5), acc, {"C06"})
    print([(v["key"], v["what"][:300]) for v in acc.violations])


def finalize(acc, tier, seed):
    c = acc.counters
    for need in ("shape_id_sets_checked", "slide_id_lists_checked", "relationship_maps_checked", "M-ID:_BaseShapes._next_shape_id", "M-ID:CT_GroupShape._next_shape_id", "M-ID:_Relationships._next_rId"):
        if not c.get(need):
            acc.inconclusive.append("monitor never reached: " + need)
