"""C06 — shape ids, slide ids, relationship ids and part names are unique and stable.

Addition-only histories (vlib/histories.py, profile 'ids': slides, every shape kind incl. the two
that use the first-gap allocator — groups and freeforms — nested, pictures, charts, movies, notes,
hyperlinks, turbo-add on/off) over start states whose id populations were made adversarial with
lxml before monitoring starts (gaps, ids up to 2^31, duplicates, @id on non-shape elements,
non-numeric @id, slide ids at the upper bound).  Monitors: M-ID postconditions on the real
allocators, and after every operation an id model read from the XML by the harness's own XPath:
no new duplicate shape id, slide ids unique/in range/unchanged, every rId still designating the same
target, part names unique, earlier handles still designating the same content; at each save the
slide part names are slide1..n in presentation order once the slide collection has been accessed.
"""
from __future__ import annotations

ID = "C06"
LEVEL = "exploration"
RULE = (
    "a case = one addition-only history of 15 ops (quick) / 40 (thorough) from an adversarial id state (8 classes, counted "
    "under cases_per_class 'idstate:*'). Non-trivial when >= 4 operations executed and not abandoned; distinct by hash of "
    "(start, id state, executed op list)."
)
ASSUMPTIONS = [
    "ids are read from the XML with XPath by the harness, not through python-pptx's allocators",
    "turbo-add mode is exercised with a single shapes object per slide (its documented caveat concerns several proxies)",
]
WATCHDOG_S = {"quick": 900, "thorough": 5400}


def plan(tier, seed):
    n = 400 if tier == "quick" else 15000
    per = 25 if tier == "quick" else 250
    nops = 15 if tier == "quick" else 40
    return [{"lo": lo, "hi": min(n, lo + per), "nops": nops} for lo in range(0, n, per)] + [{"kind": "suite"}]


def run_unit(unit, tier, seed, acc):
    from vlib import histories

    if unit.get("kind") == "suite":  # the repository's own tests as one more workload for this property's monitor
        from vlib import suite

        return suite.run_suite_unit(ID, acc)

    histories.run_histories("ids", {"C06"}, unit, tier, seed, acc, save_every=5)


def replay(w, acc):
    from vlib import histories

    if "suite_test" in w:
        from vlib import suite

        return suite.replay_suite(w, acc, ID)

    histories.replay_history(dict(w, save_every=5), acc, {"C06"})
    print([(v["key"], v["what"][:300]) for v in acc.violations])


def finalize(acc, tier, seed):
    c = acc.counters
    for need in ("shape_id_sets_checked", "slide_id_lists_checked", "relationship_maps_checked", "M-ID:_BaseShapes._next_shape_id", "M-ID:CT_GroupShape._next_shape_id", "M-ID:_Relationships._next_rId"):
        if not c.get(need):
            acc.inconclusive.append("monitor never reached: " + need)
