"""C13 — a new slide mirrors its layout's placeholders and inherits their geometry.

Workload: (a) every layout of every corpus deck and of the default template; (b) generated layouts:
the layout's p:spTree is rewritten in memory (0-12 placeholders of the 14 types PowerPoint puts on
layouts, duplicate types, duplicate/missing idx, vert, sz, with/without a:xfrm, p:pic and
p:graphicFrame placeholders, colliding names; optionally the master loses a placeholder or its
a:xfrm) and discarded when libxml2 rejects the rewritten part; (c) histories: further additions from
the same/other layouts, geometry overrides, textboxes, re-cloning onto a slide that holds a colliding
name, notes-slide creation.
Oracle: the harness's own XPath on the slide/layout/master XML (never the placeholder proxies) gives
the expected ordered placeholder list and the expected left/top/width/height of every placeholder
(own a:xfrm, else first layout placeholder with that idx, else master placeholder of the mapped
type, else None); vlib.opcx reads the saved package for slide order, the slideLayout relationship and
the notes slide / notes master; part blobs of the other slides are compared before/after; the new
parts are validated against the shipped XSDs.
"""
from __future__ import annotations

import io
import os
import re
from collections import Counter

ID = "C13"
LEVEL = "exploration"
EXHAUSTIVE = False
RULE = (
    "corpus: every (deck, master, layout) incl. the default template, quick = add + notes, thorough = 6 seeded histories each; "
    "generated: seeded placeholder populations written into a layout of the default template (60%) or a corpus deck, each with a "
    "seeded history (add-same, add-other, override left/top or left only, textbox, re-clone after a colliding rename, notes). "
    "Non-trivial: the layout has >= 2 placeholders and a latent type (dt/ftr/sldNum), a placeholder without a:xfrm or a duplicate "
    "type/idx. Distinct by (layout placeholder signature, master edit, history operations)."
)
ASSUMPTIONS = [
    "expected values are read with the harness's XPath from the in-memory layout/master elements python-pptx itself reads, and from the saved package through vlib.opcx",
    "a slide placeholder's layout counterpart is the FIRST layout placeholder with the same idx (documented in LayoutPlaceholders.get); with duplicate idx that is the only defined reading",
    "master type mapping as documented in LayoutPlaceholder._base_placeholder: title/ctrTitle -> title, dt/ftr/sldNum -> same type, every other layout type -> body",
    "p:pic / p:graphicFrame placeholders on generated layouts always carry an explicit xfrm (PowerPoint always writes one; p:graphicFrame requires it)",
    "part identity in the saved package is by partname (slide.part.partname / layout.part.partname)",
]
WATCHDOG_S = {"quick": 300, "thorough": 1800}

NS = {
    "p": "http://schemas.openxmlformats.org/presentationml/2006/main",
    "a": "http://schemas.openxmlformats.org/drawingml/2006/main",
    "r": "http://schemas.openxmlformats.org/officeDocument/2006/relationships",
}
RT = "http://schemas.openxmlformats.org/officeDocument/2006/relationships/"
FIELDS = ("left", "top", "width", "height")
LATENT = ("dt", "ftr", "sldNum")
NOTES_CLONED = ("sldImg", "body", "sldNum")
LAYOUT_TYPES = ["title", "ctrTitle", "subTitle", "body", None, "obj", "chart", "tbl", "clipArt", "dgm", "media", "pic", "dt", "ftr", "sldNum", "hdr", "sldImg"]
# (hdr and sldImg are the notes-page types: schema-valid on a slide layout all the same.  They used to be kept away - sldImg not
# generated, hdr only with a full a:xfrm of its own - because add_slide / the geometry readers raised KeyError for them: that was
# the defect repaired in /repo 8b329174 ("placeholder types hdr and sldImg"), not a reason to narrow the generator.  A slide master
# has no counterpart for them: what the layout does not give reads None.)
NO_MASTER_COUNTERPART = ()
MASTER_OF = dict({t: "body" for t in ("body", "subTitle", "obj", "chart", "tbl", "clipArt", "dgm", "media", "pic")}, title="title", ctrTitle="title", dt="dt", ftr="ftr", sldNum="sldNum")
BASENAME = {  # documented in _BaseShapes.ph_basename; only used to provoke name collisions
    "clipArt": "ClipArt Placeholder", "body": "Text Placeholder", "ctrTitle": "Title", "chart": "Chart Placeholder", "media": "Media Placeholder",
    "obj": "Content Placeholder", "dgm": "SmartArt Placeholder", "pic": "Picture Placeholder", "subTitle": "Subtitle", "tbl": "Table Placeholder", "title": "Title",
}
_XP = {}


def xp(el, path):
    """Plain lxml XPath with the harness's namespace map (python-pptx overrides .xpath on its elements)."""
    from lxml import etree

    if path not in _XP:
        _XP[path] = etree.XPath(path, namespaces=NS)
    return _XP[path](el)


# ------------------------------------------------------------------ reference model (own XPath)
def ph_records(root):
    """Placeholder shapes (p:sp / p:pic / p:graphicFrame children of the spTree carrying p:ph), document order."""
    out = []
    for sh in xp(root, "./p:cSld/p:spTree/*[self::p:sp or self::p:pic or self::p:graphicFrame][./*[1]/p:nvPr/p:ph]"):
        ph = xp(sh, "./*[1]/p:nvPr/p:ph")[0]
        xf = xp(sh, "./p:spPr/a:xfrm | ./p:xfrm")
        geom = dict.fromkeys(FIELDS)
        for f, q in zip(FIELDS, ("./a:off/@x", "./a:off/@y", "./a:ext/@cx", "./a:ext/@cy")):
            v = xp(xf[0], q) if xf else []
            geom[f] = int(v[0]) if v else None
        out.append(
            {
                "el": sh.tag.split("}")[1], "type": ph.get("type", "obj"), "idx": int(ph.get("idx", "0")), "orient": ph.get("orient", "horz"),
                "sz": ph.get("sz", "full"), "id": xp(sh, "./*[1]/p:cNvPr/@id")[0], "name": xp(sh, "./*[1]/p:cNvPr/@name")[0], "geom": geom,
            }
        )
    return out


def sig(r):
    return (r["type"], r["idx"], r["orient"], r["sz"])


def expected_geometry(rec, lay_recs, mas_recs):
    """{field: (value, source)}: own xfrm, else first layout placeholder with the idx, else master placeholder of the mapped type."""
    lay = next((l for l in lay_recs if l["idx"] == rec["idx"]), None)
    mas = None if lay is None else next((m for m in mas_recs if m["type"] == MASTER_OF.get(lay["type"])), None)
    out = {}
    for f in FIELDS:
        out[f] = (None, "none")
        for src, r in (("slide", rec), ("layout", lay), ("master", mas)):
            if r is not None and r["geom"][f] is not None:
                out[f] = (r["geom"][f], src)
                break
    return out


def diff(want, got):
    """Mechanism names [(what, detail)] for two ordered lists of (type, idx, orient, sz)."""
    if want == got:
        return []
    cw, cg = Counter(want), Counter(got)
    if cw == cg:
        return [("order", "%s -> %s" % (want, got))]
    if len(want) == len(got):
        out = []
        for w, g in zip(want, got):
            if w != g:
                a = next(n for n, x, y in zip(("type", "idx", "orient", "sz"), w, g) if x != y)
                out.append(("attr:" + a, "%s -> %s" % (w, g)))
        return out
    return [("missing", s) for s in (cw - cg).elements()] + [("extra", s) for s in (cg - cw).elements()]


def msg_class(m):
    return re.sub(r"\d+", "N", m)[:110]


# ------------------------------------------------------------------ generator
def gen_population(rnd):
    pop = []
    for k in range(rnd.choice([0, 1, 2, 2, 3, 3, 4, 4, 5, 6, 8, 12])):
        t = rnd.choice(LAYOUT_TYPES) if not pop or rnd.random() > 0.25 else rnd.choice(pop)["type"]
        how = rnd.random()
        if how < 0.55:
            idx = 10 + k + rnd.choice([0, 0, 7, 100])
        elif how < 0.70:
            idx = None
        elif how < 0.85 and pop:
            idx = rnd.choice(pop)["idx"]
        else:
            idx = rnd.choice([0, 1, 4294967295, rnd.randrange(1, 1 << 20)])
        el = "sp" if rnd.random() < 0.85 else rnd.choice(["pic", "graphicFrame"])
        base = BASENAME.get(t or "obj", "Date Placeholder")
        pop.append(
            {
                "el": el, "type": t, "idx": idx, "orient": rnd.choice([None, None, None, "vert", "horz"]), "sz": rnd.choice([None, None, "full", "half", "quarter"]),
                "xfrm": "full" if (el != "sp" or t in NO_MASTER_COUNTERPART) else rnd.choice(["full", "full", "full", "none", "none", "off", "ext"]),
                "geom": [rnd.randrange(0, 9000000), rnd.randrange(0, 6000000), rnd.randrange(0, 9000000), rnd.randrange(0, 6000000)],
                "name": rnd.choice(["Title 1", "Content Placeholder 2", "%s %d" % (base, k + 1), "%s %d" % (base, k + 2), "Shape %d" % k, ""]),
            }
        )
    return pop


def gen_steps(rnd):
    steps = []
    for _ in range(rnd.choice([0, 1, 2, 3, 3, 5])):
        op = rnd.choice(["add-same", "add-other", "override", "override", "textbox", "reclone", "notes", "layout-add", "notes-old"])
        st = {"op": op, "slide": rnd.randrange(8)}
        if op == "layout-add":  # the layout itself is edited between two additions; the next slide must mirror it as it is then
            steps.append(st)
            st = {"op": "add-same", "slide": 0}
        if op == "add-other":
            st.update(master=rnd.randrange(4), layout=rnd.randrange(32))
        if op == "override":
            st.update(ph=rnd.randrange(12), mode=rnd.choice(["both", "both", "left"]), left=rnd.choice([0, rnd.randrange(1, 9000000)]), top=rnd.choice([0, rnd.randrange(1, 6000000)]))
        steps.append(st)
    if rnd.random() < 0.3:
        steps.append({"op": "notes", "slide": rnd.randrange(8)})
    return steps


def gen_case(rnd, decks):
    return {
        "deck": "default" if rnd.random() < 0.6 else rnd.choice(decks), "master": rnd.randrange(4), "layout": rnd.randrange(32), "population": gen_population(rnd),
        "master_edit": rnd.choice([None] * 6 + ["drop:body", "drop:title", "noxfrm:body", "noxfrm:title", "drop:sldNum"]), "steps": gen_steps(rnd),
        "notes_master_edit": rnd.random() < 0.3,
    }


def shape_xml(k, d):
    from xml.sax.saxutils import quoteattr

    ns = " ".join('xmlns:%s="%s"' % kv for kv in NS.items())
    ph = "<p:ph%s/>" % "".join(' %s="%s"' % (a, d[a]) for a in ("type", "orient", "sz", "idx") if d[a] is not None)
    x, y, cx, cy = d["geom"]
    inner = ('<a:off x="%d" y="%d"/>' % (x, y) if d["xfrm"] in ("full", "off") else "") + ('<a:ext cx="%d" cy="%d"/>' % (cx, cy) if d["xfrm"] in ("full", "ext") else "")
    nv = "<p:cNvPr id=\"%d\" name=%s/>" % (k + 2, quoteattr(d["name"]))
    if d["el"] == "sp":
        xfrm = "" if d["xfrm"] == "none" else "<a:xfrm>%s</a:xfrm>" % inner
        return '<p:sp %s><p:nvSpPr>%s<p:cNvSpPr><a:spLocks noGrp="1"/></p:cNvSpPr><p:nvPr>%s</p:nvPr></p:nvSpPr><p:spPr>%s</p:spPr><p:txBody><a:bodyPr/><a:lstStyle/><a:p/></p:txBody></p:sp>' % (ns, nv, ph, xfrm)
    if d["el"] == "pic":
        return "<p:pic %s><p:nvPicPr>%s<p:cNvPicPr/><p:nvPr>%s</p:nvPr></p:nvPicPr><p:blipFill/><p:spPr><a:xfrm>%s</a:xfrm></p:spPr></p:pic>" % (ns, nv, ph, inner)
    return (
        "<p:graphicFrame %s><p:nvGraphicFramePr>%s<p:cNvGraphicFramePr/><p:nvPr>%s</p:nvPr></p:nvGraphicFramePr><p:xfrm>%s</p:xfrm><a:graphic>"
        '<a:graphicData uri="http://schemas.openxmlformats.org/drawingml/2006/table"><a:tbl><a:tblGrid/></a:tbl></a:graphicData></a:graphic></p:graphicFrame>' % (ns, nv, ph, inner)
    )


def rewrite(layout, master, case):
    """Write the population into the layout's spTree (and edit the master); False when libxml2 rejects the result."""
    from pptx.oxml import parse_xml  # python-pptx's lxml parser, so the new nodes get its element classes
    from vlib import xsdkit

    tree = xp(layout._element, "./p:cSld/p:spTree")[0]
    for ch in list(tree):
        if ch.tag.split("}")[1] not in ("nvGrpSpPr", "grpSpPr", "extLst"):
            tree.remove(ch)
    anchor = (xp(tree, "./p:extLst") or [None])[0]
    for k, d in enumerate(case["population"]):
        el = parse_xml(shape_xml(k, d))
        anchor.addprevious(el) if anchor is not None else tree.append(el)
    if case.get("master_edit"):
        op, t = case["master_edit"].split(":")
        hit = xp(master._element, "./p:cSld/p:spTree/p:sp[p:nvSpPr/p:nvPr/p:ph/@type='%s']" % t)
        if hit and op == "drop":
            hit[0].getparent().remove(hit[0])
        elif hit:
            for xf in xp(hit[0], "./p:spPr/a:xfrm"):
                xf.getparent().remove(xf)
    return all(not xsdkit.validate_part(part.blob)[0] for part in (layout.part, master.part))


# ------------------------------------------------------------------ running one case
class Ctx:
    def __init__(self, acc, case):
        self.acc, self.case, self.added, self.prs, self.masters = acc, case, [], None, []

    def bad(self, key, what):
        self.acc.violation(key, "%s m%s/l%s: %s" % (self.case["deck"], self.case["master"], self.case["layout"], what), self.case)

    def api(self, key, fn, *a):
        """Call python-pptx; an exception there is a violation of mechanism `key`, never a harness failure."""
        try:
            return True, fn(*a)
        except Exception as e:  # noqa
            self.bad("%s:%s" % (key, type(e).__name__), "%r" % (e,))
            return False, None


def check_unique(ctx, root, prefix, where):
    names = xp(root, "//p:cNvPr/@name")
    ids = xp(root, "//p:cNvPr/@id")
    dn = [n for n, c in Counter(names).items() if c > 1]
    di = [n for n, c in Counter(ids).items() if c > 1]
    if dn:
        ctx.bad(prefix + "duplicate-name", "%s: name(s) %s used more than once" % (where, dn[:3]))
    if di:
        ctx.bad(prefix + "duplicate-shape-id", "%s: id(s) %s used more than once" % (where, di[:3]))


def check_cloned(ctx, e, want, new_recs, where):
    """want = layout records that must have been cloned, new_recs = what appeared on the slide."""
    acc = ctx.acc
    acc.count("placeholders_compared", len(want))
    acc.hit("_next_ph_name", len(new_recs))
    for what, detail in diff([sig(r) for r in want], [sig(r) for r in new_recs]):
        if what == "extra" and detail[0] in LATENT:
            ctx.bad("latent-cloned:%s" % detail[0], "%s: latent layout placeholder %s was cloned" % (where, detail))
        else:
            ctx.bad("placeholders-differ:%s" % what, "%s: (type, idx, orient, sz) %s" % (where, detail))
    check_unique(ctx, e["slide"]._element, "", where)
    for r in new_recs:
        base = BASENAME.get(r["type"])
        if base and r["name"] != "%s%s %d" % ("Vertical " if r["orient"] == "vert" else "", base, int(r["id"]) - 1):
            acc.hit("_next_ph_name:number-bumped-to-stay-unique")
        e["expect"][r["id"]] = expected_geometry(r, e["lay_recs"], e["mas_recs"])
    e["sigs"] = [sig(r) for r in ph_records(e["slide"]._element)]


def verify(ctx, where):
    """Every added slide still has its placeholders and each reports the expected (inherited or overridden) geometry."""
    acc = ctx.acc
    for n, e in enumerate(ctx.added):
        if [sig(r) for r in ph_records(e["slide"]._element)] != e["sigs"]:
            ctx.bad("other-slide-changed", "%s: placeholders of added slide #%d changed" % (where, n))
        ok, phs = ctx.api("geometry:enumerate", lambda: list(e["slide"].placeholders))
        if not ok:
            continue
        if sorted(str(p.shape_id) for p in phs) != sorted(e["expect"]):
            ctx.bad("placeholders-differ:api", "%s: slide.placeholders yields shape ids %s, XML has %s" % (where, [p.shape_id for p in phs], sorted(e["expect"])))
            continue
        for p in phs:
            for f in FIELDS:
                want, src = e["expect"][str(p.shape_id)][f]
                try:
                    got = getattr(p, f)
                except Exception as ex:  # noqa
                    ctx.bad("geometry:%s:%s" % (src, f), "%s: reading .%s of placeholder idx %s raised %r" % (where, f, p.placeholder_format.idx, ex))
                    continue
                acc.count("geometry_compared_source_" + src)
                acc.hit("inherited-geometry:" + src)
                if got != want:
                    ctx.bad("geometry:%s:%s" % (src, f), "%s: added slide #%d placeholder idx %d %s is %s, %s gives %s" % (where, n, p.placeholder_format.idx, f, got, src, want))


def get_layout(ctx, mi, li):
    m = ctx.masters[mi % len(ctx.masters)]
    lays = list(m.slide_layouts)
    return (m, lays[li % len(lays)]) if lays else (m, None)


def add_slide(ctx, master, layout, where):
    from vlib import xsdkit

    acc, prs = ctx.acc, ctx.prs
    ok, before = ctx.api("slides-raises", lambda: [(s.part, s.part.blob) for s in prs.slides])  # "any deck": its slides can be listed
    if not ok:
        return
    lay_recs, mas_recs = ph_records(layout._element), ph_records(master._element)
    ok, slide = ctx.api("add_slide-raises", prs.slides.add_slide, layout)
    if not ok:
        return
    acc.count("slides_added")
    for h in ("add_slide", "clone_layout_placeholders", "iter_cloneable_placeholders"):
        acc.hit(h)
    if any(l["type"] in LATENT for l in lay_recs):
        acc.hit("iter_cloneable_placeholders:latent-present")
    e = {"slide": slide, "layout": layout, "lay_recs": lay_recs, "mas_recs": mas_recs, "expect": {}, "sigs": [], "notes": None}
    check_cloned(ctx, e, [l for l in lay_recs if l["type"] not in LATENT], ph_records(slide._element), where)
    ctx.added.append(e)
    # last in presentation order (own XPath on presentation.xml + the collection), related to the layout
    rids = xp(prs.part._element, "./p:sldIdLst/p:sldId/@r:id")
    ok, last = ctx.api("not-last", lambda: (prs.part.related_part(rids[-1]), prs.slides[len(before)].part, len(prs.slides)))
    if ok and not (last[0] is slide.part and last[1] is slide.part and last[2] == len(before) + 1 == len(rids)):
        ctx.bad("not-last", "%s: new slide is not the last p:sldId / last item of prs.slides (%d slides before)" % (where, len(before)))
    ok, lp = ctx.api("layout-relationship", lambda: slide.slide_layout.part)
    if ok and lp is not layout.part:
        ctx.bad("layout-relationship", "%s: slide.slide_layout is %s, added from %s" % (where, lp.partname, layout.part.partname))
    for part, blob in before:
        if part.blob != blob:
            ctx.bad("other-slide-changed", "%s: bytes of %s changed by add_slide" % (where, part.partname))
    acc.count("other_slide_blobs_compared", len(before))
    errs, _ = xsdkit.validate_part(slide.part.blob)
    acc.count("new_slides_validated")
    for m in xsdkit.new_errors(ctx.baseline, errs or Counter()):
        ctx.bad("invalid-xml:" + msg_class(m), "%s: new slide: %s" % (where, m))
    verify(ctx, where)
    return e


def do_step(ctx, st, where):
    from pptx.util import Emu

    acc = ctx.acc
    op = st["op"]
    e = ctx.added[st["slide"] % len(ctx.added)] if ctx.added else None
    if op == "add-same":
        add_slide(ctx, ctx.master, ctx.layout, where)
    elif op == "add-other":
        m, lay = get_layout(ctx, st["master"], st["layout"])
        if lay is not None:
            add_slide(ctx, m, lay, where)
    elif op == "layout-add":
        # "other edits": a further placeholder is put on the layout (a copy of one of its non-latent placeholders under a new
        # idx, id and name), with lxml - slides added before keep what they have, slides added afterwards must get it too
        import copy

        lay = ctx.layout._element
        cands = [sp for sp in xp(lay, "./p:cSld/p:spTree/p:sp[p:nvSpPr/p:nvPr/p:ph]") if (xp(sp, "./p:nvSpPr/p:nvPr/p:ph/@type") or ["obj"])[0] not in LATENT]
        if not cands:
            return
        new = copy.deepcopy(cands[st["slide"] % len(cands)])
        ids = [int(i) for i in xp(lay, "//p:cNvPr/@id") if i.isdigit()]
        idxs = [int(i) for i in xp(lay, "//p:ph/@idx") if i.isdigit()]
        c = xp(new, "./p:nvSpPr/p:cNvPr")[0]
        c.set("id", str(max(ids) + 1))
        c.set("name", "Added Placeholder %d" % (max(ids) + 1))
        xp(new, "./p:nvSpPr/p:nvPr/p:ph")[0].set("idx", str(next(i for i in range(10, 10 + len(idxs) + 2) if i not in idxs)))
        cands[-1].addnext(new)
        acc.count("layout_placeholders_added_between_additions")
        return
    elif e is None:
        return
    elif op == "textbox":
        ctx.api("add_textbox-raises", e["slide"].shapes.add_textbox, Emu(10), Emu(20), Emu(300000), Emu(200000))
        check_unique(ctx, e["slide"]._element, "", where)
    elif op == "override":
        ok, phs = ctx.api("geometry:enumerate", lambda: list(e["slide"].placeholders))
        if not ok or not phs:
            return
        p = phs[st["ph"] % len(phs)]
        exp = e["expect"][str(p.shape_id)]
        vals = {"left": st["left"], "top": st["top"]} if st["mode"] == "both" else {"left": st["left"]}
        for f, v in vals.items():
            ctx.api("geometry:override:" + f, setattr, p, f, Emu(v))
        acc.count("overrides_" + st["mode"])
        for f in FIELDS:
            want = vals.get(f, exp[f][0])
            ok, got = ctx.api("geometry:override:" + f, getattr, p, f)
            if ok and f not in vals and want is None:
                acc.count("partial_override_of_field_without_inherited_value")  # a:off/a:ext need both attributes: nothing to preserve
            elif ok and got != want:
                key = "geometry:override:%s" % f if f in vals else "geometry:partial-override:%s" % f
                ctx.bad(key, "%s: after setting %s, .%s reads %s, expected %s (%s)" % (where, sorted(vals), f, got, want, "the value set" if f in vals else "still inherited from " + exp[f][1]))
        rec = next(r for r in ph_records(e["slide"]._element) if r["id"] == str(p.shape_id))
        e["expect"][rec["id"]] = expected_geometry(rec, e["lay_recs"], e["mas_recs"])  # from here on the slide's own a:xfrm rules
    elif op == "reclone":
        e["lay_recs"] = ph_records(e["layout"]._element)  # the layout as it is now (a 'layout-add' step may have extended it)
        want = [l for l in e["lay_recs"] if l["type"] not in LATENT]
        ok, tb = ctx.api("add_textbox-raises", e["slide"].shapes.add_textbox, Emu(0), Emu(0), Emu(1000), Emu(1000))
        if not ok:
            return
        maxid = max(int(i) for i in xp(e["slide"]._element, "//@id") if i.isdigit())
        if want and want[0]["type"] in BASENAME:  # the name the first clone would get: "<base> <new id - 1>"
            tb.name = "%s%s %d" % ("Vertical " if want[0]["orient"] == "vert" else "", BASENAME[want[0]["type"]], maxid)
        n0 = len(ph_records(e["slide"]._element))
        ok, _ = ctx.api("clone_layout_placeholders-raises", e["slide"].shapes.clone_layout_placeholders, e["layout"])
        if ok:
            acc.hit("clone_layout_placeholders:onto-populated-slide")
            check_cloned(ctx, e, want, ph_records(e["slide"]._element)[n0:], where + " (re-clone)")
    elif op == "notes-old":
        # "notes slides mirror the notes master's ... the same way" - also the notes of a slide the deck already HAD (whose number
        # need not be the number of any notes slide, nor free among them); "the other slides are untouched" covers their notes too
        olds = getattr(ctx, "old_slides", None)
        if olds is None:
            from pptx.slide import Slide  # noqa

            pres_ = ctx.prs.part
            olds = ctx.old_slides = []
            for pos_, rid in enumerate(xp(pres_._element, "./p:sldIdLst/p:sldId/@r:id")[: len(ctx.before or [])]):
                try:
                    olds.append((pos_, pres_.rels[rid].target_part.slide))
                except KeyError:
                    pass
            ctx.old_notes = []
        cands = [(pos_, sl) for pos_, sl in olds if not sl.has_notes_slide]
        if cands:
            pos_, sl = cands[st["slide"] % len(cands)]
            ok, ns = ctx.api("notes:raises", lambda: sl.notes_slide)
            if ok:
                ctx.old_notes.append((pos_, {"slide": sl, "notes": ns}))
                acc.hit("notes_slide-created-for-a-preexisting-slide")
    elif op == "notes" and e["notes"] is None:
        had = e["slide"].has_notes_slide
        ok, ns = ctx.api("notes:raises", lambda: e["slide"].notes_slide)
        if ok and not had:
            e["notes"] = ns
            acc.hit("notes_slide-created")
            acc.hit("clone_master_placeholders")
    verify(ctx, where)


def check_saved(ctx):
    """Package-level facts, read from the saved bytes with the independent reader."""
    from vlib import opcx

    acc, prs = ctx.acc, ctx.prs
    buf = io.BytesIO()
    ok, _ = ctx.api("save-raises", prs.save, buf)
    if not ok or not ctx.added:
        return
    import zipfile

    from lxml import etree

    dup = [n for n, c in Counter(zipfile.ZipFile(io.BytesIO(buf.getvalue())).namelist()).items() if c > 1]
    if dup:
        ctx.bad("saved-duplicate-member", "saved zip holds %s more than once" % dup[:3])
    pkg = opcx.Pkg.from_bytes(buf.getvalue())
    pres = [r.target for r in pkg.rels("/") if r.type == opcx.RT_OFFICE_DOCUMENT][0]
    rels = {r.id: r.target for r in pkg.rels(pres)}
    order = [rels.get(i) for i in xp(pkg.xml_root(pres), "./p:sldIdLst/p:sldId/@r:id")]
    acc.count("saved_packages_read")
    sids = [int(i) for i in xp(pkg.xml_root(pres), "./p:sldIdLst/p:sldId/@id") if i.isdigit()]
    if len(set(sids)) != len(sids) and not getattr(ctx, "sid_dups_before", False):
        ctx.bad("slide-id-duplicated:saved", "saved p:sldIdLst carries ids %s: an added slide shares its id with another slide" % sids[-6:])
    # "the other slides are untouched": the slides the deck had when it was opened, position by position
    if getattr(ctx, "before", None) is not None and len(order) >= len(ctx.before) and not getattr(ctx, "reopened", False):
        for pos, (want, pn) in enumerate(zip(ctx.before, order)):
            if want is None or pn is None or not pkg.has_part(pn):
                continue
            got = etree.tostring(pkg.xml_root(pn), method="c14n")
            acc.count("preexisting_slides_compared_after_save")
            if got != want:
                ctx.bad("other-slide-changed:saved", "slide at position %d (now %s) differs in the saved package from what it was when the deck was opened" % (pos + 1, pn))
    # ... and the notes slides they had, slide by slide
    if getattr(ctx, "notes_before", None) is not None and not getattr(ctx, "reopened", False):
        for pos, want in enumerate(ctx.notes_before):
            pn = order[pos] if pos < len(order) else None
            if want is None or pn is None:
                continue
            nr = [r for r in pkg.rels(pn) or [] if r.type == RT + "notesSlide" and not r.external and pkg.has_part(r.target)]
            acc.count("preexisting_notes_slides_compared_after_save")
            if len(nr) != 1 or etree.tostring(pkg.xml_root(nr[0].target), method="c14n") != want:
                ctx.bad("other-notes-slide-changed:saved", "the notes slide of the slide at position %d differs in the saved package from what it was when the deck was opened (or is gone)" % (pos + 1))
    for pos, e_old in getattr(ctx, "old_notes", []):
        if pos < len(order) and order[pos] is not None and pkg.has_part(order[pos]):
            check_notes(ctx, e_old, pkg, pres, order[pos])
            acc.count("notes_of_preexisting_slides_checked")
    for n, (e, pn) in enumerate(zip(ctx.added, order[-len(ctx.added):])):
        if pn != str(e["slide"].part.partname) or len(order) < len(ctx.added):
            ctx.bad("not-last", "saved p:sldIdLst: position of added slide #%d holds %s, its part is %s" % (n, pn, e["slide"].part.partname))
            continue
        lr = [r for r in pkg.rels(pn) if r.type == RT + "slideLayout"]
        if len(lr) != 1 or lr[0].external or lr[0].target != str(e["layout"].part.partname):
            ctx.bad("layout-relationship", "saved %s has slideLayout relationships %s, expected one to %s" % (pn, lr, e["layout"].part.partname))
        if [sig(r) for r in ph_records(pkg.xml_root(pn))] != e["sigs"]:
            ctx.bad("placeholders-differ:saved", "saved %s carries other placeholders than the slide in memory" % pn)
        if e["notes"] is not None:
            check_notes(ctx, e, pkg, pres, pn)


def check_notes(ctx, e, pkg, pres, pn):
    from vlib import xsdkit

    acc, ns = ctx.acc, e["notes"]

    def one(src, t):
        r = [x for x in pkg.rels(src) or [] if x.type == RT + t and not x.external]
        return r[0].target if len(r) == 1 else None

    npn = one(pn, "notesSlide")
    mpn = one(npn, "notesMaster") if npn else None
    if npn is None or mpn is None or one(pres, "notesMaster") != mpn or one(npn, "slide") != pn:
        ctx.bad("notes:relationships", "saved package: slide %s -> notes %s -> master %s; presentation -> master %s" % (pn, npn, mpn, one(pres, "notesMaster")))
        return
    acc.count("notes_checked_master_" + ("preexisting" if ctx.had_notes_master else "created_from_template"))
    ok, same = ctx.api("notes:accessor", lambda: prs_notes_master_consistent(ctx.prs, ns, mpn))
    if ok and not same:
        ctx.bad("notes:accessor", "prs.notes_master is not the notes master the new notes slide is related to (%s)" % mpn)
    mrecs, nrecs = ph_records(pkg.xml_root(mpn)), ph_records(pkg.xml_root(npn))
    want = [m for m in mrecs if m["type"] in NOTES_CLONED]
    acc.count("placeholders_compared", len(want))
    for what, detail in diff([sig(r) for r in want], [sig(r) for r in nrecs]):
        ctx.bad("notes:%s" % what, "notes slide vs notes master (type, idx, orient, sz): %s" % (detail,))
    check_unique(ctx, pkg.xml_root(npn), "notes:", "notes slide")
    ok, phs = ctx.api("notes:geometry", lambda: list(ns.placeholders))
    by_id = {r["id"]: r for r in nrecs}
    for p in phs or []:
        rec = by_id.get(str(p.shape_id))
        base = next((m for m in mrecs if rec and m["type"] == rec["type"]), None)
        for f in FIELDS:
            want_v = rec and (rec["geom"][f] if rec["geom"][f] is not None else (base["geom"][f] if base else None))
            ok, got = ctx.api("notes:geometry", getattr, p, f)
            acc.count("geometry_compared_source_notes_master")
            if ok and (rec is None or got != want_v):
                ctx.bad("notes:geometry:%s" % f, "notes placeholder %s: %s is %s, notes master gives %s" % (rec and rec["type"], f, got, want_v))
    errs, _ = xsdkit.validate_part(pkg.blob(npn))
    for m in errs or ():
        ctx.bad("notes:invalid-xml:" + msg_class(m), "new notes slide: %s" % m)


def prs_notes_master_consistent(prs, ns, mpn):
    nm = prs.notes_master
    return nm is ns.part.notes_master and str(nm.part.partname) == mpn and nm is prs.notes_master


def open_deck(deck):
    import pptx
    from vlib import env

    if deck.startswith("manufactured:"):
        # default-template deck with 2-4 slides whose part names are out of order / gapped / shifted (vlib.histories.manufactured_deck)
        from vlib import histories

        k = int(deck.split(":")[1])
        data, _ = histories.manufactured_deck(env.rng("manufactured", "C13", k), 2 + k % 3)
        return pptx.Presentation(io.BytesIO(data))
    return pptx.Presentation() if deck == "default" else pptx.Presentation(os.path.join(env.REPO, deck))


def slides_before(prs):
    """Canonical XML of every slide already in the deck, in presentation order, read from the part elements by following
    p:sldIdLst with the harness's own XPath (prs.slides is not touched: that access renames parts)."""
    from lxml import etree

    out = []
    pres = prs.part
    for rid in xp(pres._element, "./p:sldIdLst/p:sldId/@r:id"):
        try:
            part = pres.rels[rid].target_part
        except KeyError:
            out.append(None)
            continue
        out.append(etree.tostring(etree.fromstring(part.blob), method="c14n"))
    return out


def notes_before(prs):
    """Canonical XML of the notes slide of every slide already in the deck (None where a slide has none), by position."""
    from lxml import etree

    out = []
    pres = prs.part
    for rid in xp(pres._element, "./p:sldIdLst/p:sldId/@r:id"):
        try:
            part = pres.rels[rid].target_part
            nrs = [r for r in part.rels.values() if r.reltype == RT + "notesSlide" and not r.is_external]
            out.append(etree.tostring(etree.fromstring(nrs[0].target_part.blob), method="c14n") if len(nrs) == 1 else None)
        except KeyError:
            out.append(None)
    return out


def baseline_errors():
    """Validation messages of a slide made from an unmodified layout (expected: none)."""
    from vlib import xsdkit

    prs = open_deck("default")
    try:
        return xsdkit.validate_part(prs.slides.add_slide(prs.slide_layouts[1]).part.blob)[0] or Counter()
    except Exception:  # noqa  (add_slide itself failing is reported by every case, not here)
        return Counter()


_BASE = []


def run_case(case, acc, cls):
    from pptx.opc.constants import RELATIONSHIP_TYPE as PRT

    if not _BASE:
        _BASE.append(baseline_errors())
    ctx = Ctx(acc, case)
    ctx.baseline = _BASE[0]
    ctx.prs = prs = open_deck(case["deck"])
    ctx.before = slides_before(prs)
    ctx.notes_before = notes_before(prs)
    sids0 = xp(prs.part._element, "./p:sldIdLst/p:sldId/@id")
    ctx.sid_dups_before = len(set(sids0)) != len(sids0)
    ctx.masters = list(prs.slide_masters)
    ctx.had_notes_master = any(r.reltype == PRT.NOTES_MASTER for r in prs.part.rels.values())
    case["master"] %= len(ctx.masters)
    ctx.master, ctx.layout = get_layout(ctx, case["master"], case["layout"])
    if ctx.layout is None:
        acc.count("masters_without_layout_skipped")
        return
    case["layout"] %= len(ctx.master.slide_layouts)
    related = any(r.reltype == PRT.SLIDE_MASTER and r.target_part is ctx.master.part for r in ctx.layout.part.rels.values())
    if case.get("population") is not None and not related:
        acc.count("layouts_not_related_to_their_master_skipped")  # broken corpus package: nothing to inherit from
        return
    if case.get("population") is not None and not rewrite(ctx.layout, ctx.master, case):
        acc.count("generated_populations_rejected_by_libxml2")
        return
    if case.get("notes_master_edit"):
        # the notes master as another template has it: its slide-number placeholder in front, a second body placeholder
        import copy

        nm = prs.notes_master._element
        sps = xp(nm, "./p:cSld/p:spTree/p:sp[p:nvSpPr/p:nvPr/p:ph]")
        num = [sp for sp in sps if xp(sp, "./p:nvSpPr/p:nvPr/p:ph/@type") == ["sldNum"]]
        body = [sp for sp in sps if xp(sp, "./p:nvSpPr/p:nvPr/p:ph/@type") == ["body"]]
        if num and sps[0] is not num[0]:
            sps[0].addprevious(num[0])
        if body:
            extra = copy.deepcopy(body[0])
            ids = [int(i) for i in xp(nm, "//p:cNvPr/@id") if i.isdigit()]
            idxs = [int(i) for i in xp(nm, "//p:ph/@idx") if i.isdigit()]
            c = xp(extra, "./p:nvSpPr/p:cNvPr")[0]
            c.set("id", str(max(ids) + 1))
            c.set("name", "Notes Placeholder %d" % (max(ids) + 1))
            xp(extra, "./p:nvSpPr/p:nvPr/p:ph")[0].set("idx", str(max(idxs + [9]) + 1))
            body[0].addnext(extra)
        acc.count("notes_masters_edited_before_the_first_notes_slide")
    recs = ph_records(ctx.layout._element)
    where = "layout with %d placeholder(s)" % len(recs)
    add_slide(ctx, ctx.master, ctx.layout, where)
    for n, st in enumerate(case.get("steps") or []):
        do_step(ctx, st, "%s, step %d %s" % (where, n, st["op"]))
    check_saved(ctx)
    dup = len({r["idx"] for r in recs}) < len(recs) or len({r["type"] for r in recs}) < len(recs)
    noxfrm = any(None in r["geom"].values() for r in recs)
    nt = len(recs) >= 2 and (dup or noxfrm or any(r["type"] in LATENT for r in recs))
    desc = {"sig": [(r["el"],) + sig(r) + tuple(v is not None for v in r["geom"].values()) for r in recs], "master_edit": case.get("master_edit"), "ops": [s["op"] for s in case.get("steps") or []]}
    acc.case(desc=desc, nontrivial=nt, cls=cls, sample={"deck": case["deck"], "layout": [case["master"], case["layout"]], **desc})


# ------------------------------------------------------------------ contract
def deck_list():
    from vlib import env

    return ["default"] + [os.path.relpath(p, env.REPO) for p in env.corpus_decks()] + ["manufactured:%d" % k for k in range(12)]


def plan(tier, seed):
    decks = deck_list()
    n, per = (800, 50) if tier == "quick" else (10000, 250)
    units = [{"kind": "corpus", "decks": decks[i::10]} for i in range(10)]
    return units + [{"kind": "gen", "lo": lo, "hi": min(n, lo + per)} for lo in range(0, n, per)]


def run_unit(unit, tier, seed, acc):
    from vlib import env

    if unit["kind"] == "gen":
        decks = deck_list()[1:]
        for i in range(unit["lo"], unit["hi"]):
            run_case(gen_case(env.rng("C13", "gen", i), decks), acc, "generated")
        return
    for deck in unit["decks"]:
        prs = open_deck(deck)
        for mi, m in enumerate(prs.slide_masters):
            for li in range(len(m.slide_layouts)):
                run_case({"deck": deck, "master": mi, "layout": li, "population": None, "master_edit": None, "steps": [{"op": "notes", "slide": 0}], "notes_master_edit": li == 1}, acc, "corpus")
                for h in range(6 if tier == "thorough" else 0):
                    steps = gen_steps(env.rng("C13", "hist", deck, mi, li, h)) + [{"op": "add-same", "slide": 0}]
                    run_case({"deck": deck, "master": mi, "layout": li, "population": None, "master_edit": None, "steps": steps}, acc, "corpus-history")


def replay(w, acc):
    run_case(dict(w), acc, "replay")
    print("case:", {k: w[k] for k in ("deck", "master", "layout", "master_edit")}, "population:", w.get("population"), "steps:", w.get("steps"))
    print("violations:", [(v["key"], v["what"][:300]) for v in acc.violations])


def finalize(acc, tier, seed):
    c = acc.counters
    for need, why in (
        ("geometry_compared_source_master", "geometry inheritance from the master (layout placeholder without a:xfrm) never exercised"),
        ("geometry_compared_source_layout", "geometry inheritance from the layout never exercised"),
        ("notes_checked_master_preexisting", "notes-slide creation in a deck that has a notes master never exercised"),
        ("notes_checked_master_created_from_template", "notes-slide creation in a deck without a notes master never exercised"),
        ("saved_packages_read", "no saved package was read back"),
    ):
        if not c.get(need):
            acc.inconclusive.append(why)
    for need in ("add_slide", "_next_ph_name", "iter_cloneable_placeholders:latent-present", "clone_layout_placeholders:onto-populated-slide", "_next_ph_name:number-bumped-to-stay-unique"):
        if not acc.reach.get(need):
            acc.inconclusive.append("never reached: " + need)
    rej = c.get("generated_populations_rejected_by_libxml2", 0)
    if rej > 0.2 * max(1, acc.classes.get("generated", 0) + rej):
        acc.inconclusive.append("more than 20%% of generated populations were rejected by libxml2 (%d)" % rej)
