"""C03 — every XML part written is valid PresentationML/DrawingML, after any operations.

Seeded histories (vlib/histories.py, profile 'xml': text at all levels, fonts, paragraph and text-
frame properties, fills, lines, shadows, backgrounds, tables, pictures, adjustments, geometry, chart
formatting objects, notes, and every add_* / insert_*), arguments drawn from the documented domains
including both ends and deliberately out-of-domain values (rejected calls).  After EVERY operation
each XML part whose serialisation changed is validated by libxml2 against the shipped ISO 29500-4
schemas after markup-compatibility preprocessing; any message the part did not have at open (or any
message at all for a part created later) is a violation.
"""
from __future__ import annotations

ID = "C03"
LEVEL = "exploration"
RULE = (
    "a case = one history (start: default template / manufactured deck / one of the 67 corpus decks; 12 ops quick, up to 40 "
    "thorough, profile 'xml'); after each executed or rejected op every changed XML part is re-validated. Non-trivial when "
    ">= 4 operations executed and the history was not abandoned; distinct by hash of (start, executed op list). The evidence "
    "lists executions per op kind (cases_per_class 'op:*') and parts re-validated."
)
ASSUMPTIONS = [
    "libxml2 + the XSDs shipped in /repo/spec (transitional) + vlib.xsdkit.mc_preprocess decide validity; validity is relative to the part's baseline at open",
    "parts whose root namespace has no shipped schema are skipped and counted",
    "an undocumented exception abandons the history (counted); >20% abandoned => inconclusive",
]
WATCHDOG_S = {"quick": 900, "thorough": 5400}


def plan(tier, seed):
    n = 256 if tier == "quick" else 10000
    per = 16 if tier == "quick" else 125
    nops = 12 if tier == "quick" else 40
    return [{"lo": lo, "hi": min(n, lo + per), "nops": nops} for lo in range(0, n, per)]


def run_unit(unit, tier, seed, acc):
    from vlib import histories

    histories.run_histories("xml", {"C03"}, unit, tier, seed, acc, save_every=None)


def replay(w, acc):
    from vlib import histories

    histories.replay_history(w, acc, {"C03"})
    print([(v["key"], v["what"][:300]) for v in acc.violations])


def finalize(acc, tier, seed):
    c = acc.counters
    if not c.get("parts_revalidated"):
        acc.inconclusive.append("no part was re-validated")
    ab = sum(v for k, v in c.items() if k.startswith("abandoned:"))
    total = sum(v for k, v in acc.classes.items() if k.startswith("start:"))
    if total and ab > 0.2 * total:
        acc.inconclusive.append("%d of %d histories abandoned on undocumented exceptions" % (ab, total))
