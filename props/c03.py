"""C03 — every XML part written is valid PresentationML/DrawingML, after any operations.

Seeded histories (vlib/histories.py, profile 'xml': text at all levels, fonts, paragraph and text-
frame properties, fills, lines, shadows, backgrounds, tables, pictures, adjustments, geometry, chart
formatting objects, notes, and every add_* / insert_*), arguments drawn from the documented domains
including both ends and deliberately out-of-domain values (rejected calls).  After EVERY operation
each XML part whose serialisation changed is validated by libxml2 against the shipped ISO 29500-4
schemas after markup-compatibility preprocessing; any message the part did not have at open (or any
message at all for a part created later) is a violation.
"""
from __future__ import annotations

ID = "C03"
LEVEL = "exploration"
RULE = (
    "a case = one history (start: default template / manufactured deck / one of the 67 corpus decks; 12 ops quick, up to 40 "
    "thorough, profile 'xml'); after each executed or rejected op every changed XML part is re-validated. Non-trivial when "
    ">= 4 operations executed and the history was not abandoned; distinct by hash of (start, executed op list). The evidence "
    "lists executions per op kind (cases_per_class 'op:*') and parts re-validated."
)
ASSUMPTIONS = [
    "libxml2 + the XSDs shipped in /repo/spec (transitional) + vlib.xsdkit.mc_preprocess decide validity; validity is relative to the part's baseline at open",
    "parts whose root namespace has no shipped schema are skipped and counted",
    "an undocumented exception abandons the history (counted); >20% abandoned => inconclusive",
]
WATCHDOG_S = {"quick": 900, "thorough": 5400}


def plan(tier, seed):
    n = 256 if tier == "quick" else 10000
    per = 16 if tier == "quick" else 125
    nops = 12 if tier == "quick" else 40
    units = [{"lo": lo, "hi": min(n, lo + per), "nops": nops} for lo in range(0, n, per)]
    # the same, on targets that have just been given the schema-permitted children python-pptx never writes but PowerPoint does
    # (profile 'sat': ops.sat_select / ops.op_saturate, donors from vlib/instgen.py; a valid start stays valid under them)
    m = 64 if tier == "quick" else 3000
    units += [{"lo": lo, "hi": min(n + m, lo + per), "nops": nops, "profile": "sat"} for lo in range(n, n + m, per)]
    units += [{"kind": "rejected", "shard": i, "of": 8} for i in range(8)]
    units += [{"kind": "accepted", "shard": i, "of": 8} for i in range(8)]
    units += [{"kind": "adders"}]
    return units


def run_adders(unit, tier, seed, acc):
    """Every shape-adding entry point with every geometry argument given as a float (what `prs.slide_width / 2` or
    `Inches(3) * 0.5` produce: whole or not), swept rather than drawn: the call either refuses (TypeError / ValueError) or leaves
    its slide - and the chart / OLE parts it made - valid."""
    import io

    import pptx
    from lxml import etree
    from pptx.chart.data import CategoryChartData
    from pptx.enum.chart import XL_CHART_TYPE
    from pptx.enum.shapes import MSO_CONNECTOR, MSO_SHAPE, PROG_ID
    from pptx.util import Emu
    from vlib import env, gen, xsdkit

    rnd = env.rng("C03", "adders", seed)
    png = gen.png_bytes(rnd)

    def cd():
        d = CategoryChartData()
        d.categories = ["a", "b"]
        d.add_series("s", (1, 2))
        return d

    adders = {
        "add_shape": lambda sh, g: sh.add_shape(MSO_SHAPE.OVAL, *g),
        "add_textbox": lambda sh, g: sh.add_textbox(*g),
        "add_picture": lambda sh, g: sh.add_picture(io.BytesIO(png), *g),
        "add_picture:position-only": lambda sh, g: sh.add_picture(io.BytesIO(png), g[0], g[1]),
        "add_table": lambda sh, g: sh.add_table(2, 2, *g),
        "add_chart": lambda sh, g: sh.add_chart(XL_CHART_TYPE.PIE, *g, cd()),
        "add_connector": lambda sh, g: sh.add_connector(MSO_CONNECTOR.STRAIGHT, *g),
        "add_ole_object": lambda sh, g: sh.add_ole_object(io.BytesIO(b"x"), PROG_ID.XLSX, g[0], g[1], g[2], g[3]),
        "add_ole_object:icon-size": lambda sh, g: sh.add_ole_object(io.BytesIO(b"x"), PROG_ID.XLSX, g[0], g[1], icon_width=g[2], icon_height=g[3]),
        "add_movie": lambda sh, g: sh.add_movie(io.BytesIO(b"not-a-movie"), *g, mime_type="video/mp4"),
    }
    forms = {"whole-float": lambda v: float(v), "half": lambda v: Emu(v) / 2 + 0.5, "third": lambda v: v / 3.0}
    for name, add in sorted(adders.items()):
        for fname, f in sorted(forms.items()):
            for in_group in (False, True):
                prs = pptx.Presentation()
                slide = prs.slides.add_slide(prs.slide_layouts[6])
                shapes = slide.shapes.add_group_shape().shapes if in_group else slide.shapes
                if in_group and not hasattr(shapes, name.split(":")[0]):
                    continue
                base = (914400 + rnd.randrange(1000) * 3, 457200 + rnd.randrange(1000) * 3, 1828800 + rnd.randrange(1000) * 6, 914400 + rnd.randrange(1000) * 6)
                g = tuple(f(v) for v in base)
                before, _ = xsdkit.validate_part(etree.tostring(slide._element))
                acc.case(desc=("adder", name, fname, in_group), nontrivial=True, cls="adder-float-geometry")
                acc.hit("adder:" + name)
                wit = {"adder": name, "form": fname, "in_group": in_group, "seed": seed}
                try:
                    add(shapes, g)
                    acc.count("adders_called_with_float_geometry:accepted")
                except (TypeError, ValueError):
                    acc.count("adders_called_with_float_geometry:refused")
                except Exception as e:  # noqa
                    acc.violation("adder-raises:%s:%s" % (name, type(e).__name__), "%s with %s geometry %r raised %r" % (name, fname, g, e), wit)
                    continue
                buf = io.BytesIO()
                try:
                    prs.save(buf)
                except Exception as e:  # noqa
                    acc.violation("adder-then-save-raises:%s:%s" % (name, type(e).__name__), "%s with %s geometry, then save: %r" % (name, fname, e), wit)
                    continue
                import zipfile

                zf = zipfile.ZipFile(io.BytesIO(buf.getvalue()))
                for member in zf.namelist():
                    if not (member.startswith("ppt/slides/slide") or member.startswith("ppt/charts/chart")) or not member.endswith(".xml"):
                        continue
                    after, _ = xsdkit.validate_part(zf.read(member))
                    acc.count("parts_revalidated")
                    if after is None:
                        continue
                    for m in xsdkit.new_errors(before, after) if (member.startswith("ppt/slides/") and before is not None) else after:
                        acc.violation("invalid-xml:adder:%s:%s" % (name, histories_msg_class(m)), "%s with %s geometry %r: %s: %s" % (name, fname, g, member, str(m)[:200]), wit)


def histories_msg_class(m):
    import re

    return re.sub(r"[0-9]+(\.[0-9]+)?", "N", str(m))[:80]


def run_accepted(unit, tier, seed, acc):
    """'attribute values inside the lexical space of their type', swept rather than sampled: every in-domain value of every
    row of the C09 property table (every member of every enumeration a property takes, the bounds of every numeric one) is
    assigned on a fresh object, alone and after another valid value; when the call is accepted the part(s) holding the object
    are re-validated."""
    from lxml import etree
    from props import c09
    from vlib import env, histories, xsdkit

    t = c09.T()
    rows = [r for i, r in enumerate(t.ROWS) if i % unit["of"] == unit["shard"]]
    for row in rows:
        for idx, (v, vcls) in enumerate(c09.ok_values(row)):
            prs = c09.new_deck()
            try:
                s = c09.fresh_slide(prs, row, env.rng("C03acc", row.id, idx))
                obj = c09.resolve(row.path, prs, s)
            except Exception:  # noqa
                acc.count("accepted:fixture_failed")
                continue
            primed = c09.pick_prime(row, obj) if idx % 2 == 1 else t.NOPRIME
            if primed is not t.NOPRIME:
                try:
                    row.set(obj, primed)
                except Exception:  # noqa
                    pass
            roots = [prs._element] if row.path.startswith("prs") else [s._element]
            if ".chart" in row.path:
                roots.append(c09.resolve(row.path[: row.path.index(".chart") + 6], prs, s)._chartSpace)
            before = [xsdkit.validate_part(etree.tostring(r))[0] for r in roots]
            try:
                row.set(obj, v)
            except Exception:  # noqa  (an in-domain value refused: C09's business)
                acc.count("accepted:value_was_refused")
                continue
            acc.count("accepted_calls_checked")
            acc.hit("accepted:" + row.id)
            for r, b in zip(roots, before):
                after = xsdkit.validate_part(etree.tostring(r))[0]
                if after is None or b is None:
                    continue
                for msg in after - b:
                    acc.violation(
                        "invalid-xml:accepted:%s:%s" % (row.id, histories._msg_class(msg)),
                        "%s = %s (%s) left a new schema error: %s" % (row.id, c09.short(v), "after %s" % c09.short(primed) if primed is not t.NOPRIME else "fresh", msg[:240]),
                        {"row": row.id, "value": c09.enc(v), "idx": idx, "accepted": True},
                    )
            acc.case(desc=("accepted", row.id, c09.enc(v)), nontrivial=True, cls="accepted-value")


def run_rejected(unit, tier, seed, acc):
    """'A call that is rejected with a documented exception leaves every part as valid as it was':
    every out-of-domain value of every row of the C09 property table is assigned on a fresh object
    (after a valid value, so that a half-removed previous setting shows); when the call raises
    TypeError/ValueError the part(s) holding the object are re-validated."""
    from lxml import etree
    from props import c09
    from vlib import env, histories, xsdkit

    t = c09.T()
    rows = [r for i, r in enumerate(t.ROWS) if i % unit["of"] == unit["shard"]]
    for row in rows:
        # only values the docstring / the enumeration itself excludes (a documented rejection: out-of-range
        # number, member without an XML value); wrong Python types are not what C03 quantifies over
        vals = [(v, c) for v, c in c09.grid(row) if c in ("outside-bound", "no-xml-member", "nonfinite")]  # (inf / nan: out-of-range numbers like any other)
        for idx, (v, vcls) in enumerate(vals + vals):  # every value once after a valid one (idx even) and once on the fresh object
            prs = c09.new_deck()
            try:
                s = c09.fresh_slide(prs, row, env.rng("C03rej", row.id, idx))
                obj = c09.resolve(row.path, prs, s)
            except Exception:  # noqa
                acc.count("rejected:fixture_failed")
                continue
            primed = c09.pick_prime(row, obj) if ((idx % len(vals)) % 2 == 0) != (idx >= len(vals)) else t.NOPRIME
            if primed is not t.NOPRIME:
                try:
                    row.set(obj, primed)
                except Exception:  # noqa
                    pass
            roots = [prs._element] if row.path.startswith("prs") else [s._element]
            if ".chart" in row.path:
                roots.append(c09.resolve(row.path[: row.path.index(".chart") + 6], prs, s)._chartSpace)
            before = [xsdkit.validate_part(etree.tostring(r))[0] for r in roots]
            try:
                row.set(obj, v)
            except (TypeError, ValueError):
                acc.count("rejected_calls_checked")
                acc.hit("rejected:" + row.id)
                for r, b in zip(roots, before):
                    after = xsdkit.validate_part(etree.tostring(r))[0]
                    if after is None or b is None:
                        continue
                    for msg in after - b:
                        acc.violation(
                            "invalid-xml:rejected:%s:%s" % (row.id, histories._msg_class(msg)),
                            "%s = %s was rejected (%s) but left a new schema error: %s" % (row.id, c09.short(v), "after %s" % c09.short(primed) if primed is not t.NOPRIME else "fresh", msg[:240]),
                            {"row": row.id, "value": c09.enc(v), "idx": idx},
                        )
            except Exception:  # noqa  (wrong exception type: C09's business)
                acc.count("rejected:other_exception")
            else:
                acc.count("rejected:value_was_accepted")
            acc.case(desc=("rejected", row.id, vcls), nontrivial=True, cls="rejected-call")


def run_unit(unit, tier, seed, acc):
    from vlib import histories

    if unit.get("kind") == "rejected":
        return run_rejected(unit, tier, seed, acc)
    if unit.get("kind") == "accepted":
        return run_accepted(unit, tier, seed, acc)
    if unit.get("kind") == "adders":
        return run_adders(unit, tier, seed, acc)
    histories.run_histories(unit.get("profile", "xml"), {"C03"}, unit, tier, seed, acc, save_every=None)


def replay(w, acc):
    from vlib import histories

    if "adder" in w:
        run_adders({}, "quick", w.get("seed", 0), acc)
        acc.violations[:] = [v for v in acc.violations if v["witness"].get("adder") == w["adder"]]
        print([(v["key"], v["what"][:300]) for v in acc.violations])
        return
    if "row" in w:
        (run_accepted if w.get("accepted") else run_rejected)({"shard": 0, "of": 1}, "quick", 0, acc)
        acc.violations[:] = [v for v in acc.violations if v["witness"]["row"] == w["row"]]
        print([(v["key"], v["what"][:300]) for v in acc.violations])
        return

    histories.replay_history(w, acc, {"C03"})
    print([(v["key"], v["what"][:300]) for v in acc.violations])


def finalize(acc, tier, seed):
    c = acc.counters
    if not c.get("parts_revalidated"):
        acc.inconclusive.append("no part was re-validated")
    ab = sum(v for k, v in c.items() if k.startswith("abandoned:"))
    total = sum(v for k, v in acc.classes.items() if k.startswith("start:"))
    if total and ab > 0.2 * total:
        acc.inconclusive.append("%d of %d histories abandoned on undocumented exceptions" % (ab, total))
