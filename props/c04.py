"""C04 — text assigned is the text read back, with only the documented translations.

Model-based: a 15-line reference model `expected(level, s)` written from the property statement
(frame/shape/cell: newline = paragraph, vertical tab = line break; paragraph: both = line break,
read back as vertical tab; run: both stay characters; every other C0 control, and a vertical tab
in a run, reads back as its _xHHHH_ escape).  Every string of length <= 3 over a 10-symbol alphabet (incl. CR, so CR LF pairs occur)
(exhaustive) plus seeded class-biased random strings over XML Char + C0 controls are assigned
through TextFrame.text, Shape.text, _Cell.text, _Paragraph.text and _Run.text onto bodies prepared
in six fixed prior states plus one built from the assigned string itself ('sameread': the string held in one run), read back at once, the element tree inspected with the harness's own parser
(paragraph count, a:br count, empty runs, a:pPr byte-identical by C14N, untouched siblings), then
saved and re-opened 1-3 times: the stored text is reconstructed from the saved slide XML with a
plain zipfile + lxml parser, and python-pptx's reader must return the same string again.  The
XSD validator runs on the saved slide parts as a side monitor (new errors only).
"""
from __future__ import annotations

import io
import itertools
import re
import zipfile

from lxml import etree

from vlib import env, xsdkit

ID = "C04"
LEVEL = "exploration"
EXHAUSTIVE = False
WATCHDOG_S = {"quick": 600, "thorough": 3600}
RULE = (
    "strings: every string of length <= 3 over {a, space, \\n, \\v, \\t, \\x07, &, <, U+1F600, \\r} (1111 incl. empty, exhaustive) "
    "plus seeded random strings drawn from 12 classes over XML Char + all C0 controls (1 500 quick / 40 000 thorough); each string "
    "at each of the 5 levels (frame, shape, cell, para, run); prior state of the body: quick = 2 of the 6 states per (level, "
    "string), rotating so all 6 occur; thorough = all states for the exhaustive strings, 1 rotating state per random string; "
    "plus state 'sameread' (the body already reads like the assigned string but holds it in a single run) for every exhaustive "
    "string at the four non-run levels and every second random string. "
    "A case = (level, state, string); non-trivial when the string contains a break, a control character, a markup character or "
    "leading/trailing whitespace; distinct by (level, string)."
)
ASSUMPTIONS = [
    "reference model expected(level, s) in this file transcribes the property statement and the setter docstrings",
    "stored text is reconstructed from the saved slide part with zipfile + lxml (PLAIN parser) and the harness's own walk over a:p/a:r/a:br/a:fld/a:t",
    "prior states are built with python-pptx's public API plus injected XML (parsed by pptx.oxml.parse_xml so the custom element classes apply)",
    "characters outside the XML Char production (surrogates, U+FFFE, U+FFFF) are outside the domain and never generated",
    "schema validity is judged relative to the slide before the assignments (new libxml2 messages only)",
]

A = xsdkit.NS["a"]
P = xsdkit.NS["p"]
R = xsdkit.NS["r"]
LEVELS = ["frame", "shape", "cell", "para", "run"]
STATES = ["fresh", "notxbody", "three", "brfirst", "fld", "merged"]
ALPHABET = ["a", " ", "\n", "\v", "\t", "\x07", "&", "<", "\U0001F600", "\r"]
BATCH = 100
API = {"frame": "TextFrame.text", "shape": "Shape.text", "cell": "_Cell.text", "para": "_Paragraph.text", "run": "_Run.text"}


# ---------------------------------------------------------------- reference model (from the statement)
_CTRL = re.compile("[\x00-\x08\x0b-\x1f]")  # every C0 control other than tab and newline


def esc(s):
    return _CTRL.sub(lambda m: "_x%04X_" % ord(m.group()), s)


def expected(level, s):
    """What reading `.text` back must return after assigning `s` at `level`."""
    if level == "run":  # newline stays a character; a vertical tab is escaped like any control
        return esc(s)
    if level == "para":  # newline and vertical tab are both line breaks, read back as vertical tab
        return "\v".join(esc(piece) for piece in re.split("[\n\v]", s))
    return "\n".join(expected("para", seg) for seg in s.split("\n"))  # frame, shape, cell


def breaks_per_paragraph(level, s):
    """Number of a:br elements each resulting paragraph must hold."""
    if level == "para":
        return [len(re.findall("[\n\v]", s))]
    return [seg.count("\v") for seg in s.split("\n")]


# ---------------------------------------------------------------- strings
def exhaustive_strings():
    return ["".join(t) for n in range(4) for t in itertools.product(ALPHABET, repeat=n)]


XMLCHAR_RANGES = [(0x20, 0x7E), (0xA0, 0x24F), (0x370, 0x3FF), (0x4E00, 0x4E40), (0xE000, 0xE010), (0xFFF0, 0xFFFD), (0x10000, 0x10FFFF)]
TOKENS = {
    "markup": ["<", ">", "&", '"', "'", "</a:t>", "<a:br/>", "<!--", "-->", "<?x?>", "<a:t>", "/>"],
    "entity-like": ["&amp;", "&lt;", "&#10;", "&#x0B;", "&#0;", "&nbsp;", "&#xD800;", "&#13;", "&", ";"],
    "cdata-like": ["<![CDATA[", "]]>", "]]", "]]&gt;", "<![CDATA[x]]>"],
    "c0-control": [chr(c) for c in range(0x20)],
    "crlf": ["\r\n", "a\r\nb", "\r", "\n\r", "\r\v", "x\r\n\r\ny"],
    "del-c1": [chr(c) for c in range(0x7F, 0xA0)],
    "specials": ["\ufffd", "\ufffc", "\ufeff", "\u200b", "\u2028", "\u2029", "\ufdd0", "\ud7ff", "\ue000", "\u00a0", "\u3000", "e\u0301", "\u2126", "\u212b", "\ufb01", "\u1100\u1161"],  # incl. text that is not in normal form C / KC
    "astral": ["\U0001F600", "\U00010000", "\U0010FFFF", "\U0001FFFE", "\U000E0001", "\U0002A6D6"],
    "xescape-lookalike": ["_x000A_", "_x000B_", "_x0007_", "_x005F_", "_x000a_", "_x", "_xZZZZ_", "_x005F_x000A_", "_x000D_", "_"],
}
CLASSES = ["whitespace-only", "leading-trailing-break", "break-runs", "mixed"] + sorted(TOKENS)


def random_string(r, cls):
    word = lambda: "".join(r.choice("abxyz09\u00e9\u4e2d") for _ in range(r.randint(1, 4)))  # noqa: E731
    brk = lambda n: "".join(r.choice("\n\v") for _ in range(r.randint(1, n)))  # noqa: E731
    anychar = lambda: chr(r.randint(*r.choice(XMLCHAR_RANGES)))  # noqa: E731
    if cls == "whitespace-only":  # includes the empty string
        return "".join(r.choice(" \t") for _ in range(r.randint(0, 5)))
    if cls == "leading-trailing-break":
        return r.choice(["", " "]) + brk(2) + r.choice(["", word()]) + r.choice(["", brk(2)]) + r.choice(["", " "])
    if cls == "break-runs":
        return "".join(r.choice([word(), " ", "\t", ""]) + brk(4) for _ in range(r.randint(1, 3))) + r.choice([word(), ""])
    if cls == "mixed":
        pool = [t for v in TOKENS.values() for t in v]
        return "".join(r.choice([r.choice(pool), anychar(), word(), " ", brk(2)]) for _ in range(r.randint(2, 6)))
    parts = [r.choice([r.choice(TOKENS[cls]), r.choice(TOKENS[cls]), word(), " ", "\n", "\v", ""]) for _ in range(r.randint(1, 5))]
    if not any(p in TOKENS[cls] for p in parts):
        parts.append(r.choice(TOKENS[cls]))
    return "".join(parts)


def feature_class(s):
    tests = [("empty", s == ""), ("whitespace-only", not s.strip(" \t")), ("break", "\n" in s or "\v" in s), ("control", "\x07" in s),
             ("markup", "&" in s or "<" in s), ("astral", "\U0001F600" in s), ("plain", True)]
    return "x3:" + next(name for name, hit in tests if hit)


def nontrivial(s):
    return bool(re.search("[\x00-\x1f<>&\"']", s)) or s != s.strip()


def cases_for(kind, tier, shard, of):
    """Deterministic list of (level, state, string, class) for one shard."""
    out = []
    if kind == "exh":
        for i, s in enumerate(exhaustive_strings()):
            for li, level in enumerate(LEVELS):
                sts = STATES if tier == "thorough" else [STATES[(i + li + k * 3) % 6] for k in (0, 1)]
                out += [(level, st, s, feature_class(s)) for st in sts]
        # a merged cell is not reachable through Shape.text: that combination runs on a shape without txBody instead
        out = list(dict.fromkeys((l, "notxbody" if (l, st) == ("shape", "merged") else st, s, cl) for l, st, s, cl in out))
        # a body that already READS like the string being assigned but is built differently (the string in one run)
        out += [(level, "sameread", s, feature_class(s)) for s in exhaustive_strings() for level in LEVELS[:4]]
        # a paragraph holding an equation the way PowerPoint writes one (not at run level: a run assignment leaves the rest
        # of its paragraph alone, and python-pptx's own reading of the rest is not what C04 is about)
        out += [(level, "eqn", s, feature_class(s)) for i, s in enumerate(exhaustive_strings()) for li, level in enumerate(LEVELS)
                if level != "run" and (tier == "thorough" or (i + li) % 3 == 0)]
        out += [(level, "cmt", s, feature_class(s)) for i, s in enumerate(exhaustive_strings()) for li, level in enumerate(LEVELS)
                if tier == "thorough" or (i + li) % 3 == 1]
        return [c for j, c in enumerate(out) if j % of == shard]
    r = env.rng("C04", "random", tier, shard)
    total = 1500 if tier == "quick" else 40000
    for i in range(shard, total, of):
        cls = CLASSES[i % len(CLASSES)]
        s = random_string(r, cls)
        for li, level in enumerate(LEVELS):
            sts = [STATES[(i + li + k * 3) % 6] for k in ((0, 1) if tier == "quick" else (0,))]
            out += [(level, "notxbody" if (level, st) == ("shape", "merged") else st, s, cls) for st in sts]
        if i % 2 == 0:
            out.append((LEVELS[(i // 2) % 4], "sameread", s, cls))
        if i % 5 == 1:
            out.append((LEVELS[(i // 5) % len(LEVELS)], "cmt", s, cls))
        if i % 5 == 0:
            out.append(([l for l in LEVELS if l != "run"][(i // 5) % (len(LEVELS) - 1)], "eqn", s, cls))
    return out


# ---------------------------------------------------------------- independent view of a text body
def plain(el):
    """Re-parse an element with the plain parser: no python-pptx element classes involved."""
    return etree.fromstring(etree.tostring(el), xsdkit.PLAIN)


def c14n(el):
    return None if el is None else etree.tostring(el, method="c14n", exclusive=True)


def facts(body):
    """[{pPr, toks, end_last, c14n}] for each a:p of a (plain) txBody; toks = ('r'|'fld', text) | ('br', None)."""
    out = []
    for p in body.findall("{%s}p" % A):
        toks = []
        kids = [k for k in p if isinstance(k.tag, str)]
        for k in kids:
            name = etree.QName(k).localname
            if name in ("r", "fld"):
                t = k.find("{%s}t" % A)
                # (the element's string value: a comment or processing instruction inside a:t splits its text into several nodes)
                toks.append((name, str(t.xpath("string()")) if t is not None else ""))
            elif name == "br":
                toks.append(("br", None))
            elif name not in ("pPr", "endParaRPr"):
                # content in a form python-pptx has no class for (an equation in mc:AlternateContent, as PowerPoint 2010+
                # writes one): the text a reader of the part shows for it
                toks.append(("x", "".join(t.text or "" for t in k.iter("{%s}t" % A))))
        end = [i for i, k in enumerate(kids) if k.tag == "{%s}endParaRPr" % A]
        out.append({"pPr": c14n(p.find("{%s}pPr" % A)), "toks": toks, "c14n": c14n(p),
                    "rPr": [c14n(k.find("{%s}rPr" % A)) for k in kids if k.tag == "{%s}r" % A],
                    "end": len(end), "end_last": (not end) or end == [len(kids) - 1]})
    return out


def para_text(f):
    return "".join("\v" if k == "br" else t for k, t in f["toks"])


frame_text = lambda fs: "\n".join(para_text(f) for f in fs)  # noqa: E731


def saved_bodies(blob):
    """{(slide index, shape id): plain txBody or None} and {slide index: part bytes}, read without python-pptx."""
    z = zipfile.ZipFile(io.BytesIO(blob))
    prs = etree.fromstring(z.read("ppt/presentation.xml"), xsdkit.PLAIN)
    rels = etree.fromstring(z.read("ppt/_rels/presentation.xml.rels"), xsdkit.PLAIN)
    target = {r.get("Id"): r.get("Target") for r in rels}
    bodies, parts = {}, {}
    for si, sld in enumerate(prs.iterfind("{%s}sldIdLst/{%s}sldId" % (P, P))):
        t = target[sld.get("{%s}id" % R)]
        parts[si] = z.read(t[1:] if t.startswith("/") else "ppt/" + t)
        root = etree.fromstring(parts[si], xsdkit.PLAIN)
        for c in root.iter("{%s}cNvPr" % P):
            holder = c.getparent().getparent()
            if holder.tag == "{%s}sp" % P:
                bodies[(si, int(c.get("id")))] = holder.find("{%s}txBody" % P)
            elif holder.tag == "{%s}graphicFrame" % P:
                tc = next(holder.iter("{%s}tc" % A), None)
                bodies[(si, int(c.get("id")))] = None if tc is None else tc.find("{%s}txBody" % A)
    return bodies, parts


# ---------------------------------------------------------------- prior states
NSDECL = 'xmlns:a="%s" xmlns:p="%s" xmlns:r="%s"' % (A, P, R)
STATE_XML = {
    "three": [
        '<a:p %s><a:pPr algn="ctr" lvl="1"/><a:r><a:t>one</a:t></a:r></a:p>',
        '<a:p %s><a:pPr marL="342900" indent="-342900" algn="r"><a:lnSpc><a:spcPct val="90000"/></a:lnSpc><a:buChar char="&#8226;"/>'
        '<a:defRPr b="1"/></a:pPr><a:r><a:rPr lang="en-US" b="1"/><a:t>A</a:t></a:r><a:r><a:rPr lang="en-US" i="1" dirty="0"/><a:t>B</a:t></a:r>'
        '<a:r><a:t> C </a:t></a:r><a:endParaRPr lang="en-US" dirty="0"/></a:p>',
        '<a:p %s><a:r><a:t>three</a:t></a:r><a:br/><a:r><a:t>x</a:t></a:r></a:p>',
    ],
    "brfirst": ['<a:p %s><a:br><a:rPr lang="en-US"/></a:br><a:r><a:rPr lang="en-US" u="sng"/><a:t>tail</a:t></a:r></a:p>'],
    "fld": [
        '<a:p %s><a:pPr lvl="2"><a:spcBef><a:spcPts val="600"/></a:spcBef></a:pPr><a:r><a:rPr lang="en-US"/><a:t>pre </a:t></a:r>'
        '<a:fld id="{B6F15528-21DE-4FAA-801E-634DDDAF4B2B}" type="slidenum"><a:rPr lang="en-US"/><a:t>7</a:t></a:fld>'
        '<a:endParaRPr lang="en-US"/></a:p>'
    ],
}
STATE_XML["eqn"] = [
    '<a:p %s><a:pPr algn="ctr"/><a:r><a:rPr lang="en-US"/><a:t>area </a:t></a:r>'
    '<mc:AlternateContent xmlns:mc="http://schemas.openxmlformats.org/markup-compatibility/2006" '
    'xmlns:a14="http://schemas.microsoft.com/office/drawing/2010/main" xmlns:m="http://schemas.openxmlformats.org/officeDocument/2006/math">'
    '<mc:Choice Requires="a14"><a14:m><m:oMath><m:r><m:t>pi r2</m:t></m:r></m:oMath></a14:m></mc:Choice>'
    '<mc:Fallback><a:r><a:rPr lang="en-US"/><a:t>[pi r2]</a:t></a:r></mc:Fallback></mc:AlternateContent>'
    '<a:endParaRPr lang="en-US"/></a:p>'
]
STATE_XML["cmt"] = [  # a comment inside a:t, as a templating producer leaves one: the run's text is 'Dear customer'
    '<a:p %s><a:pPr lvl="1"/><a:r><a:rPr lang="en-US" b="1"/><a:t>Dear <!-- merge field -->customer</a:t></a:r><a:r><a:t> again</a:t></a:r></a:p>'
]
TARGET = {"three": (1, 1), "brfirst": (0, 0), "fld": (0, 0), "eqn": (0, 0), "cmt": (0, 0)}  # (paragraph index, run index) assigned at para/run level
PH_XML = (
    '<p:sp %s><p:nvSpPr><p:cNvPr id="%d" name="Title %d"/><p:cNvSpPr><a:spLocks noGrp="1"/></p:cNvSpPr>'
    '<p:nvPr><p:ph type="title"/></p:nvPr></p:nvSpPr><p:spPr/></p:sp>'
)


def prepare(slide, level, state, s=""):
    """Add a text container in `state` to `slide`; -> (shape id, 'sp'|'tc').  State 'sameread' depends on the string
    about to be assigned: the body holds that string in ONE run (set through _Run.text), so that it may already read
    like the assigned value while holding none of the paragraphs and line breaks the assignment must produce."""
    from pptx.oxml import parse_xml
    from pptx.util import Emu

    use_cell = level == "cell" or state == "merged"
    if use_cell:
        gf = slide.shapes.add_table(2, 2, Emu(0), Emu(0), Emu(2000000), Emu(800000))
        cell = gf.table.cell(0, 0)
        if state == "merged":
            cell.text = "old"
            gf.table.cell(1, 1).text = "moved\vin"
            cell.merge(gf.table.cell(1, 1))
        holder, sid, owner = cell._tc, gf.shape_id, cell
    elif state == "notxbody":
        spTree = slide.shapes._spTree
        sid = 1 + max(int(x) for x in etree.XPath("//p:cNvPr/@id", namespaces={"p": P})(spTree))
        holder = parse_xml(PH_XML % (NSDECL, sid, sid))
        spTree.append(holder)
    else:
        sp = slide.shapes.add_textbox(Emu(0), Emu(0), Emu(2000000), Emu(800000))
        holder, sid, owner = sp._element, sp.shape_id, sp
    body = holder.find("{%s}txBody" % (A if use_cell else P))
    if state == "notxbody":
        if body is not None:
            holder.remove(body)
    elif state in STATE_XML:
        for p in body.findall("{%s}p" % A):
            body.remove(p)
        for x in STATE_XML[state]:
            body.append(parse_xml(x % NSDECL))
    elif state == "sameread":
        owner.text_frame.paragraphs[0].add_run().text = s
    return sid, ("tc" if use_cell else "sp")


def containers(slides, cases):
    """{(slide index, shape id): shape or cell(0,0)} - one pass over each slide's shapes, located by id."""
    kinds = {(c.si, c.sid): c.kind for c in cases}
    out = {}
    for si, slide in enumerate(slides):
        for sh in slide.shapes:
            kind = kinds.get((si, sh.shape_id))
            if kind:
                out[(si, sh.shape_id)] = sh.table.cell(0, 0) if kind == "tc" else sh
    return out


def accessor(obj, kind, level, pi, ri):
    """(owner, 'text') through the API entry point of `level`."""
    if level == "shape" or (level == "cell" and kind == "tc"):
        return obj
    tf = obj.text_frame
    if level in ("frame", "cell"):
        return tf
    para = tf.paragraphs[pi]
    return para if level == "para" else para.runs[ri]


def body_of(obj, kind):
    el = obj._tc if kind == "tc" else obj._element
    return el.find("{%s}txBody" % (A if kind == "tc" else P))


# ---------------------------------------------------------------- difference classes (mechanism keys)
_ESC = re.compile("_x[0-9A-Fa-f]{4}_")


def diff_class(want, got, level=None):
    if got is None:
        return "missing"
    if level != "run" and got.count("\n") != want.count("\n"):  # in a run a newline is a plain character
        return "extra-paragraph" if got.count("\n") > want.count("\n") else "lost-paragraph"
    if level != "run" and got.count("\v") != want.count("\v"):
        return "lost-vtab" if got.count("\v") < want.count("\v") else "extra-vtab"
    if sorted(want) == sorted(got):
        return "reordered"
    strip = lambda x: _ESC.sub("", _CTRL.sub("", x))  # noqa: E731
    if strip(want) == strip(got):
        return "wrong-escape"
    if want.strip(" \t") == got.strip(" \t") or re.sub(r"[ \t]+", " ", want).strip() == re.sub(r"[ \t]+", " ", got).strip():
        lead = len(want) - len(want.lstrip(" \t")) != len(got) - len(got.lstrip(" \t"))
        return "lost-leading-whitespace" if lead and len(got) < len(want) else "whitespace-changed"
    return "lost-text" if len(got) < len(want) else "other-text"


def msg_class(m):
    return re.sub(r"'[^']*'", lambda mo: mo.group(0) if mo.group(0).startswith(("'a:", "'p:")) else "'..'", m)[:120]


# ---------------------------------------------------------------- one batch = one deck
class Case:
    def __init__(self, level, state, s, cls, cycles):
        self.level, self.state, self.s, self.cls, self.cycles = level, state, s, cls, cycles
        self.pi, self.ri = TARGET.get(state, (0, 0))
        self.dead = False

    def witness(self):
        return {"level": self.level, "state": self.state, "cps": [ord(c) for c in self.s], "cycles": self.cycles}

    def show(self):
        return "%s=%r on state %r" % (API[self.level], self.s, self.state)


def run_batch(cases, cycles, acc, attributed, say=None):
    import pptx

    say = say or (lambda *a: None)
    prs = pptx.Presentation()
    slides = [prs.slides.add_slide(prs.slide_layouts[6]) for _ in range(2)]
    for k, c in enumerate(cases):
        c.si, c.cycles = k % 2, cycles
        c.sid, c.kind = prepare(slides[c.si], c.level, c.state, c.s)

    def vio(c, key, what):
        acc.violation(key, "%s: %s" % (c.show(), what), c.witness())
        say("VIOLATION", key, what)

    # prior content seen independently, and the slides' validity before any assignment
    objs = containers(slides, cases)
    for c in cases:
        obj = objs[(c.si, c.sid)]
        if c.level in ("para", "run"):
            tf = obj.text_frame  # creates the body on the 'notxbody' state, as any caller would
            if c.level == "run" and not tf.paragraphs[c.pi].runs:
                tf.paragraphs[c.pi].add_run()
        b = body_of(obj, c.kind)
        c.before = facts(plain(b)) if b is not None else []
    baseline = [xsdkit.validate_part(sl.part.blob)[0] for sl in slides]

    for c in cases:
        s, level = c.s, c.level
        acc.case(desc={"level": level, "cps": [ord(ch) for ch in s]}, nontrivial=nontrivial(s), cls=c.cls,
                 sample={"level": level, "state": c.state, "string": ascii(s), "expected": ascii(expected(level, s))})
        acc.count("cases_on_state_" + c.state)
        obj = objs[(c.si, c.sid)]
        c.want = expected(level, s)
        try:
            if (c.sid + len(s)) % 3 == 0:
                # one proxy object kept across two assignments and the read (a caller holding `tf = shape.text_frame`):
                # anything the proxy remembers from the first assignment must not show in the second
                a = accessor(obj, c.kind, level, c.pi, c.ri)
                if (c.sid + len(s)) % 2 == 0:
                    # ... and READ through it first (`print(tf.text)`, `len(tf.paragraphs)`): what a reading memoises on the
                    # proxy must not outlive the next assignment either
                    _ = a.text
                    _ = len(list(getattr(a, "paragraphs", None) or getattr(a, "runs", None) or ()))
                    acc.count("proxies_read_before_being_assigned_through")
                a.text = "pr\nior\v x"
                _ = a.text
                a.text = s
                got = a.text
                acc.count("assignments_through_a_proxy_that_was_assigned_before")
                again = accessor(obj, c.kind, level, c.pi, c.ri).text
                if again != got:
                    vio(c, "readback:%s:proxy-disagrees" % level, "the proxy assigned through reads %r, a fresh one %r" % (got, again))
            else:
                accessor(obj, c.kind, level, c.pi, c.ri).text = s
                got = accessor(obj, c.kind, level, c.pi, c.ri).text
            acc.hit(API[level] + " setter")
            acc.hit(API[level] + " getter")
        except Exception as e:  # noqa - every generated string is in the domain: no rejection is documented
            vio(c, "readback:%s:raises-%s" % (level, type(e).__name__), "raised %r" % e)
            c.dead = True
            continue
        say("assigned", ascii(s), "expected", ascii(c.want), "read back", ascii(got))
        if got != c.want:
            vio(c, "readback:%s:%s" % (level, diff_class(c.want, got, level)), "read back %r, documented result %r" % (got, c.want))
        # what the whole body must now read, from the prior content and the model
        if level == "para":
            paras = [para_text(f) for f in c.before]
            paras[c.pi] = c.want
        elif level == "run":
            paras = [para_text(f) for f in c.before]
            toks, n = [], -1
            for k, t in c.before[c.pi]["toks"]:
                n += k == "r"
                toks.append(c.want if (k == "r" and n == c.ri) else ("\v" if k == "br" else t))
            paras[c.pi] = "".join(toks)
        else:
            paras = c.want.split("\n")
        c.frame_want = "\n".join(paras)
        b = body_of(obj, c.kind)
        if b is None:
            vio(c, "structure:%s:no-text-body" % level, "no txBody element after the assignment")
            c.dead = True
            continue
        c.after = facts(plain(b))
        check_structure(c, c.after, vio)
        acc.count("element_trees_inspected")

    live = [c for c in cases if not c.dead]
    for cyc in range(1, cycles + 1):
        try:
            buf, step = io.BytesIO(), "save"
            prs.save(buf)
            blob, step = buf.getvalue(), "load"
            prs = pptx.Presentation(io.BytesIO(blob))
        except Exception as e:  # noqa - the deck holds nothing but in-domain text: it must save and load
            key = "reopen:%s-raises-%s" % (step, type(e).__name__)
            return vio(attribute(cases, key, attributed), key, "%s %d of the deck raised %r" % (step, cyc, e))
        acc.count("saves")
        acc.count("reopens")
        bodies, parts = saved_bodies(blob)
        if cyc == 1:
            side_monitor(cases, baseline, parts, acc, attributed, say)
        for c in live:
            b = bodies.get((c.si, c.sid))
            fs = facts(b) if b is not None else None
            acc.count("independent_reconstructions")
            stored = frame_text(fs) if fs is not None else None
            say("cycle", cyc, "stored (own parser)", ascii(stored))
            if stored != c.frame_want:
                vio(c, "stored:%s:%s" % (c.level, diff_class(c.frame_want, stored)),
                    "saved slide XML (cycle %d) holds %r, expected %r" % (cyc, stored, c.frame_want))
            elif [(f["toks"], f["pPr"]) for f in fs] != [(f["toks"], f["pPr"]) for f in c.after]:
                vio(c, "stored:%s:differs-from-tree" % c.level, "saved paragraphs differ from the element tree (cycle %d)" % cyc)
        objs = containers(list(prs.slides), live)
        for c in live:
            obj = objs.get((c.si, c.sid))
            if obj is None:
                vio(c, "reopen:%s:shape-lost" % c.level, "shape id %d not on slide %d after re-open %d" % (c.sid, c.si, cyc))
                continue
            try:
                got = accessor(obj, c.kind, c.level, c.pi, c.ri).text
                whole = obj.text_frame.text
            except Exception as e:  # noqa
                vio(c, "reopen:%s:raises-%s" % (c.level, type(e).__name__), "reading after re-open %d raised %r" % (cyc, e))
                continue
            acc.count("reopen_comparisons")
            say("cycle", cyc, "re-opened reads", ascii(got))
            if got != c.want:
                vio(c, "reopen:%s:%s" % (c.level, diff_class(c.want, got, c.level)), "after re-open %d reads %r, expected %r" % (cyc, got, c.want))
            elif whole != c.frame_want:
                vio(c, "reopen:%s:frame-%s" % (c.level, diff_class(c.frame_want, whole)),
                    "after re-open %d the whole body reads %r, expected %r" % (cyc, whole, c.frame_want))


def check_structure(c, fs, vio):
    level, s, tag = c.level, c.s, "structure"
    tree_text = frame_text(fs)
    if tree_text != c.frame_want:
        vio(c, "%s:%s:tree-text-%s" % (tag, level, diff_class(c.frame_want, tree_text)),
            "element tree holds %r, expected %r" % (tree_text, c.frame_want))
    if level in ("frame", "shape", "cell"):
        want_br = breaks_per_paragraph(level, s)
        if len(fs) != len(want_br):
            return vio(c, "%s:%s:paragraph-count" % (tag, level), "%d a:p for %d newline-separated segments" % (len(fs), len(want_br)))
        mine = list(range(len(fs)))
    else:
        if len(fs) != len(c.before):
            return vio(c, "%s:%s:paragraph-count" % (tag, level), "%d a:p before, %d after" % (len(c.before), len(fs)))
        want_br = [sum(k == "br" for k, _ in f["toks"]) for f in c.before]
        if level == "para":
            want_br[c.pi] = breaks_per_paragraph(level, s)[0]
        mine = [c.pi]
        for i, (f0, f1) in enumerate(zip(c.before, fs)):
            if i != c.pi and f0["c14n"] != f1["c14n"]:
                vio(c, "%s:%s:other-paragraph-changed" % (tag, level), "paragraph %d changed although paragraph %d was assigned" % (i, c.pi))
        f0, f1 = c.before[c.pi], fs[c.pi]
        if f0["pPr"] != f1["pPr"]:
            vio(c, "%s:%s:pPr-%s" % (tag, level, "lost" if f1["pPr"] is None else "changed"), "a:pPr before %r, after %r" % (f0["pPr"], f1["pPr"]))
        if f0["end"] != f1["end"] or not f1["end_last"]:
            vio(c, "%s:%s:endParaRPr-%s" % (tag, level, "lost" if f1["end"] < f0["end"] else "misplaced"),
                "a:endParaRPr count %d -> %d, last child: %s" % (f0["end"], f1["end"], f1["end_last"]))
        if level == "run":
            kinds = lambda f: [k for k, _ in f["toks"]]  # noqa: E731
            if kinds(f0) != kinds(f1) or f0["rPr"] != f1["rPr"]:
                vio(c, "%s:run:paragraph-content-changed" % tag, "children %s -> %s (or a:rPr changed)" % (kinds(f0), kinds(f1)))
    for i, f in enumerate(fs):
        n = sum(k == "br" for k, _ in f["toks"])
        if n != want_br[i]:
            vio(c, "%s:%s:br-count" % (tag, level), "paragraph %d holds %d a:br, %d line breaks expected" % (i, n, want_br[i]))
        if level != "run" and i in mine and any(k == "r" and t == "" for k, t in f["toks"]):
            vio(c, "%s:%s:empty-run" % (tag, level), "paragraph %d holds an empty a:r" % i)


def side_monitor(cases, baseline, parts, acc, attributed, say):
    """XSD validity of the saved slides relative to the slides before the assignments."""
    for si, before in enumerate(baseline):
        after, _ = xsdkit.validate_part(parts[si])
        acc.count("slide_parts_validated")
        if before is None or after is None:
            acc.count("slide_parts_without_schema_verdict")
            continue
        for m in xsdkit.new_errors(before, after):
            key = "invalid-xml:" + msg_class(m)
            say("new schema error", m)
            c = attribute([c for c in cases if c.si == si], key, attributed)
            acc.violation(key, "%s: saved slide has a new schema error: %s" % (c.show(), m), c.witness())


def attribute(cases, key, attributed):
    """A deck-level observation (schema error, save/load failure) is pinned on one case that shows it when run alone."""
    if key not in attributed:
        attributed[key] = cases[0]
        for c in cases if len(cases) > 1 else []:
            probe = Probe()
            run_batch([Case(c.level, c.state, c.s, c.cls, c.cycles)], c.cycles, probe, {})
            if key in probe.keys:
                attributed[key] = c
                break
    return attributed[key]


class Probe:
    """Recorder for those single-case re-runs: keeps violation keys, counts nothing."""

    def __init__(self):
        self.keys = set()

    def violation(self, key, what, witness):
        self.keys.add(key)

    def case(self, *a, **k):
        pass

    count = hit = case


# ---------------------------------------------------------------- contract
def plan(tier, seed):
    n = 16 if tier == "quick" else 48
    return [{"kind": "exh", "shard": i, "of": n} for i in range(n)] + [{"kind": "rnd", "shard": i, "of": n} for i in range(n)]


def run_unit(unit, tier, seed, acc):
    cs = cases_for(unit["kind"], tier, unit["shard"], unit["of"])
    r = env.rng("C04", "cycles", unit["kind"], unit["shard"])
    attributed = {}
    for i in range(0, len(cs), BATCH):
        cycles = 1 if tier == "quick" else r.choice([1, 1, 2, 3])
        run_batch([Case(l, st, s, cl, cycles) for l, st, s, cl in cs[i:i + BATCH]], cycles, acc, attributed)
        acc.count("decks_with_%d_save_reopen_cycles" % cycles)


def replay(w, acc):
    s = "".join(chr(c) for c in w["cps"])
    print("replaying %s = %s on state %r, %d save/re-open cycle(s)" % (API[w["level"]], ascii(s), w["state"], w.get("cycles", 1)))
    run_batch([Case(w["level"], w["state"], s, "replay", w.get("cycles", 1))], w.get("cycles", 1), acc, {}, say=lambda *a: print("  ", *a))


def finalize(acc, tier, seed):
    for name in [API[level] + end for level in LEVELS for end in (" setter", " getter")]:
        if not acc.reach.get(name):
            acc.inconclusive.append("never reached: " + name)
    for name in ("saves", "reopens", "reopen_comparisons", "independent_reconstructions", "element_trees_inspected", "slide_parts_validated"):
        if not acc.counters.get(name):
            acc.inconclusive.append("monitor never reached: " + name)
    if acc.counters.get("slide_parts_without_schema_verdict"):
        acc.inconclusive.append("schema side monitor gave no verdict on %d slide parts" % acc.counters["slide_parts_without_schema_verdict"])
