"""C01 — opening and saving a package preserves every reachable part and relationship.

Workload: (a) every deck of the repository's corpus as path, as stream and as extracted directory,
through OpcPackage.open and pptx.package.Package.open; (b) seeded generated packages written with
zipfile from a description (relationship graphs with cycles/self-loops/shared targets/externals,
target spellings relative, ./, a/../, ../ and root-absolute, Default/Override mixes in arbitrary case,
same-extension/different-type parts, arbitrary payloads, unreachable extra members).
Oracle: vlib.opcx reads input and output independently and compares parts, types, payloads and
relationship sets; then save(open(out)) must reproduce out member for member, byte for byte.
"""
from __future__ import annotations

import io
import os
import posixpath
import zipfile

ID = "C01"
LEVEL = "exploration"
RULE = (
    "corpus: 67 decks x {path, stream, directory} x {OpcPackage, Package}; generated: seeded package descriptions "
    "(2-14 parts, spanning tree from the root + random extra relationships, see module docstring). A generated package is "
    "non-trivial when it has >= 3 parts and at least one of {cycle or self-loop, shared target, external relationship, "
    "dotted or root-absolute target spelling, two parts sharing an extension but not a content type}; a corpus case is "
    "non-trivial when the deck has >= 10 parts. Distinct by hash of the description / (deck, form, class)."
)
ASSUMPTIONS = [
    "vlib/opcx.py (zipfile + plain lxml) as independent reader; XML equivalence = C14N after dropping whitespace-only text between elements",
    "generated packages satisfy the statement's precondition (well-formed, all internal relationships resolve); that is asserted on every generated input before use",
]

RT = "http://schemas.openxmlformats.org/officeDocument/2006/relationships/"
REL_TYPES = [RT + "image", RT + "slide", RT + "customXml", RT + "hyperlink", "http://example.invalid/rel/x", RT + "officeDocument", RT + "slideLayout"]
NS_P = "http://schemas.openxmlformats.org/presentationml/2006/main"
NS_A = "http://schemas.openxmlformats.org/drawingml/2006/main"
SLIDE_XML = (
    '<?xml version="1.0" encoding="UTF-8" standalone="yes"?>\n<p:sld xmlns:a="%s" xmlns:p="%s">\n  <p:cSld>\n    <p:spTree>\n      '
    "<p:nvGrpSpPr>\n        <p:cNvPr id=\"1\" name=\"\"/>\n        <p:cNvGrpSpPr/>\n        <p:nvPr/>\n      </p:nvGrpSpPr>\n      <p:grpSpPr/>\n      "
    '<p:sp><p:nvSpPr><p:cNvPr id="2" name="T %d"/><p:cNvSpPr/><p:nvPr/></p:nvSpPr><p:spPr/><p:txBody><a:bodyPr/><a:p><a:r><a:t> lead and trail </a:t></a:r><a:r><a:t> </a:t></a:r></a:p></p:txBody></p:sp>\n'
    "    </p:spTree>\n  </p:cSld>\n</p:sld>"
)


def ctype_pool():
    from pptx.opc.constants import CONTENT_TYPE as CT

    return {
        "generic": ["application/x-verif-a", "application/x-verif-b", "application/octet-stream", "text/plain"],
        "bin": [CT.PML_PRINTER_SETTINGS, CT.SML_PRINTER_SETTINGS, CT.WML_PRINTER_SETTINGS],
        "jpg": [CT.JPEG],
        "jpeg": [CT.JPEG],
        "jpe": [CT.JPEG],
        "png": [CT.PNG],
        "tif": [CT.TIFF],
        "tiff": [CT.TIFF],
        "gif": [CT.GIF],
        "xlsx": [CT.SML_SHEET],
        "xml": [CT.XML, CT.PML_SLIDE, CT.PML_SLIDE_LAYOUT, CT.OFC_CUSTOM_XML_PROPERTIES if hasattr(CT, "OFC_CUSTOM_XML_PROPERTIES") else CT.XML],
    }


XML_PARSED = None


def xml_parsed_types():
    """Content types python-pptx loads as parsed XML parts (payload must then be XML)."""
    global XML_PARSED
    if XML_PARSED is None:
        import pptx  # noqa  (registers part classes)
        from pptx.opc.package import PartFactory, XmlPart

        XML_PARSED = {ct for ct, cls in PartFactory.part_type_for.items() if issubclass(cls, XmlPart)}
    return XML_PARSED


# ------------------------------------------------------------------ generator
def gen_description(rnd):
    pool = ctype_pool()
    nparts = rnd.choice([2, 3, 3, 4, 5, 6, 8, 11, 14])
    dirs = ["", "ppt", "ppt/slides", "ppt/slidesX", "ppt/media", "a", "a/b/c/d", "customXml", "UP/Case", "a.b"]
    exts = ["xml", "bin", "bin", "BIN", "Bin", "png", "PNG", "jpg", "JPG", "jpeg", "JPE", "tif", "TIFF", "dat", "", "a.b", "xlsx", "XML", "gif"]
    parts = []
    used = set()
    for i in range(nparts):
        for _ in range(30):
            d = rnd.choice(dirs)
            ext = rnd.choice(exts)
            if parts and rnd.random() < 0.25:
                # same extension as an earlier part up to case (content types resolve case-insensitively)
                e0 = parts[rnd.randrange(len(parts))]["name"].rsplit("/", 1)[1]
                if "." in e0:
                    e0 = e0.rsplit(".", 1)[1]
                    ext = rnd.choice([e0.upper(), e0.lower(), e0.capitalize()])
            # (percent-escapes are part of a part NAME - 'image%201.png' is not 'image 1.png' - and stay as they are in Targets)
            stem = rnd.choice(["part", "slide", "image", "item", "x", "Part", "[x]", "p-q_r", "image%20", "%E5%9B%BE", "raw%2Bdata"]) + rnd.choice(["", "1", "2", "7", "21", "007"])
            fn = stem + ("." + ext if ext else "")
            name = "/" + (d + "/" if d else "") + fn
            if name.lower() not in used and not fn.endswith(".rels") and fn != "[Content_Types].xml":
                used.add(name.lower())
                break
        e = ext.lower().split(".")[-1] if ext else ""
        cands = pool.get(e, []) + pool["generic"]
        ct = rnd.choice(cands if rnd.random() < 0.7 else pool["generic"])
        if ct in xml_parsed_types():
            payload = ("xml", i)
        else:
            kind = rnd.choice(["empty", "random", "xmlish", "text"])
            payload = (kind, rnd.randrange(1 << 30))
        parts.append({"name": name, "ctype": ct, "payload": payload, "rels": []})
    # how each part's type is declared
    default_for_ext = {}
    for p in parts:
        fn = p["name"].rsplit("/", 1)[1]
        e = fn.rsplit(".", 1)[1].lower() if "." in fn else ""
        p["ext"] = e
        if e and e not in default_for_ext and rnd.random() < 0.6:
            default_for_ext[e] = p["ctype"]
    for p in parts:
        if p["ext"] and default_for_ext.get(p["ext"]) == p["ctype"]:
            p["declare"] = rnd.choice(["default", "default", "both"])
        else:
            p["declare"] = "override"
    # relationships: spanning tree from the root, then extras
    root_rels = []
    counters = {}

    def new_id(src):
        n = counters.get(src, 0) + rnd.choice([1, 1, 1, 2, 5])
        counters[src] = n
        style = rnd.random()
        if style < 0.75:
            return "rId%d" % n
        if style < 0.85:
            return "rId%d" % (n + 10 ** 9)
        return rnd.choice(["R%d", "id_%d", "x%dy"]) % n

    def add_rel(src_idx, tgt_idx, ext=None):
        rels = root_rels if src_idx is None else parts[src_idx]["rels"]
        rels.append(
            {
                "id": new_id(src_idx),
                "type": rnd.choice(REL_TYPES),
                "target": tgt_idx,
                "external": ext,
                "spelling": rnd.choice(["rel", "rel", "rel", "dot", "updown", "abs", "up"]),
            }
        )

    for i in range(nparts):
        src = None if i == 0 or rnd.random() < 0.25 else rnd.randrange(i)
        add_rel(src, i)
    for _ in range(rnd.choice([0, 1, 2, 4, 8])):
        src = rnd.choice([None] + list(range(nparts)))
        if rnd.random() < 0.25:
            add_rel(src, None, ext=rnd.choice(["http://example.com/a?b=1&c=2#frag", "file:///C:/x y/z%20.docx", "mailto:a@b.c", "../outside.xml", "https://h/p?q=<tag>&r='\""]))
        else:
            add_rel(src, rnd.randrange(nparts))  # may be a self-loop, a back edge (cycle) or a duplicate target
    if rnd.random() < 0.3:
        # twins: two sources in different directories whose relationship items spell a Target alike ('media/twin1.png') while
        # naming different parts (/d1/media/twin1.png, /d2/media/twin1.png) - as a document and its glossary document do
        d1, d2 = rnd.sample(["doc", "doc/glossary", "ppt", "ppt/slides", "a/b/c/d", "UP/Case"], 2)
        sub, leaf = rnd.choice(["media", "embeddings", "."]), rnd.choice(["twin1.png", "twin.bin", "Twin7.xml"])
        ct = rnd.choice(pool["generic"])
        idx = []
        for d in (d1, d2):
            src_name = "/%s/twinsrc.bin" % d
            tgt_name = posixpath.normpath("/%s/%s/%s" % (d, sub, leaf))
            if src_name.lower() in used or tgt_name.lower() in used:
                break
            used.update([src_name.lower(), tgt_name.lower()])
            parts.append({"name": src_name, "ctype": pool["generic"][0], "payload": ("text", rnd.randrange(1 << 30)), "rels": [], "ext": "bin", "declare": "override"})
            parts.append({"name": tgt_name, "ctype": ct, "payload": ("xml", len(parts)) if ct in xml_parsed_types() else ("random", rnd.randrange(1 << 30)), "rels": [], "ext": leaf.rsplit(".", 1)[1].lower(), "declare": "override"})
            idx.append((len(parts) - 2, len(parts) - 1))
        for si, ti in idx:
            add_rel(None, si)
            add_rel(si, ti)
            parts[si]["rels"][-1]["spelling"] = "rel"
    extras = []
    for _ in range(rnd.choice([0, 0, 1, 2])):
        extras.append(rnd.choice(["docProps/thumbnail.jpeg", "ppt/unused/part9.xml", "junk.bin", "ppt/_rels/ghost.xml.rels"]))
    return {
        "parts": parts,
        "root_rels": root_rels,
        "defaults": default_for_ext,
        "extras": sorted(set(extras)),
        "case": rnd.choice(["lower", "upper", "mixed"]),
        "ct_first": rnd.random() < 0.7,
    }


def payload_bytes(p, rnd_seed_unused=None):
    import random

    kind, seed = p["payload"]
    if kind == "xml":
        return (SLIDE_XML % (NS_A, NS_P, seed)).encode()
    r = random.Random(seed)
    if kind == "empty":
        return b""
    if kind == "random":
        return bytes(r.randrange(256) for _ in range(r.choice([1, 17, 300])))
    if kind == "xmlish":
        return b'<?xml version="1.0"?><r> <a x="1"/>\n <b>t &amp; u</b> </r>' + bytes([r.randrange(32, 127)])
    return ("text %d\n" % seed).encode()


def spell(src_name, tgt_name, how):
    base = "/" if src_name == "/" else posixpath.dirname(src_name)
    rel = tgt_name[1:] if base == "/" else posixpath.relpath(tgt_name, base)
    if how == "rel":
        return rel
    if how == "dot":
        return "./" + rel
    if how == "abs":
        return tgt_name
    if how == "updown":
        segs = rel.split("/")
        if len(segs) > 1 and segs[0] != "..":
            return segs[0] + "/../" + rel
        return "./" + rel
    if how == "up":
        # go up to the root and come back down
        depth = 0 if base == "/" else base.count("/")
        return "../" * depth + tgt_name[1:] if depth else rel
    return rel


def recase(s, mode, rnd):
    if mode == "lower":
        return s
    if mode == "upper":
        return s.upper()
    return "".join(c.upper() if rnd.random() < 0.5 else c.lower() for c in s)


def build_zip(desc, rnd):
    from xml.sax.saxutils import quoteattr

    members = []
    ct = ['<?xml version="1.0" encoding="UTF-8" standalone="yes"?>\n<Types xmlns="http://schemas.openxmlformats.org/package/2006/content-types">']
    ct.append('<Default Extension="%s" ContentType="application/vnd.openxmlformats-package.relationships+xml"/>' % recase("rels", desc["case"], rnd))
    for e, t in sorted(desc["defaults"].items()):
        if e != "rels":
            ct.append("<Default Extension=%s ContentType=%s/>" % (quoteattr(recase(e, desc["case"], rnd)), quoteattr(t)))
    for p in desc["parts"]:
        if p["declare"] in ("override", "both"):
            ct.append("<Override PartName=%s ContentType=%s/>" % (quoteattr(recase(p["name"], desc["case"], rnd)), quoteattr(p["ctype"])))
    ct.append("</Types>")

    def rels_xml(src_name, rels):
        out = ['<?xml version="1.0" encoding="UTF-8" standalone="yes"?>\n<Relationships xmlns="http://schemas.openxmlformats.org/package/2006/relationships">']
        for r in rels:
            if r["external"] is not None:
                out.append("<Relationship Id=%s Type=%s Target=%s TargetMode=\"External\"/>" % (quoteattr(r["id"]), quoteattr(r["type"]), quoteattr(r["external"])))
            else:
                tgt = spell(src_name, desc["parts"][r["target"]]["name"], r["spelling"])
                mode = ' TargetMode="Internal"' if len(r["id"]) % 2 else ""
                out.append("<Relationship Id=%s Type=%s Target=%s%s/>" % (quoteattr(r["id"]), quoteattr(r["type"]), quoteattr(tgt), mode))
        out.append("</Relationships>")
        return "\n".join(out).encode()

    members.append(("_rels/.rels", rels_xml("/", desc["root_rels"])))
    for p in desc["parts"]:
        members.append((p["name"][1:], payload_bytes(p)))
        if p["rels"] or (len(p["name"]) % 5 == 0):
            members.append((posixpath.dirname(p["name"])[1:] + ("/" if posixpath.dirname(p["name"]) != "/" else "") + "_rels/" + posixpath.basename(p["name"]) + ".rels", rels_xml(p["name"], p["rels"])))
    for e in desc["extras"]:
        members.append((e, b"<extra/>" if e.endswith("xml") else b"\x00extra"))
    rnd.shuffle(members)
    ctm = ("[Content_Types].xml", "\n".join(ct).encode())
    members = [ctm] + members if desc["ct_first"] else members + [ctm]
    buf = io.BytesIO()
    with zipfile.ZipFile(buf, "w", zipfile.ZIP_DEFLATED) as zf:
        for n, b in members:
            zf.writestr(n, b)
    return buf.getvalue()


def nontrivial(desc):
    parts = desc["parts"]
    if len(parts) < 3:
        return False
    allrels = [(None, r) for r in desc["root_rels"]] + [(i, r) for i, p in enumerate(parts) for r in p["rels"]]
    targets = [r["target"] for _, r in allrels if r["external"] is None]
    shared = len(targets) != len(set(targets))
    loop = any(s is not None and r["external"] is None and r["target"] <= s for s, r in allrels)
    ext = any(r["external"] is not None for _, r in allrels)
    dotted = any(r["spelling"] != "rel" for _, r in allrels)
    by_ext = {}
    for p in parts:
        by_ext.setdefault(p["ext"], set()).add(p["ctype"])
    sameext = any(len(v) > 1 for v in by_ext.values())
    return shared or loop or ext or dotted or sameext


# ------------------------------------------------------------------ oracle
def classify_ctype(pin, pn):
    """mechanism key for a changed content type"""
    from pptx.opc.spec import default_content_types

    fn = pn.rsplit("/", 1)[1]
    e = fn.rsplit(".", 1)[1].lower() if "." in fn else ""
    listed = [t for (x, t) in default_content_types if x == e]
    others = {pin.ctype(o) for o in pin.reachable() if o != pn and o.lower().endswith("." + e)}
    if len(listed) > 1 and pin.ctype(pn) in listed and any(o in listed for o in others):
        return "content-type-changed:parts-sharing-an-extension-with-several-default-listed-types"
    return "content-type-changed:other"


def compare(pin, pout, acc, witness, label):
    from vlib import opcx

    ok = True

    def bad(key, what):
        nonlocal ok
        ok = False
        acc.violation(key, "%s: %s" % (label, what), witness)

    reach = pin.reachable()
    out_parts = pout.part_names()
    acc.count("parts_compared", len(reach))
    for n in pout.duplicates:
        bad("output-duplicate-member", n)
    missing = [p for p in reach if not pout.has_part(p)]
    extra = [p for p in out_parts if p not in set(reach)]
    for p in missing[:3]:
        bad("reachable-part-missing", "%s is reachable in the input but absent from the output" % p)
    for p in extra[:3]:
        bad("unreachable-or-new-part-written", "%s is in the output but not a reachable input part" % p)
    # every other member must be the content-types stream or a rels item of a written part
    for n in pout.members:
        if n == "[Content_Types].xml" or ("/" + n) in out_parts:
            continue
        d, f = posixpath.split(n)
        src = "/" + (posixpath.dirname(d) + "/" if posixpath.dirname(d) else "") + f[: -len(".rels")]
        if n == "_rels/.rels" or (f.endswith(".rels") and pout.has_part(src)):
            continue
        bad("stray-member-written", "%s belongs to no written part" % n)
    for p in reach:
        if not pout.has_part(p):
            continue
        a, b = pin.ctype(p), pout.ctype(p)
        if a != b:
            bad(classify_ctype(pin, p), "%s content type %r -> %r" % (p, a, b))
        # (blank-tolerant equivalence only for the Office vocabularies, whose containers are element-only; the content type is
        # the INPUT's, not what the tree under test makes of it)
        if not opcx.same_payload(pin.blob(p), pout.blob(p), strict=not (a or "").startswith(("application/vnd.openxmlformats", "application/vnd.ms-"))):
            kind = "xml" if opcx.canonical(pin.blob(p)) is not None else "binary"
            bad("payload-changed:%s" % kind, "%s payload differs (%d -> %d bytes)" % (p, len(pin.blob(p)), len(pout.blob(p))))
    for src in ["/"] + [p for p in reach if pout.has_part(p)]:
        ra = sorted(r.key() for r in (pin.rels(src) or []) if r.external or pin.has_part(r.target))
        rb = sorted(r.key() for r in (pout.rels(src) or []))
        acc.count("relationship_sets_compared")
        if ra != rb:
            only_a = [k for k in ra if k not in rb]
            only_b = [k for k in rb if k not in ra]
            kind = "lost" if only_a and not only_b else ("gained" if only_b and not only_a else "changed")
            bad("relationships-%s" % kind, "%s: input-only %s, output-only %s" % (src, only_a[:2], only_b[:2]))
    for prob in pout.ct_problems():
        bad("output-content-types:" + prob.split(" for ")[0], prob)
    return ok


def roundtrip(open_fn, data_or_path, acc, witness, label, pin):
    from vlib import opcx

    from vlib import env

    # the documented forms of both arguments: a path or a file-like object - in-memory stream, real file handle
    how = sum(label.encode()) % 3
    try:
        with env.Scratch("c01io") as iotmp:
            src, fh_in = data_or_path, None
            if isinstance(data_or_path, io.BytesIO) and how != 2:
                # a stream is a package wherever its cursor stands (just written by a save: at the end; signature peeked: at 4)
                data_or_path.seek([0, 4, len(data_or_path.getvalue())][sum(label.encode()) // 3 % 3])
                acc.count("opened_from_a_stream_whose_cursor_is_not_at_0", 1 if data_or_path.tell() else 0)
            if how == 2 and isinstance(data_or_path, io.BytesIO):
                with open(os.path.join(iotmp, "in.bin"), "wb") as fh:
                    fh.write(data_or_path.getvalue())
                src = fh_in = open(os.path.join(iotmp, "in.bin"), "rb")  # opened from a real file object
                acc.count("opened_from_a_real_file_object")
            try:
                pkg = open_fn(src)
                if how == 0:
                    buf = io.BytesIO()
                    pkg.save(buf)
                    out1 = buf.getvalue()
                elif how == 1:
                    pkg.save(os.path.join(iotmp, "out.zip"))
                    out1 = open(os.path.join(iotmp, "out.zip"), "rb").read()
                    acc.count("saved_to_a_path")
                else:
                    with open(os.path.join(iotmp, "out.zip"), "wb") as fh_out:
                        pkg.save(fh_out)
                    out1 = open(os.path.join(iotmp, "out.zip"), "rb").read()
                    acc.count("saved_to_a_real_file_object")
            finally:
                if fh_in is not None:
                    fh_in.close()
    except Exception as e:  # noqa
        acc.violation("open-save-raises:%s" % type(e).__name__, "%s: %r" % (label, e), witness)
        return
    acc.hit("OpcPackage.save")
    pout = opcx.Pkg.from_bytes(out1)
    compare(pin, pout, acc, witness, label)
    # second pass: save(open(out)) == out, member for member
    try:
        again = io.BytesIO()
        again.write(out1)  # as a caller who saved into this stream and opens it again without rewinding
        pkg2 = open_fn(again)
        buf2 = io.BytesIO()
        pkg2.save(buf2)
    except Exception as e:  # noqa
        acc.violation("reopen-own-output-raises:%s" % type(e).__name__, "%s: %r" % (label, e), witness)
        return
    p2 = opcx.Pkg.from_bytes(buf2.getvalue())
    acc.count("second_pass_member_comparisons", len(p2.members))
    if set(p2.members) != set(pout.members):
        acc.violation("second-save-member-set-differs", "%s: %s" % (label, sorted(set(p2.members) ^ set(pout.members))[:4]), witness)
    else:
        for n in pout.members:
            if p2.members[n] != pout.members[n]:
                acc.violation("second-save-bytes-differ", "%s: member %s differs between first and second save" % (label, n), witness)
                break


def openers():
    from pptx.opc.package import OpcPackage
    from pptx.package import Package

    return [("OpcPackage", OpcPackage.open), ("Package", Package.open)]


def run_generated(seed_parts, acc, want_dir=True):
    from vlib import env, opcx

    rnd = env.rng("C01", *seed_parts)
    desc = gen_description(rnd)
    data = build_zip(desc, env.rng("C01z", *seed_parts))
    pin = opcx.Pkg.from_bytes(data)
    # precondition self-check: generated input is a well-formed package whose relationships resolve
    extras = {"/" + e for e in desc["extras"]}
    pre = [
        p
        for p in opcx.closure_problems(pin)
        if p[0] not in ("office-document-relationship", "unreachable-part-written") and not (p[0] == "no-content-type" and p[1] in extras)
    ]
    if pre or len(pin.reachable()) != len(desc["parts"]):
        acc.count("generated_inputs_rejected_by_selfcheck")
        acc.note("generator self-check: %s" % (pre[:2],))
        return
    witness = {"gen": list(seed_parts)}
    nt = nontrivial(desc)
    for cname, fn in openers():
        roundtrip(fn, io.BytesIO(data), acc, witness, "generated %s stream %s" % (list(seed_parts), cname), pin)
    if want_dir:
        with env.Scratch("c01") as tmp:
            zp = os.path.join(tmp, "in.zip")
            open(zp, "wb").write(data)
            roundtrip(openers()[0][1], zp, acc, witness, "generated %s path OpcPackage" % (list(seed_parts),), pin)
            dp = os.path.join(tmp, "dir")
            try:
                zipfile.ZipFile(io.BytesIO(data)).extractall(dp)
                if sum(seed_parts[-1:]) % 2 if isinstance(seed_parts[-1], int) else False:
                    os.symlink(dp, dp + "-link")  # the same directory reached through a symbolic link
                    dp = dp + "-link"
                    acc.count("directory_packages_opened_through_a_symlink")
                roundtrip(openers()[0][1], dp, acc, witness, "generated %s directory OpcPackage" % (list(seed_parts),), pin)
            except OSError:
                acc.count("directory_form_not_extractable")
    acc.case(
        desc=desc,
        nontrivial=nt,
        cls="generated",
        sample={"parts": [(p["name"], p["ctype"], p["declare"]) for p in desc["parts"]][:6], "root_rels": len(desc["root_rels"]), "extras": desc["extras"]},
    )


def run_corpus(path, acc):
    from vlib import env, opcx

    pin = opcx.Pkg.from_path(path)
    witness = {"deck": os.path.relpath(path, env.REPO)}
    name = os.path.basename(path)
    for cname, fn in openers():
        roundtrip(fn, path, acc, witness, "%s path %s" % (name, cname), pin)
        roundtrip(fn, io.BytesIO(open(path, "rb").read()), acc, witness, "%s stream %s" % (name, cname), pin)
        with env.Scratch("c01") as tmp:
            real = os.path.join(tmp, "pkg")
            zipfile.ZipFile(path).extractall(real)
            roundtrip(fn, real, acc, witness, "%s directory %s" % (name, cname), pin)
            os.symlink(real, os.path.join(tmp, "via-link"))  # the same directory reached through a symbolic link
            roundtrip(fn, os.path.join(tmp, "via-link"), acc, witness, "%s directory-through-symlink %s" % (name, cname), pin)
            acc.count("directory_packages_opened_through_a_symlink")
        acc.case(desc={"deck": name, "class": cname}, nontrivial=len(pin.reachable()) >= 10, cls="corpus")


def plan(tier, seed):
    from vlib import env

    decks = env.corpus_decks() + env.corpus_dir_packages()
    n = 1600 if tier == "quick" else 30000
    units = [{"kind": "corpus", "paths": decks[i::8]} for i in range(8)]
    per = 100 if tier == "quick" else 500
    units += [{"kind": "gen", "lo": lo, "hi": min(n, lo + per)} for lo in range(0, n, per)]
    return units


def run_unit(unit, tier, seed, acc):
    from vlib import env, opcx

    if unit["kind"] == "corpus":
        for p in unit["paths"]:
            if os.path.isdir(p):
                pin = opcx.Pkg.from_path(p)
                for cname, fn in openers():
                    roundtrip(fn, p, acc, {"deck": os.path.relpath(p, env.REPO)}, "%s directory %s" % (os.path.basename(p), cname), pin)
                    acc.case(desc={"deck": p, "class": cname}, nontrivial=True, cls="corpus-directory")
            else:
                run_corpus(p, acc)
    else:
        for i in range(unit["lo"], unit["hi"]):
            run_generated((seed, i), acc, want_dir=(i % 10 == 0))


def replay(w, acc):
    from vlib import env

    if "gen" in w:
        run_generated(tuple(w["gen"]), acc)
    else:
        run_corpus(os.path.join(env.REPO, w["deck"]), acc)
    print("violations:", [(v["key"], v["what"][:200]) for v in acc.violations])


def finalize(acc, tier, seed):
    if not acc.counters.get("parts_compared"):
        acc.inconclusive.append("no part was compared")
    if not acc.counters.get("second_pass_member_comparisons"):
        acc.inconclusive.append("second-save comparison never ran")
    rej = acc.counters.get("generated_inputs_rejected_by_selfcheck", 0)
    if rej > 0.2 * max(1, acc.classes.get("generated", 0) + rej):
        acc.inconclusive.append("more than 20%% of generated packages failed the generator self-check (%d)" % rej)
