"""C15 — images are stored once, byte-exact, with the type and size of the actual image.

Workload: seeded *histories*.  A history owns 2-5 image recipes (PNG/JPEG/GIF/BMP/TIFF, 1..64 px per axis,
pixels derived from the recipe hash, resolution written by hand into the header: PNG pHYs, JFIF density,
BMP pels/metre, TIFF tags 282/283/296 — absent, integral, fractional, exact .5 ties, 0, huge, non-square,
unit-less) and a list of operations: add_picture on a slide or inside a group (path whose extension is right,
wrong, upper-case or missing; fresh or already-consumed stream; no size / width only / height only / both),
PicturePlaceholder.insert_picture, add_movie(poster_frame_image=), add_ole_object(icon_file=), new slides,
save, and save + re-open (optionally after the harness renumbered ppt/media/image* with gaps in the zip) with
the additions continuing on the re-opened deck.
Oracle (every save): vlib.opcx reads the zip; image parts <-> distinct input byte strings must be a bijection
with equal bytes; names unique; extension/content type those of the format found by magic-byte sniffing; each
shape's blip resolves (slide XML -> rels -> part) to the bytes it was given; default size = px*914400/dpi for
the DPI read by the harness's own header parsers; one given dimension -> the other keeps the aspect ratio.
python-pptx's own view (picture.image.blob/ext/content_type/size) is compared at add time and after re-open.
"""
from __future__ import annotations

import hashlib
import io
import json
import os
import random
import re
import struct
import zipfile
import zlib
from fractions import Fraction
from math import ceil, floor

ID = "C15"
LEVEL = "exploration"
RULE = (
    "seeded histories (module docstring): 2-5 image recipes x 6-14 operations with at least one save+re-open in the "
    "middle; history i has primary format FORMATS[i%5] and is forced to use entry point ENTRY[i%6] after the re-open. "
    "Non-trivial: some image is added both before and after a re-open (the SHA-1 index it is found in was rebuilt from "
    "loaded parts). Distinct by hash of (recipes, operations)."
)
ASSUMPTIONS = [
    "vlib/opcx.py (zipfile + plain lxml) reads the saved package; the harness's own magic-byte sniffer and header parsers (PNG IHDR/pHYs, JPEG SOFn/JFIF, GIF LSD, BMP BITMAPINFOHEADER, TIFF IFD0) give format, pixel size and DPI",
    "Pillow only *writes* the test images and is asked once per image whether it can decode the patched bytes (generator precondition); its idea of size must equal the harness parser's",
    "DPI reading: per axis, nearest integer (both neighbours accepted within 1e-6 relative of a tie, which covers Pillow's 39.3701 in/m for BMP); 72 when the header carries none, a unit-less value, 0, < 1 or > 2048 (either the true or the rounded value may be tested against the range); when one axis falls back to 72 the other may too",
    "sizes are whole EMU: default size within 1 EMU of px*914400/dpi; with one dimension given the other lies in the interval obtained by propagating +-1 EMU on both native dimensions, +-1 EMU; the aspect ratio is that of the native size (px/dpi per axis), equal to px_w/px_h when the DPI is square",
]
WATCHDOG_S = {"quick": 300, "thorough": 1800}

EMU = 914400
FORMATS = ["png", "jpeg", "gif", "bmp", "tiff"]
ENTRY = ["pic", "grp", "ph", "movie", "ole", "pic"]
PIL_NAME = {"png": "PNG", "jpeg": "JPEG", "gif": "GIF", "bmp": "BMP", "tiff": "TIFF"}
MAGIC = [(b"\x89PNG\r\n\x1a\n", "png"), (b"\xff\xd8", "jpeg"), (b"GIF8", "gif"), (b"BM", "bmp"), (b"II*\x00", "tiff"), (b"MM\x00*", "tiff"), (b"\xd7\xcd\xc6\x9a", "wmf")]
EXTS = {"png": {"png"}, "jpeg": {"jpg", "jpeg"}, "gif": {"gif"}, "bmp": {"bmp"}, "tiff": {"tiff", "tif"}, "emf": {"emf"}, "wmf": {"wmf"}}
CTYPE = {"png": "image/png", "jpeg": "image/jpeg", "gif": "image/gif", "bmp": "image/bmp", "tiff": "image/tiff", "emf": "image/x-emf", "wmf": "image/x-wmf"}
NS_A = "{http://schemas.openxmlformats.org/drawingml/2006/main}"
NS_P = "{http://schemas.openxmlformats.org/presentationml/2006/main}"
NS_R = "{http://schemas.openxmlformats.org/officeDocument/2006/relationships}"
REACH = ["add_picture:path", "add_picture:stream", "insert_picture", "poster-frame", "ole-icon", "group.add_picture", "reopen-continue", "reopen-after-renumbering"]


# ------------------------------------------------------------------ image synthesis (generator side)
class DuckStream:
    """read / seek / tell and nothing else (no seekable(), no mode, no name)."""

    def __init__(self, data):
        self._b = io.BytesIO(data)

    def read(self, n=-1):
        return self._b.read(n)

    def seek(self, pos, whence=0):
        return self._b.seek(pos, whence)

    def tell(self):
        return self._b.tell()


class ReadOnlyStream:
    """read() and nothing else: a network response, the read end of a pipe (a file-like object that cannot be rewound)."""

    def __init__(self, data, pipe=False):
        self._b, self._pipe = io.BytesIO(data), pipe

    def read(self, n=-1):
        return self._b.read(n)

    def __getattr__(self, name):
        if self._pipe and name in ("seek", "tell", "seekable"):
            # like the read end of a pipe: the methods exist, seekable() says no, seek() raises
            if name == "seekable":
                return lambda: False

            def refuse(*a, **k):
                raise io.UnsupportedOperation("File or stream is not seekable.")

            return refuse
        raise AttributeError(name)


def make_image(rec):
    """Recipe -> bytes.  Pillow encodes the pixels; the resolution fields are written by hand."""
    from PIL import Image

    w, h, fmt, d = rec["w"], rec["h"], rec["fmt"], rec["dpi"]
    digest = hashlib.sha1(json.dumps(rec, sort_keys=True).encode()).digest()
    im = Image.frombytes("RGB", (w, h), (digest * (w * h * 3 // 20 + 1))[: w * h * 3])
    buf = io.BytesIO()
    if fmt == "tiff":
        kw = {}
        if d["kind"] == "res":
            from PIL.TiffImagePlugin import IFDRational

            kw["tiffinfo"] = {282: IFDRational(*d["x"]), 283: IFDRational(*d["y"])}
            if d.get("unit") is not None:
                kw["tiffinfo"][296] = d["unit"]
        im.save(buf, "TIFF", **kw)
        return buf.getvalue()
    kw = {}
    if rec.get("orient"):  # EXIF Orientation (a camera held on its side): the stored pixel grid is what counts
        exif = Image.Exif()
        exif[0x0112] = rec["orient"]
        kw["exif"] = exif
    if rec.get("frames"):
        im.save(buf, "MPO", save_all=True, append_images=[im.transpose(Image.FLIP_LEFT_RIGHT)], **kw)
    else:
        im.save(buf, PIL_NAME[fmt], **kw)
    data = buf.getvalue()
    if fmt == "png" and d["kind"] == "phys":
        chunk = b"pHYs" + struct.pack(">IIB", d["x"], d["y"], d["unit"])
        data = data[:33] + struct.pack(">I", 9) + chunk + struct.pack(">I", zlib.crc32(chunk)) + data[33:]
    elif fmt == "jpeg":
        assert data[2:4] == b"\xff\xe0" and data[6:11] == b"JFIF\0"
        data = data[:13] + struct.pack(">BHH", d["unit"], d["x"], d["y"]) + data[18:]
    elif fmt == "bmp":
        assert struct.unpack("<I", data[14:18])[0] >= 40
        data = data[:38] + struct.pack("<ii", d["x"], d["y"]) + data[46:]
    return data


PPM = [2835, 3780, 11811, 5906, 2500, 7500, 0, 1, 30, 120000, 80630, 80620, 5000]
DENS = [72, 96, 300, 1, 0, 2048, 2049, 3000, 65535, 25, 118, 28, 110]
RATS = [(72, 1), (72009, 1000), (2999994, 10000), (300, 1), (0, 1), (3000, 1), (1, 2), (3, 2), (7, 0), (127, 2), (20485, 10), (96, 1), (110, 1)]


def gen_recipe(rnd, fmt, tint):
    px = lambda: rnd.choice([1, 1, 2, 3, 64, 64] + [rnd.randint(1, 64) for _ in range(5)])  # noqa: E731
    rec = {"fmt": fmt, "w": px(), "h": px(), "tint": tint}
    both = lambda pick: (lambda a: (a, a if rnd.random() < 0.65 else pick()))(pick())  # noqa: E731
    if fmt in ("png", "bmp"):
        x, y = both(lambda: rnd.choice(PPM + [rnd.randint(1, 90000)] * 6))
        if fmt == "png" and rnd.random() < 0.3:
            rec["dpi"] = {"kind": "none"}
        else:
            rec["dpi"] = {"kind": "phys", "x": x, "y": y, "unit": 0 if (fmt == "png" and rnd.random() < 0.12) else 1}
    elif fmt == "jpeg":
        x, y = both(lambda: rnd.choice(DENS + [rnd.randint(1, 2100)] * 5))
        unit = rnd.choice([0, 1, 1, 1, 2, 2])
        rec["dpi"] = {"kind": "jfif", "unit": unit, "x": x if unit else max(1, x % 7), "y": y if unit else max(1, y % 5)}
        if rnd.random() < 0.15:
            rec["frames"] = 2  # a multi-picture JPEG (MPF index in APP2: phone portrait / burst shots): still a JPEG file
    elif fmt == "tiff":
        if rnd.random() < 0.25:
            rec["dpi"] = {"kind": "none"}
        else:
            x, y = both(lambda: rnd.choice(RATS + [(rnd.randint(1, 300000), rnd.choice([1, 7, 100, 1000]))] * 5))
            rec["dpi"] = {"kind": "res", "x": list(x), "y": list(y), "unit": rnd.choice([2, 2, 2, 2, 3, 3, 1, None])}
    else:
        rec["dpi"] = {"kind": "none"}
    if fmt in ("jpeg", "png") and rnd.random() < 0.25:
        rec["orient"] = rnd.choice([2, 3, 5, 6, 7, 8])
    return rec


# ------------------------------------------------------------------ independent readers (oracle side)
def sniff(b):
    for magic, fmt in MAGIC:
        if b.startswith(magic):
            return fmt
    if b[:4] == b"\x01\x00\x00\x00" and b[40:44] == b" EMF":  # an Enhanced Metafile: EMR_HEADER record, signature at offset 40
        return "emf"
    return None


def facts(b):
    """-> (format, px_w, px_h, dpi_x, dpi_y); dpi as exact Fraction, None when the header carries none."""
    fmt = sniff(b)
    w = h = dx = dy = None
    metre, cm = Fraction(254, 10000), Fraction(254, 100)
    if fmt == "png":
        w, h = struct.unpack(">II", b[16:24])
        pos = 8
        while pos + 8 <= len(b):
            n, typ = struct.unpack(">I4s", b[pos : pos + 8])
            if typ == b"IDAT":
                break
            if typ == b"pHYs":
                px, py, unit = struct.unpack(">IIB", b[pos + 8 : pos + 17])
                if unit == 1:
                    dx, dy = px * metre, py * metre
            pos += 12 + n
    elif fmt == "jpeg":
        pos = 2
        while pos + 4 <= len(b) and b[pos] == 0xFF:
            m = b[pos + 1]
            n = struct.unpack(">H", b[pos + 2 : pos + 4])[0]
            seg = b[pos + 4 : pos + 2 + n]
            if m == 0xE0 and seg[:5] == b"JFIF\0":
                unit, px, py = struct.unpack(">BHH", seg[7:12])
                if unit in (1, 2):
                    dx, dy = (Fraction(px), Fraction(py)) if unit == 1 else (px * cm, py * cm)
            if 0xC0 <= m <= 0xCF and m not in (0xC4, 0xC8, 0xCC):
                h, w = struct.unpack(">HH", seg[1:5])
            if m == 0xDA:
                break
            pos += 2 + n
    elif fmt == "gif":
        w, h = struct.unpack("<HH", b[6:10])
    elif fmt == "bmp":
        w, h, _, _, _, _, px, py = struct.unpack("<iiHHIIii", b[18:46])
        h = abs(h)
        dx, dy = px * metre, py * metre
    elif fmt == "tiff":
        bo = "<" if b[:2] == b"II" else ">"
        off = struct.unpack(bo + "I", b[4:8])[0]
        tags = {}
        for i in range(struct.unpack(bo + "H", b[off : off + 2])[0]):
            e = b[off + 2 + 12 * i : off + 14 + 12 * i]
            tag, typ, cnt = struct.unpack(bo + "HHI", e[:8])
            if typ == 3:
                tags[tag] = struct.unpack(bo + "H", e[8:10])[0]
            elif typ == 4:
                tags[tag] = struct.unpack(bo + "I", e[8:12])[0]
            elif typ == 5:
                vo = struct.unpack(bo + "I", e[8:12])[0]
                tags[tag] = struct.unpack(bo + "II", b[vo : vo + 8])
        w, h = tags.get(256), tags.get(257)
        unit = tags.get(296, 2)  # TIFF 6.0: ResolutionUnit defaults to inch; X/YResolution have no default
        if unit in (2, 3):
            for tag in (282, 283):
                v = tags.get(tag)
                val = Fraction(v[0], v[1]) * (cm if unit == 3 else 1) if v and v[1] else None
                dx, dy = (val, dy) if tag == 282 else (dx, val)
    return fmt, w, h, dx, dy


def dpi_choices(x):
    """Integer DPI values an implementation may use for true value x (see ASSUMPTIONS)."""
    if x is None:
        return {72}
    out = set()
    eps = max(Fraction(1, 10**9), x / 10**6)
    for v in (x - eps, x, x + eps):
        r = floor(v + Fraction(1, 2))
        if 1 <= r <= 2048:
            out.add(r)
        if v < 1 or v > 2048 or not 1 <= r <= 2048:
            out.add(72)
    return out


def dpi_pair(dx, dy):
    cx, cy = dpi_choices(dx), dpi_choices(dy)
    bad = lambda v: v is None or v < 1 or v > 2048  # noqa: E731
    if bad(dx) or bad(dy):
        cx.add(72), cy.add(72)
    return cx, cy


def dpi_class(dx, dy):
    def c(v):
        if v is None:
            return "absent"
        if v == 0:
            return "zero"
        if v < 1:
            return "below-1"
        if v > 2048:
            return "huge"
        return "integral" if v.denominator == 1 else "fractional"

    return c(dx) if dx == dy else "nonsquare:" + "+".join(sorted({c(dx), c(dy)}))


def default_ok(got, px, choices):
    return any(floor(Fraction(px * EMU, d)) - 1 <= got <= ceil(Fraction(px * EMU, d)) + 1 for d in choices)


def aspect_ok(got, given, px_given, px_other, ch_given, ch_other):
    """`given` EMU on one axis -> is `got` on the other within rounding of the native aspect ratio?"""
    for dg in ch_given:
        for do in ch_other:
            ng, no = Fraction(px_given * EMU, dg), Fraction(px_other * EMU, do)
            if floor(given * (no - 1) / (ng + 1)) - 1 <= got <= ceil(given * (no + 1) / (ng - 1)) + 1:
                return True
    return False


# ------------------------------------------------------------------ package reading (oracle side)
def slide_partnames(pkg):
    from vlib import opcx

    main = [r for r in pkg.rels("/") if r.type == opcx.RT_OFFICE_DOCUMENT and not r.external][0].target
    by_id = {r.id: r.target for r in pkg.rels(main)}
    return [by_id.get(el.get(NS_R + "id")) for el in pkg.xml_root(main).iter(NS_P + "sldId")]


def image_partnames(pkg):
    names = set()
    for src in ["/"] + pkg.part_names():
        for r in pkg.rels(src) or []:
            if not r.external and r.type.endswith("/image") and pkg.has_part(r.target):
                names.add(r.target)
    for pn in pkg.part_names():
        if pn.startswith("/ppt/media/") and (pkg.ctype(pn) or "").startswith("image/"):
            names.add(pn)
    return sorted(names)


def shape_in_slide(pkg, slide_pn, shape_id):
    """-> (shape element, bytes its first a:blip r:embed resolves to | None)"""
    root = pkg.xml_root(slide_pn)
    hits = [el for el in root.iter(NS_P + "cNvPr") if el.get("id") == str(shape_id)]
    if len(hits) != 1:
        return None, None
    sh = hits[0].getparent().getparent()
    blip = next(iter(sh.iter(NS_A + "blip")), None)
    rid = blip.get(NS_R + "embed") if blip is not None else None
    tgt = {r.id: r.target for r in pkg.rels(slide_pn) or [] if not r.external}.get(rid)
    return sh, (pkg.blob(tgt) if tgt and pkg.has_part(tgt) else None)


def renumber(data, gap_seed, force_shared=False):
    """Rename ppt/media/imageN.ext consistently (members, relationship targets) so that the numbering has gaps."""
    rnd = random.Random(gap_seed)
    zin = zipfile.ZipFile(io.BytesIO(data))
    olds = sorted(n[len("ppt/media/") :] for n in zin.namelist() if re.fullmatch(r"ppt/media/image\d+\.\w+", n))
    idxs = rnd.sample(range(1, len(olds) + 5), len(olds))
    # two parts may share an index under different extensions (image1.png + image1.jpg): legal, and what
    # PowerPoint-authored decks contain; the next free name must still be chosen per whole name
    if len(olds) >= 2 and (force_shared or rnd.random() < 0.5):
        exts = [o.rsplit(".", 1)[1] for o in olds]
        pairs = [(i, j) for i in range(len(olds)) for j in range(i + 1, len(olds)) if exts[i] != exts[j]]
        if pairs:
            i, j = rnd.choice(pairs)
            idxs[j] = idxs[i]
            if force_shared or rnd.random() < 0.6:  # dense numbering around the shared index: 1,1,2,3,... (no gap to fall into)
                rest = [k for k in range(len(olds)) if k not in (i, j)]
                rnd.shuffle(rest)
                idxs[i] = idxs[j] = 1
                for n, k in enumerate(rest):
                    idxs[k] = n + 2
    mapping = {}
    for old, idx in zip(olds, idxs):
        mapping[old.encode()] = ("image%d.%s" % (idx, old.rsplit(".", 1)[1])).encode()
    bare = "image.%s" % olds[0].rsplit(".", 1)[1] if olds else None
    if olds and rnd.random() < 0.3 and "ppt/media/" + bare not in zin.namelist():  # one part without an index
        mapping[olds[0].encode()] = bare.encode()
    pat = re.compile(rb'media/(image\d+\.\w+)"')
    out = io.BytesIO()
    with zipfile.ZipFile(out, "w", zipfile.ZIP_DEFLATED) as zf:
        for info in zin.infolist():
            blob, name = zin.read(info), info.filename
            if name.endswith(".rels") or name == "[Content_Types].xml":
                blob = pat.sub(lambda m: b"media/" + mapping.get(m.group(1), m.group(1)) + b'"', blob)
            if name.startswith("ppt/media/") and name[10:].encode() in mapping:
                name = "ppt/media/" + mapping[name[10:].encode()].decode()
            zf.writestr(name, blob)
    return out.getvalue()


# ------------------------------------------------------------------ one history
class Run:
    def __init__(self, h, acc, tmp):
        self.h, self.acc, self.tmp = h, acc, tmp
        self.images = [make_image(r) for r in h["recipes"]]
        self.facts = [facts(b) for b in self.images]
        self.streams = {}
        self.added = {}  # input bytes -> recipe index of first addition
        self.shapes = []  # expectations: dict(slide, id, img, kind, w, h)
        self.step = 0
        self.movie_n = 0
        self.reopened = False

    def witness(self):
        return {"recipes": self.h["recipes"], "ops": self.h["ops"][: self.step + 1]}

    def bad(self, key, what):
        self.acc.violation(key, "op %d: %s" % (self.step, what), self.witness())

    def precondition(self):
        """Every generated image decodes with Pillow and the harness parser agrees on format and size."""
        from PIL import Image

        for rec, b, f in zip(self.h["recipes"], self.images, self.facts):
            try:
                im = Image.open(io.BytesIO(b))
                im.load()
                ok = f[0] == rec["fmt"] and (f[1], f[2]) == im.size == (rec["w"], rec["h"])
            except Exception:  # noqa
                ok = False
            if not ok:
                self.acc.count("generator_selfcheck_failed")
                self.acc.note("generator self-check failed for recipe %s" % json.dumps(rec, sort_keys=True))
                return False
        return True

    def source(self, via, i):
        if via["how"] == "path-shared":
            # one path re-written with the current image before each use (a loop rendering every figure to the same file)
            d = os.path.join(self.tmp, "shared")
            os.makedirs(d, exist_ok=True)
            p = os.path.join(d, via["name"])
            with open(p, "wb") as fh:
                fh.write(self.images[i])
            self.acc.count("additions_from_a_path_rewritten_with_other_bytes")
            return p
        if via["how"] == "path":
            d = os.path.join(self.tmp, "img%d" % i)
            os.makedirs(d, exist_ok=True)
            p = os.path.join(d, via["name"])
            if not os.path.exists(p):
                with open(p, "wb") as fh:
                    fh.write(self.images[i])
            return p
        if via["how"] == "stream-reused" and i in self.streams:
            return self.streams[i]  # already read to its end by an earlier addition
        if via["how"] in ("stream-readonly", "stream-pipe"):
            # fresh for every addition: it cannot be rewound, so it can be read once
            self.acc.count("additions_from_a_stream_that_cannot_seek")
            return ReadOnlyStream(self.images[i], pipe=via["how"] == "stream-pipe")
        if via["how"] == "stream-duck":
            # a file-like object that is not an io class (an upload wrapper): read / seek / tell only, the caller has already
            # peeked at its first bytes, and the same object is handed in again for later additions of this image
            if ("duck", i) not in self.streams:
                self.streams[("duck", i)] = DuckStream(self.images[i])
            self.streams[("duck", i)].read(min(8, len(self.images[i])))
            self.acc.count("additions_from_a_duck_typed_stream_not_at_position_0")
            return self.streams[("duck", i)]
        self.streams[i] = io.BytesIO(self.images[i])
        return self.streams[i]

    # -- operations
    def apply(self, prs, op):
        import pptx
        from pptx.enum.shapes import PP_PLACEHOLDER, PROG_ID
        from pptx.util import Emu

        acc, kind = self.acc, op["op"]
        if kind == "slide":
            prs.slides.add_slide(prs.slide_layouts[6])
            return prs
        if kind in ("save", "reopen"):
            data = self.save_and_check(prs)
            if kind == "save" or data is None:
                return prs
            if op.get("gap") is not None:
                from vlib import opcx

                gapped = renumber(data, op["gap"], op.get("shared", False))
                if opcx.closure_problems(opcx.Pkg.from_bytes(gapped)) == opcx.closure_problems(opcx.Pkg.from_bytes(data)):
                    data = gapped
                    acc.hit("reopen-after-renumbering")
                else:
                    acc.count("renumbering_selfcheck_failed")
            if op.get("jpg_alias") and b'"image/jpeg"' in zipfile.ZipFile(io.BytesIO(data)).read("[Content_Types].xml"):
                # the deck as another producer writes it: JPEG parts typed 'image/jpg' (an alias python-pptx knows); they must load as
                # image parts all the same - same bytes re-added later are still recognised, picture.image still answers
                zin = zipfile.ZipFile(io.BytesIO(data))
                out = io.BytesIO()
                with zipfile.ZipFile(out, "w", zipfile.ZIP_DEFLATED) as zf:
                    for info in zin.infolist():
                        blob = zin.read(info)
                        zf.writestr(info.filename, blob.replace(b'"image/jpeg"', b'"image/jpg"') if info.filename == "[Content_Types].xml" else blob)
                data = out.getvalue()
                self.jpg_alias = True
                acc.hit("reopen-with-image/jpg-alias")
            if op.get("relocate"):
                # the deck as another producer lays it out: image parts outside /ppt/media (OPC leaves the place to the producer);
                # they are image parts all the same - the same bytes added later must be recognised
                from vlib import histories, opcx

                pk = opcx.Pkg.from_bytes(data)
                mapping = {}
                for k, n in enumerate(image_partnames(pk)):
                    if n.startswith("/ppt/media/") and "." in n:
                        mapping[n] = (("/ppt/images/pic%d." if op["relocate"] == 1 else "/media/img%d.") % (k + 1)) + n.rsplit(".", 1)[1]
                if mapping:
                    moved = histories.rename_members(data, mapping)
                    if opcx.closure_problems(opcx.Pkg.from_bytes(moved)) == opcx.closure_problems(pk):
                        data = moved
                        acc.hit("reopen-with-images-outside-ppt-media")
                    else:
                        acc.count("relocation_selfcheck_failed")
            prs = pptx.Presentation(io.BytesIO(data))
            self.reopened = True
            self.check_blobs(prs)
            return prs
        i = op["img"]
        src = self.source(op["via"], i)
        slides = list(prs.slides)
        sidx = op.get("slide", 0) % len(slides)
        pos = (Emu(op.get("x", 0)), Emu(op.get("y", 0)))
        if kind in ("pic", "grp"):
            shapes = slides[sidx].shapes
            if kind == "grp":
                shapes = shapes.add_group_shape().shapes
            wh = [Emu(op[k]) if op.get(k) is not None else None for k in ("w", "h")]
            sh = shapes.add_picture(src, pos[0], pos[1], wh[0], wh[1])
            acc.hit("group.add_picture" if kind == "grp" else "add_picture:" + ("path" if op["via"]["how"].startswith("path") else "stream"))
        elif kind == "ph":
            layout = [lo for lo in prs.slide_layouts if any(p.placeholder_format.type == PP_PLACEHOLDER.PICTURE for p in lo.placeholders)][0]
            slide = prs.slides.add_slide(layout)
            sidx = len(slides)
            ph = [p for p in slide.placeholders if p.placeholder_format.type == PP_PLACEHOLDER.PICTURE][0]
            sh = ph.insert_picture(src)
            acc.hit("insert_picture")
        elif kind == "movie":
            self.movie_n += 1
            movie = io.BytesIO(b"not really a movie %d" % (self.movie_n % 2))
            sh = slides[sidx].shapes.add_movie(movie, pos[0], pos[1], Emu(op["w"] or 9), Emu(op["h"] or 9), poster_frame_image=src, mime_type="video/mp4")
            acc.hit("poster-frame")
        elif kind == "ole":
            prog = PROG_ID.XLSX if op.get("prog") == "xlsx" else "Verif.Object.1"
            if op.get("default_icon"):
                # no icon given: python-pptx takes one of its own templates (an EMF); that image is a part like any other and must
                # be named and typed after what it IS
                tmpl = os.path.join(os.path.dirname(pptx.__file__), "templates", prog.icon_filename if isinstance(prog, PROG_ID) else "generic-icon.emf")
                with open(tmpl, "rb") as fh:
                    blob = fh.read()
                if blob not in self.images:
                    self.images.append(blob)
                    self.facts.append(facts(blob))
                i = self.images.index(blob)
                sh = slides[sidx].shapes.add_ole_object(io.BytesIO(b"embedded object bytes"), prog, pos[0], pos[1])
                acc.hit("ole-default-icon")
            else:
                sh = slides[sidx].shapes.add_ole_object(io.BytesIO(b"embedded object bytes"), prog, pos[0], pos[1], icon_file=src)
            acc.hit("ole-icon")
        if self.reopened:
            acc.hit("reopen-continue")
        self.added.setdefault(self.images[i], i)
        exp = {"slide": sidx, "id": sh.shape_id, "img": i, "kind": kind, "w": (op.get("w") or 9) if kind == "movie" else op.get("w"), "h": (op.get("h") or 9) if kind == "movie" else op.get("h")}
        self.shapes.append(exp)
        self.check_image_object(sh, exp, "blob-differs-at-add")
        return prs

    # -- python-pptx's own view of one shape's image
    def check_image_object(self, sh, exp, blob_key):
        if exp["kind"] == "ole":
            return
        fmt, w, h = self.facts[exp["img"]][:3]
        img = sh.poster_frame if exp["kind"] == "movie" else sh.image
        self.acc.count("image_objects_compared")
        if img is None or img.blob != self.images[exp["img"]]:
            self.bad(blob_key, "%s shape %d on slide %d: image blob is not the %s given" % (exp["kind"], exp["id"], exp["slide"], fmt))
            return
        if img.ext not in EXTS[fmt] or img.content_type != CTYPE[fmt]:
            self.bad("ext-or-type-from-filename:%s" % fmt, "Image.ext=%r content_type=%r for a %s image" % (img.ext, img.content_type, fmt))
        if tuple(img.size) != (w, h):
            self.bad("image-object-size:%s" % fmt, "Image.size=%r, image is %dx%d" % (img.size, w, h))

    def check_blobs(self, prs):
        def walk(shapes, out):
            for s in shapes:
                out[s.shape_id] = s
                if hasattr(s, "shapes"):
                    walk(s.shapes, out)
            return out

        slides = list(prs.slides)
        maps = {}
        for exp in self.shapes:
            if exp["slide"] not in maps:
                maps[exp["slide"]] = walk(slides[exp["slide"]].shapes, {}) if exp["slide"] < len(slides) else {}
            sh = maps[exp["slide"]].get(exp["id"])
            if sh is None:
                self.bad("shape-lost-after-reopen", "%s shape %d on slide %d not found" % (exp["kind"], exp["id"], exp["slide"]))
            else:
                self.check_image_object(sh, exp, "blob-differs-after-reopen")

    # -- the independent check of one saved package
    def save_and_check(self, prs):
        from vlib import opcx

        acc = self.acc
        buf = io.BytesIO()
        prs.save(buf)
        data = buf.getvalue()
        pkg = opcx.Pkg.from_bytes(data)
        acc.count("saves_checked")
        for rule, detail in opcx.closure_problems(pkg):
            acc.count("closure_problems")
            self.bad("closure:%s" % rule, detail)
        names = image_partnames(pkg)
        acc.count("media_parts_checked", len(names))
        low = [n.lower() for n in names]
        for n in set(pkg.duplicates) | {n for n in names if low.count(n.lower()) > 1}:
            if n.lstrip("/").startswith("ppt/media/"):
                self.bad("partname-collision", "%s is written more than once" % n)
        by_bytes = {}
        for n in names:
            by_bytes.setdefault(pkg.blob(n), []).append(n)
        for blob, ns in by_bytes.items():
            fmt = sniff(blob)
            acc.hit("format:%s" % fmt)
            if len(ns) > 1:
                self.bad("duplicate-image-part", "%s hold the same %d bytes (%s)" % (ns, len(blob), fmt))
            if blob not in self.added:
                self.bad("unexpected-image-part", "%s holds %d bytes that were never added" % (ns, len(blob)))
                continue
            for n in ns:
                ext = n.rsplit(".", 1)[1] if "." in n.rsplit("/", 1)[1] else ""
                if ext not in EXTS[fmt] or (pkg.ctype(n) != CTYPE[fmt] and not (fmt == "jpeg" and pkg.ctype(n) == "image/jpg" and getattr(self, "jpg_alias", False))):
                    self.bad("ext-or-type-from-filename:%s" % fmt, "%s has content type %r but holds a %s image" % (n, pkg.ctype(n), fmt))
        for blob, i in self.added.items():
            if blob not in by_bytes:
                self.bad("missing-image-part", "no image part holds the bytes of image %d (%s)" % (i, self.facts[i][0]))
        slide_pns = slide_partnames(pkg)
        for exp in self.shapes:
            pn = slide_pns[exp["slide"]] if exp["slide"] < len(slide_pns) else None
            el, blob = shape_in_slide(pkg, pn, exp["id"]) if pn and pkg.has_part(pn) else (None, None)
            if el is None:
                self.bad("shape-not-in-saved-slide", "%s shape %d on slide %d" % (exp["kind"], exp["id"], exp["slide"]))
                continue
            acc.count("shape_blips_resolved")
            if blob != self.images[exp["img"]]:
                key = "missing-image-part" if blob is None else ("wrong-image-for-shape" if blob in self.added else "image-bytes-changed")
                self.bad(key, "%s shape %d on slide %d resolves to %s, not to the bytes it was given" % (exp["kind"], exp["id"], exp["slide"], "nothing" if blob is None else "%d bytes" % len(blob)))
            if exp["kind"] in ("pic", "grp"):
                self.check_size(el, exp)
        return data

    def check_size(self, el, exp):
        fmt, pw, ph, dx, dy = self.facts[exp["img"]]
        ext = el.find("%sspPr/%sxfrm/%sext" % (NS_P, NS_A, NS_A))
        if ext is None:
            self.bad("picture-without-extents", "shape %d" % exp["id"])
            return
        cx, cy = int(ext.get("cx")), int(ext.get("cy"))
        chx, chy = dpi_pair(dx, dy)
        cls = dpi_class(dx, dy)
        self.acc.count("size_comparisons")
        self.acc.hit("dpi:%s" % cls.split(":")[0])
        what = "%s %dx%d px, dpi (%s, %s) -> %s x %s EMU" % (fmt, pw, ph, dx if dx is None else float(dx), dy if dy is None else float(dy), cx, cy)
        if exp["w"] is None and exp["h"] is None:
            if not (default_ok(cx, pw, chx) and default_ok(cy, ph, chy)):
                self.bad("default-size:%s:%s" % (fmt, cls), what + "; expected %d x %d" % (pw * EMU // min(chx), ph * EMU // min(chy)))
        elif exp["w"] is not None and exp["h"] is not None:
            if (cx, cy) != (exp["w"], exp["h"]):
                self.bad("given-size-not-kept", what + "; given %d x %d" % (exp["w"], exp["h"]))
        elif exp["w"] is not None:
            if cx != exp["w"] or not aspect_ok(cy, exp["w"], pw, ph, chx, chy):
                self.bad("aspect-ratio", what + "; width %d given" % exp["w"])
        elif cy != exp["h"] or not aspect_ok(cx, exp["h"], ph, pw, chy, chx):
            self.bad("aspect-ratio", what + "; height %d given" % exp["h"])


def run_history(h, acc):
    import pptx
    from vlib import env

    with env.Scratch("c15") as tmp:
        run = Run(h, acc, tmp)
        if not run.precondition():
            return False
        prs = pptx.Presentation()
        for k, op in enumerate(list(h["ops"]) + [{"op": "reopen"}, {"op": "save"}]):
            run.step = k
            try:
                prs = run.apply(prs, op)
            except Exception as e:  # noqa  (python-pptx documents no exception for a supported image)
                fmt = run.facts[op["img"]][0] if "img" in op else "-"
                run.bad("raises:%s:%s:%s" % (op["op"], fmt, type(e).__name__), "%r" % (e,))
                return True
    return True


# ------------------------------------------------------------------ history generator
def gen_history(i):
    from vlib import env

    rnd = env.rng("C15", i)
    nrec = rnd.choice([2, 2, 3, 3, 4, 5])
    recipes = [gen_recipe(rnd, FORMATS[i % 5] if k == 0 else rnd.choice(FORMATS), k) for k in range(nrec)]
    # "whatever the file was called": names with markup characters, non-ASCII, a control character, and a name that is not
    # UTF-8 on disk (b"caf\xe9", which Python hands over as 'caf\udce9') - all names of existing files on this platform
    stems = ["picture", "img", "picture", "img", "a&b<c>\"q'", "na\u00efve \u56fe", "scan\x01", "caf\udce9"]

    def via(k):
        fmt = recipes[k]["fmt"]
        r = rnd.random()
        if r < 0.3:
            return {"how": rnd.choice(["stream", "stream", "stream-reused", "stream-duck", "stream", "stream", "stream-reused", "stream-duck", "stream-readonly", "stream-pipe"])}
        right = sorted(EXTS[fmt])[0]
        ext = rnd.choice([right, right, right.upper(), "", "dat"] + [sorted(EXTS[f])[-1] for f in FORMATS if f != fmt])
        return {"how": "path" if rnd.random() < 0.7 else "path-shared", "name": rnd.choice(stems) + ("." + ext if ext else "")}

    used = []

    def addition(kind):
        k = rnd.choice(used) if used and rnd.random() < 0.55 else rnd.randrange(nrec)
        used.append(k)
        op = {"op": kind, "img": k, "via": via(k), "slide": rnd.randrange(4), "x": rnd.choice([0, rnd.randint(0, 9000000)]), "y": rnd.randint(0, 6000000)}
        if kind in ("pic", "grp", "movie"):
            dim = lambda: rnd.choice([1, 7, 12700, 914400, rnd.randint(1, 12000000), rnd.randint(1, 12000000), 0])  # noqa: E731  (0 is a length too)
            mode = "both" if kind == "movie" else rnd.choice(["none", "none", "w", "h", "both"])
            op["w"] = dim() if mode in ("w", "both") else None
            op["h"] = dim() if mode in ("h", "both") else None
        if kind == "ole":
            op["prog"] = rnd.choice(["xlsx", "str"])
            op["default_icon"] = rnd.random() < 0.4
        return op

    if i % 10 == 7:
        # directed family: more than ten images of one extension (part names image1 .. image10, image11 ...: two-digit indices),
        # a save and re-open in between, one more afterwards
        fmt = rnd.choice(["png", "png", "jpeg", "gif"])
        recipes = [dict(gen_recipe(rnd, fmt, k), w=1 + k % 4, h=1 + k // 4) for k in range(13)]
        base = {"slide": 0, "x": 0, "y": 0, "w": None, "h": None}
        ops = [{"op": "slide"}] + [dict(base, op="pic", img=k, via={"how": "stream"}) for k in range(11)]
        ops.append({"op": "reopen", "gap": None})
        ops += [dict(base, op="pic", img=k, via={"how": "stream"}) for k in (11, 12, 3)]
        ops.append({"op": "save"})
        return {"recipes": recipes, "ops": ops}
    if i % 10 == 9:
        # directed family: media parts sharing an index under different extensions (image1.png + image1.jpg,
        # image2.png ...) at re-open, then a NEW image of an extension already present is added
        fmts = [rnd.choice(["png", "gif"]), "jpeg", None, None]
        fmts[2] = fmts[3] = fmts[0]
        recipes = [gen_recipe(rnd, f, k) for k, f in enumerate(fmts)]
        base = {"slide": 0, "x": 0, "y": 0, "w": None, "h": None}
        ops = [{"op": "slide"}] + [dict(base, op="pic", img=k, via={"how": "stream"}) for k in (0, 1, 2)]
        ops.append({"op": "reopen", "gap": rnd.randrange(1 << 30), "shared": True})
        ops.append(dict(base, op="pic", img=3, via={"how": "stream"}))
        ops.append(dict(base, op="pic", img=0, via={"how": "stream"}))
        ops.append({"op": "save"})
        return {"recipes": recipes, "ops": ops}
    n = rnd.randint(6, 14)
    cut = rnd.randint(2, n - 2)
    ops = [{"op": "slide"}]
    for j in range(n):
        if j == cut:
            ops.append({"op": "reopen", "gap": rnd.randrange(1 << 30) if rnd.random() < 0.6 else None, "jpg_alias": rnd.random() < 0.4, "relocate": rnd.choice([0, 0, 0, 1, 2])})
            forced = addition(ENTRY[i % len(ENTRY)])
            if rnd.random() < 0.8:  # the forced entry point re-adds an image from before the re-open
                forced["img"] = rnd.choice(used[:-1]) if used[:-1] else forced["img"]
                forced["via"] = via(forced["img"])
            ops.append(forced)
            continue
        r = rnd.random()
        if r < 0.08:
            ops.append({"op": "slide"})
        elif r < 0.16:
            ops.append({"op": "save"})
        elif r < 0.24:
            ops.append({"op": "reopen", "gap": rnd.randrange(1 << 30) if rnd.random() < 0.5 else None, "jpg_alias": rnd.random() < 0.4, "relocate": rnd.choice([0, 0, 0, 1, 2])})
        else:
            ops.append(addition(rnd.choice(["pic"] * 6 + ["grp", "ph", "movie", "ole"])))
    return {"recipes": recipes, "ops": ops}


def nontrivial(h):
    before, seen_reopen = set(), False
    current = set()
    for op in h["ops"]:
        if op["op"] == "reopen":
            before |= current
            seen_reopen = True
        elif "img" in op:
            if seen_reopen and op["img"] in before:
                return True
            current.add(op["img"])
    return False


# ------------------------------------------------------------------ harness entry points
def plan(tier, seed):
    n, per = (640, 20) if tier == "quick" else (6000, 50)
    return [{"lo": lo, "hi": min(n, lo + per)} for lo in range(0, n, per)]


def run_unit(unit, tier, seed, acc):
    for i in range(unit["lo"], unit["hi"]):
        h = gen_history(i)
        if run_history(h, acc):
            kinds = sorted({op["op"] for op in h["ops"] if "img" in op})
            acc.case(
                desc=h,
                nontrivial=nontrivial(h),
                cls="%s/%s" % (FORMATS[i % 5], ENTRY[i % len(ENTRY)]),
                sample={"images": ["%s %dx%d %s" % (r["fmt"], r["w"], r["h"], r["dpi"]) for r in h["recipes"]], "ops": [op["op"] for op in h["ops"]], "entry_points": kinds},
            )


def replay(w, acc):
    run_history({"recipes": w["recipes"], "ops": w["ops"]}, acc)
    for r in w["recipes"]:
        f = facts(make_image(r))
        print("image:", r, "->", f[0], "%sx%s" % (f[1], f[2]), "dpi", [None if v is None else float(v) for v in f[3:]])
    print("ops:", [(op["op"], op.get("img"), op.get("via"), op.get("w"), op.get("h")) for op in w["ops"]])
    print("violations:", [(v["key"], v["what"][:220]) for v in acc.violations])


def finalize(acc, tier, seed):
    for need in REACH + ["format:%s" % f for f in FORMATS] + ["dpi:absent", "dpi:integral", "dpi:fractional", "dpi:zero", "dpi:huge", "dpi:nonsquare"]:
        if not acc.reach.get(need):
            acc.inconclusive.append("never reached: " + need)
    for need in ("saves_checked", "media_parts_checked", "shape_blips_resolved", "size_comparisons", "image_objects_compared"):
        if not acc.counters.get(need):
            acc.inconclusive.append("deciding counter is zero: " + need)
    if acc.counters.get("generator_selfcheck_failed") or acc.counters.get("renumbering_selfcheck_failed"):
        acc.inconclusive.append("generator self-check failed (%s images, %s renumberings)" % (acc.counters.get("generator_selfcheck_failed", 0), acc.counters.get("renumbering_selfcheck_failed", 0)))
