"""C16 — recoverable irregular packages open intact; non-packages are refused cleanly.

Fault injector on zip members, by description (a case = deck + list of small fault dicts + input form):
dangling relationship target, deleted .rels item, case-flipped Default/Override, unknown content type,
unreferenced extra members, consistently renamed (permuted/gapped) slide parts, removed core properties,
directory form.  Written with zipfile + plain lxml, never with python-pptx.
Oracle for recoverable faults: Presentation() and OpcPackage.open must not raise; vlib.opcx reads the FAULTED
input and the saved output independently and compares everything still reachable (props.c01.compare); the
output's closure problems must be a sub-multiset of the input's.  Step 2 (same object): prs.slides,
prs.core_properties, save again -> slide parts named slide1..n in p:sldIdLst order, every relationship still
resolving to the same content (walk of both relationship graphs), core properties present.
Non-packages (truncated prefixes, garbage, structurally incomplete packages, Word/Excel main part) must be
refused with exactly the documented exception for what the input *is* (decided with zipfile + opcx).
"""
from __future__ import annotations

import contextlib
import io
import itertools
import os
import posixpath
import random
import zipfile
from collections import Counter

from lxml import etree

ID = "C16"
LEVEL = "fault_enumeration"
EXHAUSTIVE = False
KINDS = ["dangling", "norels", "ctcase", "unknownct", "extra", "sliderename", "nocore", "directory"]
RULE = (
    "per corpus deck (67) every fault location is enumerated: dangling = each internal relationship of each .rels item "
    "(the root officeDocument one is a non-package class); norels = each part owning a .rels item; ctcase = each "
    "Default/Override entry (swapcase of Extension/PartName) and each Default-typed part (swapcase of its own extension, consistent rename); unknownct = each reachable part whose declared type "
    "python-pptx has no part class for (theme, presProps, viewProps, tableStyles, printerSettings, thumbnail-free "
    "binaries, customXml, tags, vmlDrawing, oleObject, xlsx... i.e. parts it loads generically anyway; an unknown type on "
    "presentation/slide/layout/master/notes/chart/image/media parts is not 'recoverable' for Presentation()); extra = 6 "
    "unreferenced member variants (Default-typed, untyped, Override-typed, orphan .rels, slide-like, directory entry); "
    "sliderename = reverse/rotate/gap/gap-reverse/all permutations (n<=3)/seeded injections into 1..2n+5; nocore; "
    "directory = extracted form. thorough: every location x {stream, path, directory} + all pairs (<= 40 locations) or "
    "800 seeded pairs per deck (no corpus deck has <= 40); quick: stratified seeded sample (~45 singles + 8 pairs per deck). Non-trivial: the fault "
    "changes the reachable set, a relationship set, a content-type lookup path, the member set the loader must skip, "
    "or the physical reader. Distinct = (deck, faults, form). Non-packages: prefix classes of every/6 decks, synthetic "
    "garbage, structural removals, Word/Excel main types, each as stream/path(/directory)."
)
ASSUMPTIONS = [
    "vlib/opcx.py (zipfile + plain lxml) is the independent reader of faulted input and saved output; XML equivalence = C14N modulo inter-element whitespace",
    "stdlib zipfile decides whether bytes are a zip at all (a truncated deck whose tail holds a stored embedded .xlsx IS a zip of an Excel package: ValueError expected)",
    "after prs.slides is touched only slide parts may change name; an empty p:sldIdLst may be added to the main part",
    "prs.slides on a deck whose p:sldId/@r:id no longer resolves (dangling/removed slide relationship) is outside the statement: observed and counted, not judged",
    "bit-flipped member data (zlib.error / Bad CRC-32 at read time) is not a listed input class: observed and counted, not judged",
]
WATCHDOG_S = {"quick": 400, "thorough": 2400}

NS_CT = "http://schemas.openxmlformats.org/package/2006/content-types"
NS_PR = "http://schemas.openxmlformats.org/package/2006/relationships"
NS_P = "http://schemas.openxmlformats.org/presentationml/2006/main"
NS_R = "http://schemas.openxmlformats.org/officeDocument/2006/relationships"
RT_SLIDE = NS_R + "/slide"
RT_OD = NS_R + "/officeDocument"
RT_CORE = "http://schemas.openxmlformats.org/package/2006/relationships/metadata/core-properties"
CT_CORE = "application/vnd.openxmlformats-package.core-properties+xml"
CT_SLIDE = "application/vnd.openxmlformats-officedocument.presentationml.slide+xml"
CT_PRES = "application/vnd.openxmlformats-officedocument.presentationml.presentation.main+xml"
CT_PRES_MACRO = "application/vnd.ms-powerpoint.presentation.macroEnabled.main+xml"
CT_FOREIGN = {
    "word": "application/vnd.openxmlformats-officedocument.wordprocessingml.document.main+xml",
    "excel": "application/vnd.openxmlformats-officedocument.spreadsheetml.sheet.main+xml",
    # a template (.potx) or slide show (.ppsx) main part is PresentationML but not "a presentation": api._is_pptx_package lists
    # exactly the two presentation main types, and the statement names ValueError for a non-presentation main part
    "template": "application/vnd.openxmlformats-officedocument.presentationml.template.main+xml",
    "slideshow": "application/vnd.openxmlformats-officedocument.presentationml.slideshow.main+xml",
}
UNKNOWN_CT = "application/x-unknown-verif"
GHOST_RELS = ('<?xml version="1.0" encoding="UTF-8" standalone="yes"?>\n<Relationships xmlns="%s"><Relationship Id="rId1" Type="%s/slideMaster" '
              'Target="slideMasters/slideMaster1.xml"/></Relationships>' % (NS_PR, NS_R)).encode()
EXTRAS = {  # variant -> (member, payload (None = copy of a slide), Override type or None)
    "xml-default": ("ppt/unused/verifExtra9.xml", b"<extra/>", None),
    "no-ct": ("docProps/verif-extra.verifx", b"\x00extra", None),
    "override": ("customXml/verifExtra1.dat", b"\x01extra", UNKNOWN_CT),
    "orphan-rels": ("ppt/_rels/verifGhost.xml.rels", GHOST_RELS, None),
    "slide-like": ("ppt/slides/slide99.xml", None, CT_SLIDE),
    "dir-entry": ("ppt/verifEmptyDir/", b"", None),
    # unreferenced members whose names differ from a real part's only in letter case (zip member names are case-sensitive)
    "case-variant-main": ("PPT/PRESENTATION.XML", b"<not-the-presentation/>", None),
    "case-variant-rels": ("PPT/_RELS/PRESENTATION.XML.RELS", b"<not-the-relationships/>", None),
}
STRUCT = {"no-content-types": KeyError, "no-root-rels": KeyError, "no-office-document-rel": KeyError, "main-part-absent": KeyError,
          "main-type-word": ValueError, "main-type-excel": ValueError, "main-type-template": ValueError, "main-type-slideshow": ValueError}
TRUNC = ["trunc-head", "trunc-mid-member", "trunc-member-boundary", "trunc-mid-central-directory", "trunc-no-eocd", "trunc-mid-eocd", "trunc-random"]
SYNTH = ["empty", "text", "random", "zip-not-opc", "zip-empty", "empty-directory", "nonexistent-path", "empty-string-path"]
_DECKS = {}
_MEMO = {}


def _opcx():
    """vlib.opcx, with its two pure and expensive functions memoised by blob (the same blobs recur in every case of a deck)."""
    from vlib import opcx

    if not getattr(opcx, "_c16_memo", False):
        canon, r_refs = opcx.canonical, opcx.Pkg.r_refs

        def canonical(x):
            if not isinstance(x, bytes):
                return canon(x)
            if len(_MEMO) > 6000:
                _MEMO.clear()
            if ("c", x) not in _MEMO:
                _MEMO[("c", x)] = canon(x)
            return _MEMO[("c", x)]

        def refs(self, partname):
            k = ("r", self.blob(partname))
            if k not in _MEMO:
                _MEMO[k] = r_refs(self, partname)
            return _MEMO[k]

        opcx.canonical, opcx.Pkg.r_refs, opcx._c16_memo = canonical, refs, True
    return opcx


def _parse(blob):
    return etree.fromstring(blob, _opcx().PLAIN)


def _xml(root):
    return etree.tostring(root, xml_declaration=True, encoding="UTF-8", standalone=True)


def load_deck(rel):
    """-> (raw bytes, ordered {member: bytes}) of a corpus deck, read once per worker."""
    from vlib import env

    if rel not in _DECKS:
        data = open(os.path.join(env.REPO, rel), "rb").read()
        zf = zipfile.ZipFile(io.BytesIO(data))
        _DECKS.clear()
        _MEMO.clear()
        _DECKS[rel] = (data, {i.filename: zf.read(i) for i in zf.infolist() if not i.is_dir()})
    return _DECKS[rel]


def pkg_of(members):
    return _opcx().Pkg({n: b for n, b in members.items() if not n.endswith("/")})


def zip_bytes(members):
    buf = io.BytesIO()
    with zipfile.ZipFile(buf, "w", zipfile.ZIP_STORED) as zf:
        for n, b in members.items():
            zf.writestr(n, b)
    return buf.getvalue()


def write_dir(members, root):
    for n, b in members.items():
        p = os.path.join(root, *n.split("/"))
        if n.endswith("/"):
            os.makedirs(p, exist_ok=True)
            continue
        os.makedirs(os.path.dirname(p), exist_ok=True)
        with open(p, "wb") as fh:
            fh.write(b)


def rels_source(item):
    """part name owning the relationships item `item` ('_rels/.rels' -> '/')."""
    d, f = posixpath.split(item)
    if item == "_rels/.rels":
        return "/"
    return "/" + (posixpath.dirname(d) + "/" if posixpath.dirname(d) else "") + f[: -len(".rels")]


def is_rels_item(n):
    d, f = posixpath.split(n)
    return f.endswith(".rels") and posixpath.basename(d) == "_rels"


def main_part(pkg):
    od = [r for r in (pkg.rels("/") or []) if r.type == RT_OD and not r.external]
    return od[0].target if len(od) == 1 else None


def slide_ids(pkg):
    """[(r:id, resolved present slide part or None)] in p:sldIdLst order, read from the main part."""
    mp = main_part(pkg)
    if mp is None or not pkg.has_part(mp):
        return []
    root = pkg.xml_root(mp)
    rels = {r.id: r for r in (pkg.rels(mp) or [])}
    out = []
    for el in root.iter("{%s}sldId" % NS_P) if root is not None else []:
        rid = el.get("{%s}id" % NS_R)
        r = rels.get(rid)
        out.append((rid, r.target if r is not None and not r.external and pkg.has_part(r.target) else None))
    return out


def set_override(m, part, ct):
    if part.lstrip("/") not in m:
        return False
    root = _parse(m["[Content_Types].xml"])
    for el in root.iter("{%s}Override" % NS_CT):
        if (el.get("PartName") or "").lower() == part.lower():
            el.set("ContentType", ct)
            break
    else:
        etree.SubElement(root, "{%s}Override" % NS_CT, PartName=part, ContentType=ct)
    m["[Content_Types].xml"] = _xml(root)
    return True


# ------------------------------------------------------------------ fault injector
def apply_fault(m, f):
    """Apply fault description `f` to the member dict `m` in place; False when its location is gone."""
    opcx = _opcx()
    k = f["kind"]
    if k == "dangling" and f.get("how") == "member-deleted":
        return m.pop(f["target"][1:], None) is not None
    if k == "dangling":
        item = opcx.rels_item_name(f["src"])
        if item not in m:
            return False
        root = _parse(m[item])
        for el in root.iter("{%s}Relationship" % NS_PR):
            if el.get("Id") == f["rid"] and el.get("TargetMode") != "External":
                if f.get("how") == "names-a-directory":  # voided by cutting the file name off: in a directory package that name EXISTS
                    el.set("Target", posixpath.dirname(el.get("Target")) or ".")
                else:
                    el.set("Target", posixpath.join(posixpath.dirname(el.get("Target")), "NULL"))
                m[item] = _xml(root)
                return True
        return False
    if k == "norels":
        return m.pop(opcx.rels_item_name(f["part"]), None) is not None
    if k == "ctcase" and f["entry"] == "PartExt":  # the part name's extension changes case, its Default does not
        stem, ext = f["key"].rsplit(".", 1)
        return rename_parts(m, {f["key"]: stem + "." + ext.swapcase()})
    if k == "ctcase":
        root = _parse(m["[Content_Types].xml"])
        attr = "Extension" if f["entry"] == "Default" else "PartName"
        for el in root.iter("{%s}%s" % (NS_CT, f["entry"])):
            if el.get(attr) == f["key"]:
                el.set(attr, f["key"].swapcase())
                m["[Content_Types].xml"] = _xml(root)
                return True
        return False
    if k == "unknownct":
        return set_override(m, f["part"], UNKNOWN_CT)
    if k == "extra":
        name, blob, ct = EXTRAS[f["variant"]]
        if name in m:
            return False
        if blob is None:
            donors = [n for n in m if n.startswith("ppt/slides/slide") and n.endswith(".xml")]
            blob = m[donors[0]] if donors else ('<p:sld xmlns:p="%s"><p:cSld><p:spTree/></p:cSld></p:sld>' % NS_P).encode()
        m[name] = blob
        return set_override(m, "/" + name, ct) if ct else True
    if k == "nocore":
        root = _parse(m["_rels/.rels"])
        for el in root.iter("{%s}Relationship" % NS_PR):
            if el.get("Type") == RT_CORE and el.get("TargetMode") != "External":
                part = opcx.resolve("/", el.get("Target"))
                root.remove(el)
                m["_rels/.rels"] = _xml(root)
                m.pop(part[1:], None)
                m.pop(opcx.rels_item_name(part), None)
                ct = _parse(m["[Content_Types].xml"])
                for ov in ct.findall("{%s}Override" % NS_CT):
                    if (ov.get("PartName") or "").lower() == part.lower():
                        ct.remove(ov)
                m["[Content_Types].xml"] = _xml(ct)
                return True
        return False
    if k == "sliderename":
        return rename_parts(m, dict(f["map"]))
    if k in STRUCT:
        mp = main_part(pkg_of(m))
        if k == "no-content-types":
            return m.pop("[Content_Types].xml", None) is not None
        if k == "no-root-rels":
            return m.pop("_rels/.rels", None) is not None
        if mp is None:
            return False
        if k == "main-part-absent":
            return m.pop(mp[1:], None) is not None
        if k == "no-office-document-rel":
            root = _parse(m["_rels/.rels"])
            for el in root.findall("{%s}Relationship" % NS_PR):
                if el.get("Type") == RT_OD:
                    root.remove(el)
            m["_rels/.rels"] = _xml(root)
            return True
        return set_override(m, mp, CT_FOREIGN[k[len("main-type-"):]])
    raise ValueError("unknown fault kind %r" % k)


def rename_parts(m, mapping):
    """Consistent rename old->new part names (same directory): member, its .rels item, every relationship
    Target resolving to it, its Override.  False when a new name collides with an unrelated member."""
    opcx = _opcx()
    if any(o[1:] not in m for o in mapping):
        return False
    if any(n[1:] in m and n not in mapping for n in mapping.values()):
        return False
    for item in [n for n in m if is_rels_item(n)]:
        src, root, changed = rels_source(item), _parse(m[item]), False
        for el in root.iter("{%s}Relationship" % NS_PR):
            if el.get("TargetMode") == "External":
                continue
            raw = el.get("Target") or ""
            tgt = opcx.resolve(src, raw)
            if tgt in mapping and mapping[tgt] != tgt:
                el.set("Target", posixpath.join(posixpath.dirname(raw), posixpath.basename(mapping[tgt])))
                changed = True
        if changed:
            m[item] = _xml(root)
    names = {}
    for o, n in mapping.items():
        names[o[1:]] = n[1:]
        names[opcx.rels_item_name(o)] = opcx.rels_item_name(n)
    moved = [(names.get(k, k), v) for k, v in m.items()]
    m.clear()
    m.update(moved)
    ct = _parse(m["[Content_Types].xml"])
    low = {o.lower(): n for o, n in mapping.items()}
    for ov in ct.iter("{%s}Override" % NS_CT):
        if (ov.get("PartName") or "").lower() in low:
            ov.set("PartName", low[ov.get("PartName").lower()])
    m["[Content_Types].xml"] = _xml(ct)
    return True


def rename_maps(slides, rnd, everything):
    """Slide rename maps for the present slide parts (in part-number order)."""
    n = len(slides)
    if n == 0:
        return []
    name = "/ppt/slides/slide%d.xml"
    maps = {"gap": [name % (3 * i + 7) for i in range(n)]}
    if n >= 2:
        maps["reverse"] = slides[::-1]
        maps["gap-reverse"] = [name % (3 * (n - i) + 2) for i in range(n)]
    if n >= 3:
        maps["rotate"] = slides[1:] + slides[:1]
    if n <= 3 and everything:
        for j, perm in enumerate(itertools.permutations(slides)):
            maps["perm%d" % j] = list(perm)
    for j in range(3 if everything else 1):
        maps["inject%d" % j] = [name % k for k in rnd.sample(range(1, 2 * n + 6), n)]
    out, seen = [], set()
    for new in maps.values():
        pairs = [[o, nw] for o, nw in zip(slides, new)]
        if new != slides and str(pairs) not in seen:
            seen.add(str(pairs))
            out.append({"kind": "sliderename", "map": pairs})
    return out


def locations(pkg, members, rnd, everything):
    """Every applicable single-fault location of a deck -> list of (fault dict, nontrivial)."""
    from pptx.opc.package import PartFactory

    out = []
    reach = pkg.reachable()
    for item in [n for n in members if is_rels_item(n)]:
        src = rels_source(item)
        rels = pkg.rels(src) or []
        for r in rels:
            if not r.external and not (src == "/" and r.type == RT_OD):
                out.append(({"kind": "dangling", "src": src, "rid": r.id}, True))
                if "/" in r.raw.strip("/") and src != "/":
                    out.append(({"kind": "dangling", "src": src, "rid": r.id, "how": "names-a-directory"}, True))
                if r.target != main_part(pkg) and pkg.has_part(r.target):
                    # the other way a target goes missing: the member itself is deleted and whatever it left behind (its own
                    # relationship item) stays in the package
                    out.append(({"kind": "dangling", "src": src, "rid": r.id, "how": "member-deleted", "target": r.target}, True))
        if src != "/":
            out.append(({"kind": "norels", "part": src}, len(rels) > 0))
    ct = _parse(members["[Content_Types].xml"])
    overridden = {(o.get("PartName") or "").lower() for o in ct.iter("{%s}Override" % NS_CT)}
    defaults = {(d.get("Extension") or "").lower() for d in ct.iter("{%s}Default" % NS_CT)}
    for p in reach:
        ext = posixpath.basename(p).rsplit(".", 1)[-1] if "." in posixpath.basename(p) else ""
        if p.lower() not in overridden and ext.lower() in defaults and ext.swapcase() != ext:
            out.append(({"kind": "ctcase", "entry": "PartExt", "key": p}, True))
    for el in ct:
        if el.tag == "{%s}Default" % NS_CT:
            ext = el.get("Extension")
            used = any(p.lower().endswith("." + ext.lower()) and p.lower() not in overridden for p in reach)
            out.append(({"kind": "ctcase", "entry": "Default", "key": ext}, used and ext.swapcase() != ext))
        elif el.tag == "{%s}Override" % NS_CT:
            out.append(({"kind": "ctcase", "entry": "Override", "key": el.get("PartName")}, el.get("PartName") in reach))
    for p in reach:
        if pkg.ctype(p) not in PartFactory.part_type_for:
            out.append(({"kind": "unknownct", "part": p}, True))
    for v in EXTRAS:
        out.append(({"kind": "extra", "variant": v}, True))
    mp = main_part(pkg)
    slides = sorted({r.target for r in (pkg.rels(mp) or []) if r.type == RT_SLIDE and not r.external and pkg.has_part(r.target)},
                    key=lambda s: (len(s), s))
    out += [(f, True) for f in rename_maps(slides, rnd, everything)]
    if any(r.type == RT_CORE and not r.external and pkg.has_part(r.target) for r in pkg.rels("/") or []):
        out.append(({"kind": "nocore"}, True))
    return out


# ------------------------------------------------------------------ oracle: recoverable faults
class _Keyed:
    """acc proxy handed to props.c01.compare: renames its keys to C16 mechanisms and appends the fault kind."""
    MAP = {"reachable-part-missing": "lost-part", "unreachable-or-new-part-written": "extra-part-written"}

    def __init__(self, acc, kind):
        self.acc, self.kind = acc, kind

    def count(self, *a):
        self.acc.count(*a)

    def violation(self, key, what, witness):
        key = "content-type-changed" if key.startswith("content-type-changed") else self.MAP.get(key, key)
        self.acc.violation("%s:%s" % (key, self.kind), what, witness)


def new_closure_problems(pin_problems, pout, inv):
    """closure problems of the output that the (faulted) input did not already have; `inv` maps output part names
    back to input names (slides renamed in step 2)."""
    allowed = Counter(pin_problems)
    dang = set()
    for rule, detail in pin_problems:
        if rule == "dangling-relationship":
            dang.add(tuple(detail.split(" -> ")[0].rsplit(" ", 1)))
    news = []
    for rule, detail in _opcx().closure_problems(pout):
        if rule in ("dangling-r-reference", "dangling-relationship"):
            src, rest = detail.split(" ", 1)
            detail = "%s %s" % (inv.get(src, src), rest)
        if rule != "unreachable-part-written":
            if allowed[(rule, detail)] > 0:
                allowed[(rule, detail)] -= 1
                continue
            if rule == "dangling-r-reference" and (detail.rsplit(" r:", 1)[0], detail.rsplit("=", 1)[1]) in dang:
                continue  # the same reference, dangling in the input as a relationship to an absent part
        news.append((rule, detail))
    return news


def main_equal(a, b):
    """main part payloads equal up to an added empty p:sldIdLst (prs.slides creates one)."""
    opcx = _opcx()
    ra, rb = _parse(a), _parse(b)
    for root in (ra, rb):
        for el in root.findall("{%s}sldIdLst" % NS_P):
            if len(el) == 0:
                root.remove(el)
    return opcx.canonical(ra) == opcx.canonical(rb)


def graph_compare(pin, pout, bad, had_core):
    """Walk both relationship graphs in lock-step by rId; -> {input part: output part}."""
    opcx = _opcx()
    mapping, stack, mp = {}, [("/", "/")], main_part(pin)
    while stack:
        a, b = stack.pop()
        ra = {r.id: r for r in (pin.rels(a) or []) if r.external or pin.has_part(r.target)}
        rb = {r.id: r for r in (pout.rels(b) or [])}
        if a == "/" and not had_core:
            rb = {i: r for i, r in rb.items() if r.type != RT_CORE}
        if set(ra) != set(rb):
            bad("step2-relationships-changed", "%s: rIds %s -> %s" % (a, sorted(set(ra) - set(rb))[:3], sorted(set(rb) - set(ra))[:3]))
        for rid in sorted(set(ra) & set(rb)):
            x, y = ra[rid], rb[rid]
            if x.type != y.type or x.external != y.external or (x.external and x.raw != y.raw):
                bad("step2-relationships-changed", "%s %s: %r -> %r" % (a, rid, x.key(), y.key()))
                continue
            if x.external:
                continue
            if not pout.has_part(y.target):
                bad("step2-relationship-dangling", "%s %s -> %s is absent from the second save (input target %s)" % (b, rid, y.target, x.target))
                continue
            if x.target in mapping:
                if mapping[x.target] != y.target:
                    bad("step2-relationship-retargeted", "%s %s: %s was written as %s but this relationship points to %s" % (a, rid, x.target, mapping[x.target], y.target))
                continue
            same = main_equal(pin.blob(x.target), pout.blob(y.target)) if x.target == mp else opcx.same_payload(pin.blob(x.target), pout.blob(y.target))
            if not same:
                bad("step2-relationship-resolves-to-different-content", "%s %s: input %s, output %s carry different payloads" % (a, rid, x.target, y.target))
                continue
            if pin.ctype(x.target) != pout.ctype(y.target):
                bad("step2-content-type-changed", "%s: %r -> %r" % (x.target, pin.ctype(x.target), pout.ctype(y.target)))
            mapping[x.target] = y.target
            stack.append((x.target, y.target))
    return mapping


def step2(prs, pin, pin_problems, acc, witness, label, kinds):
    """prs.slides + prs.core_properties on the already-saved object, second save, independent checks.
    Keys carry only the fault kinds step 2 reacts to (sliderename, nocore)."""
    opcx = _opcx()
    suffix = "+".join(k for k in kinds if k in ("sliderename", "nocore")) or "as-is"
    nbad = [0]

    def bad(key, what):
        nbad[0] += 1
        acc.violation("%s:%s" % (key, suffix), "%s: %s" % (label, what), witness)

    sl = slide_ids(pin)
    if any(t is None for _, t in sl):
        try:
            prs.slides
            acc.count("observed:slides-access-with-unresolvable-sldId:ok")
        except Exception as e:  # noqa  (outside the statement, see ASSUMPTIONS)
            acc.count("observed:slides-access-with-unresolvable-sldId:%s" % type(e).__name__)
        acc.count("step2_skipped_unresolvable_sldId")
        return
    had_core = any(r.type == RT_CORE and not r.external and pin.has_part(r.target) for r in pin.rels("/") or [])
    try:
        prs.slides
        prs.core_properties
        buf = io.BytesIO()
        prs.save(buf)
    except Exception as e:  # noqa
        bad("step2-raises:%s" % type(e).__name__, "prs.slides / core_properties / second save raised %r" % (e,))
        return
    acc.count("second_saves")
    acc.hit("PresentationPart.rename_slide_parts(renaming)", 1 if sl and "sliderename" in kinds else 0)
    pout = opcx.Pkg.from_bytes(buf.getvalue())
    for i, (rid, tgt) in enumerate(sl):
        want = "/ppt/slides/slide%d.xml" % (i + 1)
        if not pout.has_part(want) or not opcx.same_payload(pin.blob(tgt), pout.blob(want)):
            bad("slides-not-renamed-in-order", "sldId #%d (%s, input part %s) is not what %s holds after prs.slides" % (i + 1, rid, tgt, want))
    slide_parts = sorted(p for p in pout.part_names() if pout.ctype(p) == CT_SLIDE)
    if len(sl) == len({t for _, t in sl}) == len([p for p in pin.reachable() if pin.ctype(p) == CT_SLIDE]):
        if slide_parts != sorted("/ppt/slides/slide%d.xml" % (i + 1) for i in range(len(sl))):
            bad("slides-not-renamed-in-order", "slide parts after prs.slides are %s" % slide_parts[:6])
    mapping = graph_compare(pin, pout, bad, had_core)
    acc.count("graph_parts_compared", len(mapping))
    if nbad[0]:
        return  # everything below would only restate the same damage
    for a, b in mapping.items():
        if a != b and pin.ctype(a) != CT_SLIDE:
            bad("step2-part-renamed-unexpectedly", "%s -> %s" % (a, b))
    if len(set(mapping.values())) != len(mapping):
        bad("step2-parts-merged", "two input parts were written under one name")
    for p in pin.reachable():
        if p not in mapping:
            bad("step2-lost-part", "%s is reachable in the input, not through the relationships of the second save" % p)
    core = [r for r in pout.rels("/") or [] if r.type == RT_CORE]
    if not core:
        # (a deck may relate its core-properties part by the first-edition type - tests/test_files/test_slides.pptx carries both;
        # with the standard one cut away that part IS the package's core properties, and no second one is to be made)
        core = [r for r in pout.rels("/") or [] if r.type == RT_CORE.replace("/package/2006/relationships/", "/officedocument/2006/relationships/")]
    if len(core) != 1 or not pout.has_part(core[0].target) or pout.ctype(core[0].target) != CT_CORE:
        bad("core-properties-not-provided", "after prs.core_properties the second save has %d core-properties relationship(s)" % len(core))
    elif not had_core:
        acc.hit("Package.core_properties.default-created")
    for p in pout.part_names():
        if p not in set(mapping.values()) and not (core and p == core[0].target and not had_core):
            bad("step2-extra-part-written", p)
    inv = {b: a for a, b in mapping.items()}
    for rule, detail in new_closure_problems(pin_problems, pout, inv)[:4]:
        bad("step2-closure:%s" % rule, detail)
    if nbad[0]:
        return
    # step 3: the opened package is USED - something is related to its slides (a picture added to each of the first two); what
    # the irregular package still reached through the relationships it had must be reached through them afterwards
    slides = list(prs.slides)[:2]
    if not slides:
        return
    try:
        from vlib import gen

        for k, sl_ in enumerate(slides):
            sl_.shapes.add_picture(io.BytesIO(gen.png_bytes(random.Random("c16-step3-%d" % k))), 0, 0)
        buf3 = io.BytesIO()
        prs.save(buf3)
    except Exception as e:  # noqa
        bad("step3-raises:%s" % type(e).__name__, "add_picture on the opened deck / third save raised %r" % (e,))
        return
    acc.count("third_saves_after_additions")
    p3 = opcx.Pkg.from_bytes(buf3.getvalue())
    for a, b in mapping.items():
        ra = {r.id: r for r in (pin.rels(a) or []) if not r.external and pin.has_part(r.target)}
        rb = {r.id: r for r in (p3.rels(b) or [])}
        for rid, x in ra.items():
            y = rb.get(rid)
            if y is None or y.external or not p3.has_part(y.target):
                bad("step3-relationship-lost", "%s %s (-> %s in the input) is gone or dangling after a picture was added" % (b, rid, x.target))
            elif pin.ctype(x.target) != CT_SLIDE and x.target != main_part(pin) and pin.ctype(x.target) == p3.ctype(y.target) and not x.target.endswith(".xml"):
                if pin.blob(x.target) != p3.blob(y.target):
                    bad("step3-relationship-resolves-to-different-content", "%s %s: input %s and %s now carry different bytes" % (b, rid, x.target, y.target))
            elif pin.ctype(x.target) != p3.ctype(y.target):
                bad("step3-relationship-resolves-to-different-content", "%s %s: %s (%s) now resolves to %s (%s)" % (b, rid, x.target, pin.ctype(x.target), y.target, p3.ctype(y.target)))


def exercise(members, faults, form, acc, witness, label):
    """One recoverable case: open (both APIs), save, compare, step 2."""
    import pptx
    from pptx.opc.package import OpcPackage
    from props import c01
    from vlib import env

    opcx = _opcx()
    kinds = sorted({f["kind"] for f in faults} | ({"directory"} if form == "dir" else set()))
    kind = "+".join(kinds)

    def bad(key, what, exc=None):
        acc.violation("%s:%s%s" % (key, kind, ":" + type(exc).__name__ if exc is not None else ""), "%s: %s" % (label, what), witness)

    pin = pkg_of(members)
    pin_problems = opcx.closure_problems(pin)
    with (env.Scratch("c16") if form != "stream" else contextlib.nullcontext()) as tmp:
        if form == "stream":
            data = zip_bytes(members)
            src = lambda: io.BytesIO(data)  # noqa
        elif form == "path":
            with open(os.path.join(tmp, "in.pptx"), "wb") as fh:
                fh.write(zip_bytes(members))
            src = lambda: os.path.join(tmp, "in.pptx")  # noqa
        else:
            write_dir(members, os.path.join(tmp, "d"))
            src = lambda: os.path.join(tmp, "d")  # noqa
            acc.hit("_DirPkgReader")
        acc.count("opens", 2)
        try:
            opc = OpcPackage.open(src())
            loaded = {str(p.partname): p.content_type for p in opc.iter_parts()}
        except Exception as e:  # noqa
            bad("open-raises", "OpcPackage.open raised %s" % repr(e)[:300], e)
            return
        want = {p: pin.ctype(p) for p in pin.reachable()}
        if loaded != want:
            diff = sorted(set(loaded.items()) ^ set(want.items()))[:3]
            bad("loaded-parts-differ", "OpcPackage.open loaded %d parts, %d are reachable; differing (part, type): %s" % (len(loaded), len(want), diff))
        try:
            prs = pptx.Presentation(src())
        except Exception as e:  # noqa
            bad("open-raises", "Presentation() raised %s" % repr(e)[:300], e)
            return
        try:
            buf = io.BytesIO()
            prs.save(buf)
        except Exception as e:  # noqa
            bad("save-raises", "first save raised %s" % repr(e)[:300], e)
            return
        acc.count("saves")
        pout = opcx.Pkg.from_bytes(buf.getvalue())
        c01.compare(pin, pout, _Keyed(acc, kind), witness, label)
        acc.count("comparisons")
        for rule, detail in new_closure_problems(pin_problems, pout, {})[:4]:
            bad("closure:%s" % rule, detail)
        # anchors: the tolerance was actually exercised
        if "dangling" in kinds:
            acc.hit("_Relationships.load_from_xml.iter_valid_rels.skip")
            acc.hit("_PackageLoader._parts.absent-partname-filter")
        if "norels" in kinds:
            acc.hit("PackageReader.rels_xml_for.None")
        if "ctcase" in kinds:
            acc.hit("CaseInsensitiveDict.lookup")
        step2(prs, pin, pin_problems, acc, witness, label, kinds)


def run_case(rel, faults, form, acc, nontrivial=True):
    _, base = load_deck(rel)
    m = dict(base)
    ordered = sorted(faults, key=lambda f: f["kind"] == "sliderename" or f.get("entry") == "PartExt")  # renames last: other locations use the deck's own names
    for f in ordered:
        if not apply_fault(m, f):
            acc.count("fault_combination_inapplicable")
            return False
    witness = {"deck": rel, "faults": faults, "form": form}
    kinds = sorted({f["kind"] for f in faults} | ({"directory"} if form == "dir" else set()))
    exercise(m, faults, form, acc, witness, "%s %s %s" % (os.path.basename(rel), form, [{k: v for k, v in f.items() if k != "kind"} or f["kind"] for f in faults]))
    acc.case(desc=witness, nontrivial=nontrivial, cls="+".join(kinds) or "unfaulted")
    for k in kinds:
        acc.count("cases_with:" + k)
    return True


# ------------------------------------------------------------------ oracle: non-packages
def classify_pkg(pkg):
    """What an OPC-shaped input is -> expected outcome of Presentation(): an exception class, 'accept' or None (not judged)."""
    if "[Content_Types].xml" not in pkg.members or pkg.members.get("_rels/.rels") is None:
        return KeyError
    od = [r for r in (pkg.rels("/") or []) if r.type == RT_OD and not r.external]
    if len(od) > 1:
        return None
    if not od or not pkg.has_part(od[0].target) or pkg.ctype(od[0].target) is None:
        return KeyError
    ct = pkg.ctype(od[0].target)
    if ct in (CT_PRES, CT_PRES_MACRO):
        return "accept"
    return ValueError


def nonpkg_input(d):
    """descriptor -> ('bytes', b) | ('members', m) | ('emptydir'|'nopath', None)"""
    c = d["nonpkg"]
    if c.startswith("trunc-"):
        return "bytes", load_deck(d["deck"])[0][: d["cut"]]
    if c == "corrupt-member-data":
        b = bytearray(load_deck(d["deck"])[0])
        b[d["offset"]] ^= 0xFF
        return "bytes", bytes(b)
    if c in STRUCT:
        m = dict(load_deck(d["deck"])[1])
        if not apply_fault(m, {"kind": c}):
            raise RuntimeError("structural fault %s not applicable to %s" % (c, d["deck"]))
        return "members", m
    if c == "empty":
        return "bytes", b""
    if c == "text":
        return "bytes", b"This is a text file, not a presentation.\n" * d.get("size", 3)
    if c == "random":
        r = random.Random(d["seed"])
        return "bytes", bytes(r.randrange(256) for _ in range(d["size"]))
    if c == "zip-not-opc":
        return "members", {"hello.txt": b"hello", "dir/data.bin": b"\x00\x01"}
    if c == "zip-empty":
        return "members", {}
    return {"empty-directory": "emptydir", "nonexistent-path": "nopath", "empty-string-path": "emptystr"}[c], None


def run_nonpkg(d, acc):
    """One non-package case; `d` is the descriptor (= witness)."""
    import pptx
    from pptx.exc import PackageNotFoundError
    from vlib import env

    opcx = _opcx()
    kind, payload = nonpkg_input(d)
    form, cls = d["form"], d["nonpkg"]
    judged = cls not in ("corrupt-member-data",)
    also = ()
    if kind == "members":
        expected = classify_pkg(pkg_of(payload))
        if cls in STRUCT and expected is not STRUCT[cls]:
            raise RuntimeError("harness: %s on %s classified %r" % (cls, d.get("deck"), expected))
        payload = zip_bytes(payload) if form != "dir" else payload
    elif kind == "bytes":
        try:
            zipfile.ZipFile(io.BytesIO(payload)).close()
            try:
                expected = classify_pkg(opcx.Pkg.from_bytes(payload))  # a zip after all (e.g. tail = stored embedded .xlsx)
                acc.count("truncations_that_are_still_a_zip", 1 if cls.startswith("trunc-") else 0)
            except Exception:  # noqa  (members unreadable: damaged zip)
                expected = zipfile.BadZipFile
                judged = judged and cls.startswith("trunc-")
        except zipfile.BadZipFile:
            expected = PackageNotFoundError if form == "path" else zipfile.BadZipFile
            if form == "path" and zipfile.is_zipfile(io.BytesIO(payload)):
                also = (zipfile.BadZipFile,)  # an end record is present but the directory is unusable
                acc.count("paths_with_end_record_but_unusable_directory")
    else:
        expected = KeyError if kind == "emptydir" else PackageNotFoundError
    with env.Scratch("c16n") as tmp:
        if kind == "emptydir":
            arg = os.path.join(tmp, "empty")
            os.makedirs(arg)
        elif kind == "nopath":
            arg = os.path.join(tmp, "no-such-file.pptx")
        elif kind == "emptystr":
            arg = ""  # a path that names no file (only None stands for the default template)
        elif form == "stream":
            arg = io.BytesIO(payload)
        elif form == "fileobj":
            with open(os.path.join(tmp, "in.pptx"), "wb") as fh:
                fh.write(payload)
            arg = fobj = open(os.path.join(tmp, "in.pptx"), "rb")
        elif form == "path":
            arg = os.path.join(tmp, "in.pptx")
            with open(arg, "wb") as fh:
                fh.write(payload)
        else:
            arg = os.path.join(tmp, "d")
            os.makedirs(arg)
            write_dir(payload, arg)
        try:
            pptx.Presentation(arg)
            got = "accept"
        except Exception as e:  # noqa
            got, exc = type(e), e
        if form == "fileobj":
            fobj.close()
    name = "%s-%s" % (cls, form)
    acc.count("nonpackage_opens")
    gname = got if got == "accept" else got.__name__
    if not judged or expected is None:
        acc.count("observed:%s:%s" % (name, gname))
    elif got == "accept" and expected != "accept":
        acc.violation("non-package-accepted:%s" % name, "%r was opened although it is %s" % (d, getattr(expected, "__name__", expected)), d)
    elif got is not expected and got not in also:
        what = "%r: expected %s, got %s" % (d, getattr(expected, "__name__", expected), gname if got == "accept" else repr(exc)[:200])
        acc.violation("non-package-wrong-exception:%s:%s" % (name, gname), what, d)
    else:
        acc.hit({PackageNotFoundError: "_PhysPkgReader.factory.PackageNotFoundError", zipfile.BadZipFile: "zipfile.BadZipFile",
                 KeyError: "KeyError.missing-mandatory-member", ValueError: "api._is_pptx_package.ValueError"}.get(got, "accepted"))
    acc.case(desc=d, nontrivial=True, cls="nonpkg:" + cls)
    return getattr(expected, "__name__", expected), gname


def nonpkg_deck_cases(rel, rnd, everything):
    data, _ = load_deck(rel)
    zf = zipfile.ZipFile(io.BytesIO(data))
    infos = sorted(zf.infolist(), key=lambda i: i.header_offset)
    eocd, sd = data.rfind(b"PK\x05\x06"), zf.start_dir

    def mid(i):
        return i.header_offset + 30 + len(i.filename.encode()) + max(1, i.compress_size // 2)

    cuts = {
        "trunc-head": [1, 4, 29, 30 + len(infos[0].filename.encode())],
        "trunc-mid-member": [mid(infos[0]), mid(infos[len(infos) // 2]), mid(infos[-1]), mid(max(infos, key=lambda i: i.compress_size))],
        "trunc-member-boundary": [infos[1].header_offset, infos[-1].header_offset, sd],
        "trunc-mid-central-directory": [sd + 10, (sd + eocd) // 2, eocd - 1],
        "trunc-no-eocd": [eocd],
        "trunc-mid-eocd": [eocd + 4, eocd + 21, len(data) - 1],
        "trunc-random": [rnd.randrange(1, len(data)) for _ in range(12 if everything else 2)] + [max(1, len(data) - rnd.randrange(1, 70000)) for _ in range(6 if everything else 1)],
    }
    out = []
    for cls, cs in cuts.items():
        cs = sorted(set(cs)) if everything or cls == "trunc-random" else [rnd.choice(cs)]
        out += [{"nonpkg": cls, "deck": rel, "cut": c, "form": f} for c in cs for f in ("stream", "path")]
        out += [{"nonpkg": cls, "deck": rel, "cut": cs[0], "form": "fileobj"}]
    for cls in list(STRUCT):
        out += [{"nonpkg": cls, "deck": rel, "form": f} for f in (("stream", "path", "dir") if everything else (rnd.choice(["stream", "path"]), "dir"))]
    big = [i for i in infos if i.compress_size > 40]
    for _ in range(8 if everything else 2):
        i = rnd.choice(big)
        out.append({"nonpkg": "corrupt-member-data", "deck": rel, "form": "stream",
                    "offset": i.header_offset + 30 + len(i.filename.encode()) + 8 + rnd.randrange(i.compress_size - 16)})
    return out


def synthetic_cases(rnd):
    out = []
    for f in ("stream", "path", "fileobj"):  # fileobj: a real open file (open(path, "rb")) - a stream, though it has a .name
        out += [{"nonpkg": c, "form": f} for c in ("empty", "text", "zip-not-opc", "zip-empty")]
        out += [{"nonpkg": "text", "form": f, "size": 3000}]
        out += [{"nonpkg": "random", "form": f, "size": s, "seed": rnd.randrange(1 << 30)} for s in (1, 21, 22, 100, 5000, 70000)]
    out += [{"nonpkg": "zip-not-opc", "form": "dir"}, {"nonpkg": "empty-directory", "form": "path"}, {"nonpkg": "nonexistent-path", "form": "path"},
            {"nonpkg": "empty-string-path", "form": "path"}]
    return out


# ------------------------------------------------------------------ work units
def deck_cases(rel, tier):
    """Deterministic (seeded) list of (faults, form, nontrivial) for one deck."""
    from vlib import env

    rnd = env.rng("C16", rel, tier)
    _, members = load_deck(rel)
    everything = tier == "thorough"
    locs = locations(pkg_of(members), members, rnd, everything)
    cases = [([], "dir", True)]
    if everything:
        cases += [([f], form, nt) for f, nt in locs for form in ("stream", "path", "dir")]
        pairs = list(itertools.combinations(range(len(locs)), 2))
        if len(locs) > 40:
            pairs = rnd.sample(pairs, min(len(pairs), 800))
    else:
        quota = {"dangling": 12, "norels": 6, "ctcase": 9, "unknownct": 5, "extra": 4, "sliderename": 4, "nocore": 1}
        for kind, q in quota.items():
            pool = [x for x in locs if x[0]["kind"] == kind]
            cases += [([f], rnd.choice(["stream", "stream", "path", "dir"]), nt) for f, nt in rnd.sample(pool, min(q, len(pool)))]
        pairs = [tuple(sorted(rnd.sample(range(len(locs)), 2))) for _ in range(8)]
    for i, j in pairs:
        cases.append(([locs[i][0], locs[j][0]], rnd.choice(["stream", "stream", "path", "dir"]), locs[i][1] or locs[j][1]))
    return cases


def plan(tier, seed):
    from vlib import env

    decks = [os.path.relpath(p, env.REPO) for p in env.corpus_decks()]
    units = []
    for rel in decks:
        path = os.path.join(env.REPO, rel)
        nm = len(zipfile.ZipFile(path).namelist())
        cost = (2.0 * nm + os.path.getsize(path) / 20000.0) * (8 * nm + 900 if tier == "thorough" else 50)  # ~ms: per-case cost x number of cases, both grow with the member count
        k = max(1, min(24, int(round(cost / (90000.0 if tier == "thorough" else 3000.0)))))
        units += [{"kind": "deck", "deck": rel, "shard": j, "of": k, "cost": cost / k} for j in range(k)]
    nd = decks if tier == "thorough" else decks[seed % 6::6]
    units += [{"kind": "nonpkg", "decks": nd[i::8], "cost": 1500.0 * len(nd[i::8])} for i in range(8) if nd[i::8]]
    units.append({"kind": "synthetic", "cost": 500.0})
    units.sort(key=lambda u: -u["cost"])  # round-robin over workers then balances the load
    return units


def run_unit(unit, tier, seed, acc):
    from vlib import env

    if unit["kind"] == "deck":
        cases = deck_cases(unit["deck"], tier)
        for faults, form, nt in cases[unit["shard"]::unit["of"]]:
            run_case(unit["deck"], faults, form, acc, nt)
    elif unit["kind"] == "nonpkg":
        for rel in unit["decks"]:
            for d in nonpkg_deck_cases(rel, env.rng("C16n", rel, tier), tier == "thorough"):
                run_nonpkg(d, acc)
    else:
        for d in synthetic_cases(env.rng("C16s", tier)):
            run_nonpkg(d, acc)


def replay(w, acc):
    if "nonpkg" in w:
        print("non-package input %r: (expected, observed) = %r" % (w, run_nonpkg(w, acc)))
    else:
        print("faulted input:", w["deck"], w["faults"], "as", w["form"], "-> applicable:", run_case(w["deck"], w["faults"], w["form"], acc))
    print("counters:", {k: v for k, v in acc.counters.items() if k.startswith("observed") or k.endswith("saves")})
    print("violations:", [(v["key"], v["what"][:300]) for v in acc.violations])


def finalize(acc, tier, seed):
    for k in KINDS:
        if not acc.counters.get("cases_with:" + k):
            acc.inconclusive.append("fault kind never exercised: " + k)
    for c in TRUNC + SYNTH + list(STRUCT):
        if not acc.classes.get("nonpkg:" + c):
            acc.inconclusive.append("non-package class never exercised: " + c)
    for need in ("comparisons", "second_saves", "graph_parts_compared"):
        if not acc.counters.get(need):
            acc.inconclusive.append("deciding counter is zero: " + need)
    for need in ("_Relationships.load_from_xml.iter_valid_rels.skip", "PackageReader.rels_xml_for.None", "CaseInsensitiveDict.lookup", "_DirPkgReader",
                 "PresentationPart.rename_slide_parts(renaming)", "Package.core_properties.default-created", "_PhysPkgReader.factory.PackageNotFoundError",
                 "zipfile.BadZipFile", "KeyError.missing-mandatory-member", "api._is_pptx_package.ValueError"):
        if not acc.reach.get(need):
            acc.inconclusive.append("anchor never reached: " + need)
    if acc.counters.get("fault_combination_inapplicable", 0) > 0.25 * max(1, acc.evaluations):
        acc.inconclusive.append("more than 25% of the planned fault combinations were inapplicable")
