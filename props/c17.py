"""C17 — connector endpoints, group extents and freeform bounds obey their geometry.

(A) Connector: reference model (bx, by, ex, ey).  Bounded-exhaustive: every creation over the grid
    {-2,0,1,3}^4 (and the same grid x 914400) followed by every sequence of <= 2 (quick) / <= 3 (thorough)
    single-coordinate assignments to grid values, walked as a tree (the pre-move a:xfrm attributes are put
    back by the harness after each subtree); random 50-move sequences up to the ST_Coordinate limits; all three
    connector types.  After each move the four readings and the endpoints rebuilt by the harness from
    a:off/a:ext/@flipH/@flipV equal the model and cx, cy >= 0.  A ValueError is a rejected call: nothing changes.
(B) Group: random nested builds to depth 4 through the public add_* calls; after every addition each ancestor
    group's a:off/a:ext, a:chOff/a:chExt and left/top/width/height equal the bounding box of its members.
(C) Freeform: random pens; position/size against the documented formula (+-1 EMU), path points inside a:path w/h.
"""
from __future__ import annotations

import io
import itertools
import math
from collections import Counter
from fractions import Fraction

from vlib import env
from vlib.xsdkit import NS

ID = "C17"
LEVEL = "exploration"
EXHAUSTIVE = False  # part A is bounded-exhaustive (see RULE), parts B and C are random
RULE = (
    "A: creations (bx,by,ex,ey) over {-2,0,1,3}^4 x scale {1, 914400}, then every sequence of <=2 (quick) / <=3 "
    "(thorough) assignments begin_x|begin_y|end_x|end_y := grid value; one case = one (creation, move sequence), "
    "disjointly enumerated and counted; non-trivial = the sequence contains a move that crosses the other endpoint "
    "in its axis. Random: 50-move sequences with values from the grid, next to an endpoint, +-2^31, +-1.36e13 and "
    "just outside ST_Coordinate. B: one case = one addition (autoshape, textbox, picture, connector, chart, OLE "
    "object, freeform, group-with-shapes) into a random group of a random nesting (depth <= 4); non-trivial = >= 2 "
    "ancestor groups or a negative coordinate; distinct = (build, step). C: one case = one pen (start, scale, "
    "contours, origin); non-trivial = negative or fractional vertex, several contours or non-uniform scale."
)
ASSUMPTIONS = [
    "a:xfrm semantics (DrawingML): flipH mirrors the line inside its box, so begin = (x+cx if flipH else x), end the other side",
    "XML is read from the live lxml tree with Clark-name find()/get() written here, never with python-pptx accessors",
    "member extents of a group = each member's own a:off/a:ext (p:xfrm for graphic frames); a subgroup that holds no shape at any depth contributes no box",
    "freeform vertices ending in exactly .5 are not generated ('nearest integer' is ambiguous for ties)",
    "ST_Coordinate range -27273042329600..27273042316900 and ST_PositiveCoordinate 0..27273042316900 (dml-main.xsd)",
]
WATCHDOG_S = {"quick": 600, "thorough": 3600}

A = "{%s}" % NS["a"]
P = "{%s}" % NS["p"]
COORDS = ("begin_x", "begin_y", "end_x", "end_y")
GRID = (-2, 0, 1, 3)
SCALES = (1, 914400)
LIM_LO, LIM_HI = -27273042329600, 27273042316900
HUGE = 13600000000000  # any two values this size differ by less than LIM_HI
TRUE = ("1", "true")
SHAPE_TAGS = tuple(P + t for t in ("sp", "grpSp", "graphicFrame", "cxnSp", "pic", "contentPart"))
CALLS = Counter()


def new_slide():
    import pptx

    prs = pptx.Presentation()
    return prs, prs.slides.add_slide(prs.slide_layouts[6])


# ---------------------------------------------------------------- the harness's own XML reading
def xfrm_of(el):
    if el.tag == P + "grpSp":
        return el.find(P + "grpSpPr/" + A + "xfrm")
    if el.tag == P + "graphicFrame":
        return el.find(P + "xfrm")
    return el.find(P + "spPr/" + A + "xfrm")


def read_xfrm(xf):
    """(x, y, cx, cy, flipH, flipV) of an a:xfrm"""
    off, ext = xf.find(A + "off"), xf.find(A + "ext")
    return (int(off.get("x")), int(off.get("y")), int(ext.get("cx")), int(ext.get("cy")), xf.get("flipH") in TRUE, xf.get("flipV") in TRUE)


def snapshot(xf):
    off, ext = xf.find(A + "off"), xf.find(A + "ext")
    return (off.get("x"), off.get("y"), ext.get("cx"), ext.get("cy"), xf.get("flipH"), xf.get("flipV"))


def restore(xf, s):
    off, ext = xf.find(A + "off"), xf.find(A + "ext")
    off.set("x", s[0]), off.set("y", s[1]), ext.set("cx", s[2]), ext.set("cy", s[3])
    for name, v in (("flipH", s[4]), ("flipV", s[5])):
        if v is None:
            xf.attrib.pop(name, None)
        else:
            xf.set(name, v)


def bbox(rects):
    x0, y0 = min(r[0] for r in rects), min(r[1] for r in rects)
    return (x0, y0, max(r[0] + r[2] for r in rects) - x0, max(r[1] + r[3] for r in rects) - y0)


# ================================================================ (A) connector
class Conn:
    def __init__(self, slide, type_name, pts):
        from pptx.enum.shapes import MSO_CONNECTOR

        self.shape = slide.shapes.add_connector(getattr(MSO_CONNECTOR, type_name), *pts)
        CALLS["add_connector"] += 1
        self.xfrm = xfrm_of(self.shape._element)

    def remove(self):
        el = self.shape._element
        el.getparent().remove(el)


def check_conn(c, model, acc, prefix, wit):
    """readings == model; XML extents >= 0; endpoints rebuilt from a:off/a:ext/flip == model"""
    sh = c.shape
    got = (int(sh.begin_x), int(sh.begin_y), int(sh.end_x), int(sh.end_y))
    CALLS["get"] += 1
    x, y, cx, cy, fh, fv = read_xfrm(c.xfrm)
    xml = (x + cx if fh else x, y + cy if fv else y, x if fh else x + cx, y if fv else y + cy)
    if got == model and xml == model and cx >= 0 and cy >= 0:
        return True
    for name, g, m in zip(COORDS, got, model):
        if g != m:
            acc.violation("%s:%s" % (prefix, name), "%s reads %d, expected %d (readings %s, model %s)" % (name, g, m, got, model), wit())
    if cx < 0 or cy < 0:
        acc.violation("connector-negative-extent", "a:ext cx=%d cy=%d after %s" % (cx, cy, prefix), wit())
    if xml != model:
        acc.violation("%s:xml" % prefix, "a:off/a:ext/flip give endpoints %s, expected %s" % (xml, model), wit())
    return False


def classify(model, ci, v):
    other, old = model[(ci + 2) % 4], model[ci]
    if v == other:
        return "to-equal"
    if old == other:
        return "from-equal"
    return "cross" if (old - other) * (v - other) < 0 else "same-side"


def do_move(c, model, ci, v, acc, wit):
    """Assign one coordinate, check, and return (new model, class of the move)."""
    name = COORDS[ci]
    before = snapshot(c.xfrm)
    sem_before = read_xfrm(c.xfrm)
    cls = classify(model, ci, v)
    tag = "%s:flip=%d" % (name, sem_before[4 + ci % 2])
    CALLS["set:" + name] += 1
    try:
        setattr(c.shape, name, v)
    except ValueError as e:
        CALLS["rejected"] += 1
        if read_xfrm(c.xfrm) != sem_before:
            acc.violation(
                "connector-rejected-move-changed-state:" + tag,
                "%s = %d raised %s but a:xfrm went %s -> %s (endpoints were %s)" % (name, v, type(e).__name__, sem_before, read_xfrm(c.xfrm), model),
                wit(),
            )
            restore(c.xfrm, before)
        return model, "rejected"
    except Exception as e:  # noqa
        acc.violation("connector-raises:" + name, "%s = %d raised %r with endpoints %s" % (name, v, e, model), wit())
        restore(c.xfrm, before)
        return model, "raised"
    new = model[:ci] + (v,) + model[ci + 1:]
    CALLS["class:%s:%s" % (tag, cls)] += 1
    if not check_conn(c, new, acc, "connector:%s:%s" % (tag, cls), wit):
        resync(c, new)
    return new, cls


def resync(c, model):
    """after a violation: put the connector into the model's state in the harness's own terms, so one defect is reported once"""
    bx, by, ex, ey = model
    restore(c.xfrm, (str(min(bx, ex)), str(min(by, ey)), str(abs(ex - bx)), str(abs(ey - by)), "1" if bx > ex else None, "1" if by > ey else None))


def conn_exhaustive(unit, acc):
    prs, slide = new_slide()
    grid = [g * unit["scale"] for g in GRID]
    maxdepth = unit["depth"]
    path, e0 = [], acc.evaluations

    def walk(c, create, model, crossed):
        for ci in range(4):
            for v in grid:
                before = snapshot(c.xfrm)
                path.append([COORDS[ci], v])
                new, cls = do_move(c, model, ci, v, acc, lambda: {"part": "connector", "type": "STRAIGHT", "create": list(create), "moves": [list(m) for m in path]})
                x = crossed or cls == "cross"
                acc.evaluations += 1
                acc.nontrivial_count += x
                if len(path) < maxdepth:
                    walk(c, create, new, x)
                path.pop()
                restore(c.xfrm, before)

    for i, pts in enumerate(itertools.product(grid, repeat=4)):
        if i % unit["of"] != unit["shard"]:
            continue
        c = Conn(slide, "STRAIGHT", pts)
        if not check_conn(c, pts, acc, "connector-create:STRAIGHT", lambda: {"part": "connector", "type": "STRAIGHT", "create": list(pts), "moves": []}):
            resync(c, pts)
        walk(c, pts, pts, False)
        c.remove()
        if i == unit["shard"]:
            acc.samples.append({"connector": list(pts), "then": "all move sequences of length <= %d over %s" % (maxdepth, grid)})
    acc.classes["connector-sequence(exhaustive)"] = acc.classes.get("connector-sequence(exhaustive)", 0) + acc.evaluations - e0


def conn_types(acc):
    """every creation x the three connector types; out-of-range assignments from every flip state"""
    prs, slide = new_slide()
    for scale in SCALES:
        for pts in itertools.product([g * scale for g in GRID], repeat=4):
            for t in ("STRAIGHT", "ELBOW", "CURVE"):
                wit = {"part": "connector", "type": t, "create": list(pts), "moves": []}
                c = Conn(slide, t, pts)
                check_conn(c, pts, acc, "connector-create:" + t, lambda: wit)
                acc.case(desc=None, nontrivial=pts[0] > pts[2] or pts[1] > pts[3], cls="connector-create:" + t)
                c.remove()
            if scale == 1:
                c = Conn(slide, "STRAIGHT", pts)
                for ci in range(4):
                    for v in (LIM_LO - 1, LIM_HI + 1, -3 * 10**13, 3 * 10**13):
                        w = {"part": "connector", "type": "STRAIGHT", "create": list(pts), "moves": [[COORDS[ci], v]]}
                        before = snapshot(c.xfrm)
                        do_move(c, pts, ci, v, acc, lambda: w)
                        restore(c.xfrm, before)
                        acc.case(desc=None, nontrivial=True, cls="connector-out-of-range-assignment")
                c.remove()


def rand_value(r, model):
    k = r.random()
    if k < 0.25:
        return r.choice(GRID) * r.choice(SCALES)
    if k < 0.45:
        return r.choice(model) + r.choice((-1, 0, 1))
    if k < 0.75:
        return r.randint(-(2**31), 2**31)
    if k < 0.96:
        return r.randint(-HUGE, HUGE)
    return r.choice((LIM_LO - 1, LIM_HI + 1, -3 * 10**13, 3 * 10**13))


def conn_random(unit, acc):
    prs, slide = new_slide()
    for n in range(unit["n"]):
        r = env.rng("C17", "conn", unit["shard"], n)
        pts = tuple(rand_value(r, (0, 0, 0, 0)) for _ in range(4))
        pts = tuple(max(-HUGE, min(HUGE, p)) for p in pts)
        t = r.choice(("STRAIGHT", "ELBOW", "CURVE"))
        moves = []
        wit = lambda: {"part": "connector", "type": t, "create": list(pts), "moves": [list(m) for m in moves]}  # noqa
        c = Conn(slide, t, pts)
        model = pts
        if not check_conn(c, model, acc, "connector-create:" + t, wit):
            resync(c, model)
        crossings = 0
        for _ in range(50):
            ci, v = r.randrange(4), rand_value(r, model)
            moves.append([COORDS[ci], v])
            model, cls = do_move(c, model, ci, v, acc, wit)
            crossings += cls == "cross"
        c.remove()
        sample = {"type": t, "create": list(pts), "first 5 of 50 moves": moves[:5], "crossing moves": crossings} if n == 0 else None
        acc.case(key=env.khash([pts, moves]), nontrivial=crossings > 0, cls="connector-sequence(random-50)", sample=sample)


# ================================================================ (C) freeform (also used inside groups)
def nearest(v):
    return math.floor(Fraction(v) + Fraction(1, 2))


def run_pen(shapes, pen, on_stage=None):
    """Drive one FreeformBuilder.  pen["stages"] (optional) lists contour indices after which the builder is used before it
    is complete - "convert" makes a shape from what is drawn so far (the builder is documented as re-usable), "peek" reads
    its public shape_offset_x/y - and drawing then continues on the same builder."""
    sc = pen["scale"]
    fb = shapes.build_freeform(pen["start"][0], pen["start"][1], tuple(sc) if isinstance(sc, list) else sc)
    stages = dict(pen.get("stages") or [])
    convert = lambda: fb.convert_to_shape(*pen["origin"]) if pen["origin"] is not None else fb.convert_to_shape()  # noqa: E731
    if stages.get(-1) == "peek":
        fb.shape_offset_x, fb.shape_offset_y
        CALLS["builder_peeks"] += 1
    for k, c in enumerate(pen["contours"]):
        if c["move"] is not None:
            fb.move_to(*c["move"])
        fb.add_line_segments([tuple(v) for v in c["verts"]], close=c["close"])
        if k < len(pen["contours"]) - 1 and k in stages:
            if stages[k] == "peek":
                fb.shape_offset_x, fb.shape_offset_y
                CALLS["builder_peeks"] += 1
            else:
                CALLS["convert_to_shape"] += 1
                CALLS["builder_reused_after_convert"] += 1
                early = convert()
                if on_stage is not None:
                    on_stage(early, dict(pen, contours=pen["contours"][: k + 1], stages=None))
                early._element.getparent().remove(early._element)
    CALLS["convert_to_shape"] += 1
    return convert()


def check_freeform(shape, pen, acc, wit):
    """left/top/width/height = scaled bounding box of the rounded vertices (incl. start) + origin; points inside the path box"""
    pts = [(nearest(pen["start"][0]), nearest(pen["start"][1]))]
    for c in pen["contours"]:
        if c["move"] is not None:
            pts.append((nearest(c["move"][0]), nearest(c["move"][1])))
        pts.extend((nearest(x), nearest(y)) for x, y in c["verts"])
    sc = pen["scale"]
    sx, sy = (Fraction(sc[0]), Fraction(sc[1])) if isinstance(sc, list) else (Fraction(sc), Fraction(sc))
    ox, oy = pen["origin"] if pen["origin"] is not None else (0, 0)
    x0, x1 = min(p[0] for p in pts), max(p[0] for p in pts)
    y0, y1 = min(p[1] for p in pts), max(p[1] for p in pts)
    want = (ox + x0 * sx, oy + y0 * sy, (x1 - x0) * sx, (y1 - y0) * sy)
    el = shape._element
    xml = read_xfrm(xfrm_of(el))[:4]
    api = (int(shape.left), int(shape.top), int(shape.width), int(shape.height))
    for field, g, a, w in zip(("left", "top", "width", "height"), xml, api, want):
        if abs(g - w) > 1 or abs(a - w) > 1:
            acc.violation("freeform-bounds:" + field, "%s is %d (XML %d), documented formula gives %s" % (field, a, g, float(w)), wit())
    if xml != api:
        acc.violation("freeform-api-xml-disagree", "left/top/width/height %s but a:off/a:ext %s" % (api, xml), wit())
    paths = el.findall(P + "spPr/" + A + "custGeom/" + A + "pathLst/" + A + "path")
    seen = []
    for path in paths:
        w, h = int(path.get("w")), int(path.get("h"))
        for pt in path.iter(A + "pt"):
            x, y = int(pt.get("x")), int(pt.get("y"))
            seen.append((x, y))
            CALLS["freeform_points"] += 1
            if not (0 <= x <= w and 0 <= y <= h):
                acc.violation("freeform-point-outside-path", "a:pt (%d,%d) outside path w=%d h=%d" % (x, y, w, h), wit())
    if len(paths) != 1 or (int(paths[0].get("w")), int(paths[0].get("h"))) != (x1 - x0, y1 - y0):
        acc.violation("freeform-path-extent", "%d a:path, w/h %s; local bounding box is %s" % (len(paths), [(p.get("w"), p.get("h")) for p in paths], (x1 - x0, y1 - y0)), wit())
    if seen != [(x - x0, y - y0) for x, y in pts]:
        acc.violation("freeform-path-points", "path points %s, expected %s" % (seen[:8], [(x - x0, y - y0) for x, y in pts][:8]), wit())
    closes = sum(1 for p in paths for _ in p.iter(A + "close"))
    if closes != sum(1 for c in pen["contours"] if c["close"]):
        acc.violation("freeform-path-points", "%d a:close for %d closed contours" % (closes, sum(1 for c in pen["contours"] if c["close"])), wit())
    CALLS["freeform_checked"] += 1


def gen_pen(r, small=False):
    def num():
        base = r.choice((r.randint(-20, 20), r.randint(-1000, 1000), r.randint(-30, 30) if small else r.randint(-(10**6), 10**6)))
        return base + r.choice((0, 0, 0.25, 0.3, 0.49, 0.51, 0.75, -0.25))

    one = lambda: r.choice((1, 1.0, 2, 0.5, 2.5, 914.4, 12700, 36000 / 7.0, 100))  # noqa
    scale = one() if r.random() < 0.5 else [one(), one()]
    start = [num(), num()]
    contours, last = [], start
    for k in range(r.choice((1, 1, 2, 3))):
        verts = []
        for _ in range(r.randint(0, 6)):
            last = r.choice((last, start)) if r.random() < 0.2 else [num(), num()]  # repeated vertices
            verts.append(list(last))
        contours.append({"move": [num(), num()] if (k or r.random() < 0.1) else None, "verts": verts, "close": r.random() < 0.5})
    origin = None if r.random() < 0.2 else [r.randint(-(10**7), 10**7), r.randint(-5000, 5000)]
    pen = {"start": start, "scale": scale, "contours": contours, "origin": origin}
    if r.random() < 0.4:  # the builder is used (converted, or its offsets read) before the drawing is complete
        pen["stages"] = [[k, r.choice(("convert", "peek"))] for k in range(-1, len(contours) - 1) if r.random() < 0.6]
        pen["stages"] = [[k, "peek" if k < 0 else how] for k, how in pen["stages"]]
    return pen


def pen_class(pen):
    nums = list(pen["start"]) + [n for c in pen["contours"] for v in c["verts"] + ([c["move"]] if c["move"] else []) for n in v]
    nonuni = isinstance(pen["scale"], list) and pen["scale"][0] != pen["scale"][1]
    nontrivial = any(n < 0 or n != int(n) for n in nums) or len(pen["contours"]) > 1 or nonuni
    staged = ":builder-used-midway" if pen.get("stages") else ""
    return nontrivial, "freeform:%s:%s%s" % ("multi-contour" if len(pen["contours"]) > 1 else "single-contour", "non-uniform" if nonuni else "uniform", staged)


def freeform_random(unit, acc):
    prs, slide = new_slide()
    for n in range(unit["n"]):
        pen = gen_pen(env.rng("C17", "pen", unit["shard"], n))
        sp = run_pen(slide.shapes, pen, on_stage=lambda early, prefix: check_freeform(early, prefix, acc, lambda: {"part": "freeform", "pen": pen}))
        check_freeform(sp, pen, acc, lambda: {"part": "freeform", "pen": pen})
        nt, cls = pen_class(pen)
        acc.case(key=env.khash(pen), nontrivial=nt, cls=cls, sample={"pen": pen, "left/top/width/height": [int(sp.left), int(sp.top), int(sp.width), int(sp.height)]} if n == 0 else None)
        sp._element.getparent().remove(sp._element)


# ================================================================ (B) groups
def count_recalcs():
    from pptx.oxml.shapes.groupshape import CT_GroupShape

    orig = CT_GroupShape.recalculate_extents
    if getattr(orig, "_c17", False):
        return

    def counted(self):
        CALLS["recalculate_extents"] += self.tag == P + "grpSp"
        return orig(self)

    counted._c17 = True
    CT_GroupShape.recalculate_extents = counted


MC = "{http://schemas.openxmlformats.org/markup-compatibility/2006}"


def members(g_el):
    """The member shapes of a group: its shape children, and the shapes PowerPoint wraps in mc:AlternateContent (a newer kind
    of object in the mc:Choice, its stand-in in the mc:Fallback: one member, whose box is that of the Choice's shape)."""
    out = []
    for c in g_el:
        if c.tag in SHAPE_TAGS:
            out.append(c)
        elif c.tag == MC + "AlternateContent":
            ch = c.find(MC + "Choice")
            out += [x for x in (ch if ch is not None else ()) if x.tag in SHAPE_TAGS]
    return out


def listed(g_el):
    """The members python-pptx's shape collection lists (direct shape children): what an index into `group.shapes` counts."""
    return [c for c in g_el if c.tag in SHAPE_TAGS]


def holds_shape(el):
    """False for a group without a member shape at any depth ("the bounding box of its member shapes, recursively": such a
    group has no shape to bound and contributes no box to the group it stands in)."""
    return el.tag != P + "grpSp" or any(holds_shape(c) for c in members(el))


def height(el):
    return 0 if el.tag != P + "grpSp" else 1 + max([height(c) for c in members(el)] or [0])


def png(color):
    from PIL import Image

    b = io.BytesIO()
    Image.new("RGB", (2, 3), tuple(color)).save(b, "PNG")
    return io.BytesIO(b.getvalue())


class GroupBuild:
    """Executes JSON-able ops through the public API and checks every ancestor group after each addition."""

    def __init__(self, acc):
        self.acc = acc
        self.prs, self.slide = new_slide()
        self.groups = []  # GroupShape proxies in creation order (ops refer to them by index)
        self.proxy = {}  # live p:grpSp element -> proxy
        self.dirty = set()  # groups put out of step with their members by this harness (see group_step)
        self.ops = []
        count_recalcs()

    def container(self, gi):
        return self.slide.shapes if gi < 0 else self.groups[gi].shapes

    def depth(self, gi):
        return 0 if gi < 0 else 1 + sum(1 for _ in self.groups[gi]._element.iterancestors(P + "grpSp"))

    def apply(self, op):
        """-> (element to check from, kind)"""
        from pptx.chart.data import CategoryChartData
        from pptx.enum.chart import XL_CHART_TYPE
        from pptx.enum.shapes import MSO_CONNECTOR, MSO_SHAPE, PROG_ID
        from pptx.util import Emu

        self.ops.append(op)
        shapes = self.container(op["into"])
        kind = op["op"]
        if op.get("turbo"):  # "turbo-add" (cached next shape id) switched on for this collection before the addition
            shapes.turbo_add_enabled = True
            CALLS["additions_with_turbo_add_enabled"] += 1
        if kind == "group":
            current = list(shapes if op.get("take_from") is None else self.container(op["take_from"]))
            g = shapes.add_group_shape([current[i] for i in op["take"]])
            CALLS["add_group_shape"] += 1
            if op.get("take_from") is not None:
                CALLS["add_group_shape:members-taken-out-of-another-group"] += 1
            self.groups.append(g)
            self.proxy[g._element] = g
            return g._element, ("group-with-shapes" if op["take"] else "empty-group")
        x, y, w, h = (Emu(v) for v in op["xywh"])
        if kind == "autoshape":
            s = shapes.add_shape(MSO_SHAPE.RECTANGLE, x, y, w, h)
        elif kind == "textbox":
            s = shapes.add_textbox(x, y, w, h)
        elif kind == "picture":
            s = shapes.add_picture(png(op["color"]), x, y, *((w, h) if op["sized"] else ()))
        elif kind == "connector":
            s = shapes.add_connector(MSO_CONNECTOR.ELBOW, x, y, w, h)  # here xywh are the two end points
        elif kind == "chart":
            cd = CategoryChartData()
            cd.categories = ["a", "b"]
            cd.add_series("s", (1, 2))
            s = shapes.add_chart(XL_CHART_TYPE.PIE, x, y, w, h, cd)
        elif kind == "ole":
            s = shapes.add_ole_object(io.BytesIO(b"C17"), PROG_ID.XLSX, x, y, *((w, h) if op["sized"] else ()))
        elif kind == "freeform":
            s = run_pen(shapes, op["pen"])
            check_freeform(s, op["pen"], self.acc, self.witness)
        CALLS["group_add:" + kind] += 1
        return s._element, kind

    def witness(self):
        return {"part": "group", "ops": list(self.ops)}

    def check(self, el, kind):
        """every ancestor group of `el` (and `el` itself when it is a populated new group)"""
        acc = self.acc
        chain = ([el] if el.tag == P + "grpSp" else []) + list(el.iterancestors(P + "grpSp"))
        if kind == "empty-group":
            chain = [g for g in chain if g not in self.dirty]
        else:
            self.dirty.difference_update(chain)
        for level, g in enumerate(chain):
            boxed = [m for m in members(g) if holds_shape(m) and xfrm_of(m) is not None and xfrm_of(m).find(A + "off") is not None and xfrm_of(m).find(A + "ext") is not None]
            if not boxed:
                continue
            want = bbox([read_xfrm(xfrm_of(m))[:4] for m in boxed])  # (a member without a:xfrm has no box of its own to contribute)
            xf = xfrm_of(g)
            got = read_xfrm(xf)[:4]
            choff, chext = xf.find(A + "chOff"), xf.find(A + "chExt")
            ch = None if choff is None or chext is None else (int(choff.get("x")), int(choff.get("y")), int(chext.get("cx")), int(chext.get("cy")))
            pr = self.proxy[g]
            api = (int(pr.left), int(pr.top), int(pr.width), int(pr.height))
            wrapped = any(c.tag == MC + "AlternateContent" for c in g)
            # (python-pptx's shape collection does not list a wrapped member: there the XML side alone decides)
            api_want = api if wrapped else bbox([(int(m.left), int(m.top), int(m.width), int(m.height)) for m in pr.shapes if holds_shape(m._element) and None not in (m.left, m.top, m.width, m.height)])
            key = "group-extents-stale:freeform" if kind == "freeform" else "group-extents:%s%s" % (kind, ":ancestor" if level else "")
            where = "group %d level(s) above the %s just added" % (level + (el.tag != P + "grpSp"), kind)
            if got != want or api != api_want:
                acc.violation(key, "%s: a:off/a:ext %s, left/top/width/height %s; bounding box of its %d members is %s (XML) / %s (API)" % (where, got, api, len(members(g)), want, api_want), self.witness())
            if ch != want and ch != got:  # (equal to a wrong a:off/a:ext: already reported above)
                acc.violation("group-chExt", "%s: a:chOff/a:chExt %s, bounding box of members %s" % (where, ch, want), self.witness())
            if api != got:
                acc.violation("group-api-xml-disagree", "%s: reads %s, XML %s" % (where, api, got), self.witness())
            CALLS["group_ancestor_checks"] += 1
            CALLS["group_ancestor_checks:level%d" % level] += 1
        return len(chain)


def rcoord(r):
    return r.choice((0, 1, -1, r.randint(-1000, 1000), r.randint(-(10**7), 10**7), r.randint(-(2**31), 2**31)))


def rsize(r):
    return r.choice((0, 1, 914400, r.randint(0, 1000), r.randint(0, 10**7), r.randint(0, 2**31)))


def gen_op(b, r):
    if not b.groups:
        return {"op": "group", "into": -1, "take": []}
    roll = r.random()
    gi = r.choice((len(b.groups) - 1, r.randrange(len(b.groups)), r.randrange(len(b.groups))))
    if roll < 0.12:
        gi = -1  # a loose shape on the slide: material for add_group_shape(shapes)
    elif roll < 0.34:
        into = r.choice((-1, gi, gi))
        d = b.depth(into)
        if d < 4:
            els = listed(b.slide.shapes._spTree if into < 0 else b.groups[into]._element)
            ok = [i for i, m in enumerate(els) if d + 1 + height(m) <= 4]
            take = sorted(r.sample(ok, min(len(ok), r.choice((0, 1, 2, 3)))))
            return {"op": "group", "into": into, "take": take}
    elif roll < 0.42:
        # the members of the new group are taken OUT OF another group: that group (and its ancestors) lost members and must
        # follow as well ("always equal the bounding box of its member shapes")
        srcs = [k for k, g in enumerate(b.groups) if sum(1 for m in listed(g._element) if m.tag != P + "grpSp") >= 2]
        if srcs:
            y = r.choice(srcs)
            into = r.choice([-1] + [k for k in range(len(b.groups)) if k != y and b.depth(k) < 4])
            leaves = [i for i, m in enumerate(listed(b.groups[y]._element)) if m.tag != P + "grpSp"]
            take = sorted(r.sample(leaves, r.randint(1, len(leaves) - 1)))
            return {"op": "group", "into": into, "take_from": y, "take": take}
    kind = r.choice(("autoshape", "textbox", "connector") if gi < 0 else ("autoshape", "autoshape", "textbox", "textbox", "picture", "picture", "connector", "connector", "freeform", "freeform", "chart", "ole"))
    op = {"op": kind, "into": gi, "xywh": [rcoord(r), rcoord(r), rsize(r), rsize(r)]}
    if kind == "connector":
        op["xywh"] = [rcoord(r), rcoord(r), rcoord(r), rcoord(r)]
    elif kind == "picture":
        op.update(color=[r.randrange(256), r.randrange(256), r.randrange(256)], sized=r.random() < 0.5)
    elif kind == "ole":
        op["sized"] = r.random() < 0.5
    elif kind == "freeform":
        op["pen"] = gen_pen(r, small=r.random() < 0.5)
    if r.random() < 0.12:
        op["turbo"] = True
    return op


class _Stop(Exception):
    """the build cannot go on after a raising addition"""


def group_step(b, op, step, tag):
    if step % 9 == 7 and b.groups and not (op["op"] == "group" and op["take"]):  # (that op's indices were drawn on the tree as it is)
        # pre-state: a member of some group wrapped the way PowerPoint wraps objects an older reader does not know
        # (<mc:AlternateContent><mc:Choice Requires="p14">the shape</mc:Choice><mc:Fallback>a stand-in</mc:Fallback>): it is
        # still a member of the group, with the same box
        g = b.groups[step % len(b.groups)]._element
        ms = [m for m in g if m.tag == P + "sp" and xfrm_of(m) is not None]
        if ms:
            import copy

            from lxml import etree

            m = ms[step % len(ms)]
            ac = etree.SubElement(g, MC + "AlternateContent", nsmap={"mc": MC[1:-1], "p14": "http://schemas.microsoft.com/office/powerpoint/2010/main"})
            m.addprevious(ac)
            choice = etree.SubElement(ac, MC + "Choice")
            choice.set("Requires", "p14")
            fb = etree.SubElement(ac, MC + "Fallback")
            fb.append(copy.deepcopy(m))
            choice.append(m)
            CALLS["members_wrapped_in_mc_AlternateContent"] += 1
    if step % 9 == 4 and b.groups:
        # pre-state for the next addition: a member of some group loses its a:xfrm (schema-valid: the element is optional; a
        # shape that inherits its place, a nested group written as <p:grpSpPr/>) - additions must still work and the box is
        # that of the members that have one
        g = b.groups[step % len(b.groups)]._element
        ms = [m for m in members(g) if xfrm_of(m) is not None and m.tag != P + "graphicFrame"]
        if len(ms) >= 2:
            xf = xfrm_of(ms[step % len(ms)])
            xf.getparent().remove(xf)
            b.dirty.add(ms[step % len(ms)])  # (a nested group written as <p:grpSpPr/> has no box until a shape is added below it)
            CALLS["members_stripped_of_their_xfrm"] += 1
            # this group and the groups around it no longer match their members THROUGH THIS HARNESS'S DOING; the next addition
            # of a shape below them recalculates them - adding an empty sub-group adds nothing to bound and owes no recalculation
            b.dirty.update([g] + list(g.iterancestors(P + "grpSp")))
    try:
        el, kind = b.apply(op)
    except Exception as e:  # noqa  ("after any additions": an addition to a valid group that raises is no addition)
        b.acc.violation("group-addition-raises:%s" % type(e).__name__, "adding %s raised %s: %s" % (op["op"], type(e).__name__, str(e)[:120]), b.witness())
        raise _Stop()
    if kind == "empty-group":
        CALLS["empty_subgroup_additions_checked"] += 1
    n = b.check(el, kind) if (op["into"] >= 0 or kind == "group-with-shapes") else 0
    if op.get("take_from") is not None:
        b.check(b.groups[op["take_from"]]._element, "group-members-were-taken-from")
    neg = any(v < 0 for v in op.get("xywh", ()))
    sample = {"build": tag, "step": step, "op": op, "ancestor groups checked": n} if n >= 3 and tag[1:] == [0] and step > 30 else None
    b.acc.case(key=env.khash([tag, step, op]), nontrivial=n >= 2 or bool(n and neg), cls="group-add:%s:depth%d" % (kind, n), sample=sample)


def group_random(unit, acc):
    for n in range(unit["n"]):
        r = env.rng("C17", "group", unit["shard"], n)
        b = GroupBuild(acc)
        try:
            for step in range(unit["steps"]):
                group_step(b, gen_op(b, r), step, [unit["shard"], n])
        except _Stop:
            acc.count("group_builds_stopped_by_a_raising_addition")
        acc.count("group_builds")
        acc.count("group_builds_reaching_depth_4", any(b.depth(i) == 4 for i in range(len(b.groups))))


# ================================================================ contract
def plan(tier, seed):
    q = tier == "quick"
    units = [{"kind": "conn-exh", "scale": s, "depth": 2 if q else 3, "shard": i, "of": 16 if q else 32} for s in SCALES for i in range(16 if q else 32)]
    units += [{"kind": "conn-rand", "shard": i, "n": 60 if q else 1500} for i in range(16)]
    units += [{"kind": "group", "shard": i, "n": 12 if q else 150, "steps": 45} for i in range(16)]
    units += [{"kind": "freeform", "shard": i, "n": 400 if q else 5000} for i in range(15)] + [{"kind": "conn-types"}]
    return units


def run_unit(unit, tier, seed, acc):
    CALLS.clear()
    k = unit["kind"]
    if k == "conn-exh":
        conn_exhaustive(unit, acc)
    elif k == "conn-types":
        conn_types(acc)
    elif k == "conn-rand":
        conn_random(unit, acc)
    elif k == "group":
        group_random(unit, acc)
    elif k == "freeform":
        freeform_random(unit, acc)
    flush(acc)


def flush(acc):
    classes = {}
    for name, n in CALLS.items():
        if name.startswith("class:"):
            classes[name[6:]] = n
        elif name.startswith("set:"):
            acc.hit("Connector.%s setter" % name[4:], n)
        elif name == "get":
            for c in COORDS:
                acc.hit("Connector.%s getter" % c, n)
            acc.count("connector_states_compared", n)
        elif name in ("add_connector", "add_group_shape", "convert_to_shape"):
            acc.hit(name, n)
        elif name == "recalculate_extents":
            acc.hit("CT_GroupShape.recalculate_extents (on p:grpSp)", n)
        elif name.startswith("group_add:"):
            acc.hit("GroupShapes.add_* " + name[10:], n)
        else:
            acc.count(name, n)
    cur = acc.extra.setdefault("connector_moves_by_coord_flip_class", {})
    for name, n in classes.items():
        cur[name] = cur.get(name, 0) + n
    CALLS.clear()


def replay(w, acc):
    part = w.get("part")
    if part == "connector":
        prs, slide = new_slide()
        pts = tuple(w["create"])
        c = Conn(slide, w["type"], pts)
        print("created", w["type"], pts, "-> a:xfrm", read_xfrm(c.xfrm))
        check_conn(c, pts, acc, "connector-create:" + w["type"], lambda: w)
        model = pts
        for name, v in w["moves"]:
            model, cls = do_move(c, model, COORDS.index(name), v, acc, lambda: w)
            sh = c.shape
            print("%s = %d [%s] -> model %s readings %s a:xfrm %s" % (name, v, cls, model, (int(sh.begin_x), int(sh.begin_y), int(sh.end_x), int(sh.end_y)), read_xfrm(c.xfrm)))
    elif part == "group":
        b = GroupBuild(acc)
        for step, op in enumerate(w["ops"]):
            try:
                group_step(b, op, step, "replay")
            except _Stop:
                break
            print("step %d %s -> groups %s" % (step, {k: v for k, v in op.items() if k != "pen"}, [read_xfrm(xfrm_of(g._element))[:4] for g in b.groups]))
    elif part == "freeform":
        prs, slide = new_slide()
        sp = run_pen(slide.shapes, w["pen"], on_stage=lambda early, prefix: check_freeform(early, prefix, acc, lambda: w))
        print("pen", w["pen"], "-> left/top/width/height", (int(sp.left), int(sp.top), int(sp.width), int(sp.height)))
        check_freeform(sp, w["pen"], acc, lambda: w)
    flush(acc)


def finalize(acc, tier, seed):
    need = {
        "A (connector)": acc.counters.get("connector_states_compared"),
        "B (group)": acc.counters.get("group_ancestor_checks"),
        "B (group, nested: an ancestor above the immediate parent)": acc.counters.get("group_ancestor_checks:level1"),
        "C (freeform)": acc.counters.get("freeform_checked"),
        "C (freeform path points)": acc.counters.get("freeform_points"),
    }
    for part, n in need.items():
        if not n:
            acc.inconclusive.append("part %s produced no comparison" % part)
    classes = acc.extra.get("connector_moves_by_coord_flip_class", {})
    for c in COORDS:
        for f in (0, 1):
            if not classes.get("%s:flip=%d:cross" % (c, f)):
                acc.inconclusive.append("no crossing-over move of %s from flip=%d was executed" % (c, f))
    for h in ["Connector.%s %s" % (c, k) for c in COORDS for k in ("setter", "getter")] + ["add_connector", "add_group_shape", "convert_to_shape", "CT_GroupShape.recalculate_extents (on p:grpSp)"]:
        if not acc.reach.get(h):
            acc.inconclusive.append("never reached: " + h)
