"""C07 — a chart's XML is valid and reports exactly the data it was given.

Workload: every chart type ChartXmlWriter accepts (29, discovered at run time) x chart data from a
seeded, shape-named generator (series 0..50, points 0/1/few/hundreds, None holes, wild magnitudes,
string / numeric / date / 1-4 level ragged categories, number formats with XML metacharacters, XY and
bubble series of unequal length), built through shapes.add_chart and ChartPlaceholder.insert_chart,
followed by 0-3 replace_data calls with data of another shape; the same replace_data workload on every
chart of the corpus decks (also as harness-made date1904=1 variants) after formatting was applied to the
series through the public API.
Oracle: (1) vlib.xsdkit on ChartPart.blob, new messages vs. the baseline; (2) the supplied data against
the read API *and* against the harness's own reading of the XML (plain parser, own XPath); (3) c:idx /
c:order unique, c:ptCount == points supplied, every c:pt idx < ptCount; (4) after replace_data the C14N
of the part outside the data children of surviving series and c:externalData equals the C14N before,
minus surplus series and emptied plots; added series must be clones of the last one.
The generator, the chart reader and the corpus helpers are shared with C08.
"""
from __future__ import annotations

import copy
import datetime
import hashlib
import io
import json
import os
import random
import re
import zipfile

from vlib.xlsxx import DATA, c, local, ordered_sers, plot_elements, read_chart, serial

ID = "C07"
LEVEL = "exploration"
EXHAUSTIVE = False
RULE = (
    "case = (chart type, entry point add_chart|insert_chart, data shape, 0-3 replacement shapes). quick: every type x every "
    "named shape of its kind (category: s0 s1p1 few holes numcats datecats multi2 multi3 multi4 s50 p300 p0 emptylabel nfmeta "
    "mismatch; xy/bubble: s0 s1p1 few holes unequal s50 p300 p0 nfmeta) x <= 2 replaces + one round over every corpus chart; "
    "thorough: 500 cases per type (named and randomly parameterised shapes) + 200 rounds per corpus deck. Zero series (s0): "
    "python-pptx documents nothing; area/bar/line/radar/doughnut/xy/bubble writers emit a plot without c:ser (schema-valid, the "
    "categories are then carried nowhere and the read API must report no series and no categories); pie raises IndexError and is "
    "documented to have exactly one series (the writer uses the first only), so pie types get exactly one on creation and "
    "replacement. No category at all is rejected by python-pptx with ValueError (rejected call, counted). non-trivial: >= 2 series or depth > 1 or a None hole or >= 1 replace. distinct: (type, entry, shape signature = "
    "#series, length pattern, category kind, depth, has-None, string classes, replacement signatures)."
)
ASSUMPTIONS = [
    "the shipped dml-chart.xsd (libxml2) decides validity; markup-compatibility content is preprocessed away first",
    "series order = plots in document order, then numeric c:order within a plot (the meaning the standard gives c:order)",
    "translations: strings verbatim; a number as float(str(v)); a date as days since 1899-12-31, +1 after day 59 (1900 system) or days since "
    "1904-01-01 (chart says date1904); datetime labels count by their date part (Category._excel_date_number documents whole days); dates "
    "before 1900 have no Excel serial, the linear extension is expected",
    "an empty-string label may be cached as an empty c:v or as no c:pt; both read as ''",
]
WATCHDOG_S = {"quick": 900, "thorough": 3000}

PH_DECK = "features/steps/test_files/ph-unpopulated-placeholders.pptx"
CAT_SHAPES = ["s0", "s1p1", "few", "holes", "numcats", "datecats", "multi2", "multi3", "multi4", "s50", "p300", "p0", "emptylabel", "nfmeta", "mismatch"]
XY_SHAPES = ["s0", "s1p1", "few", "holes", "unequal", "s50", "p300", "p0", "nfmeta"]
NF_PLAIN = ["General", "0.0", "#,##0", '0.00"x"', "0%", "0.00E+00"]
NF_META = ["[<100]0;0.0", '0 "&"', "[>=5]0.0;[<5]0"]
STRINGS = {
    "plain": ["Q1", "North", "Series 1", "a b", "x", "\u00dcn\u00efcode", "\u65e5\u672c\u8a9e", "\U0001F600 ok", "East-2"],
    "markup": ["a&b", "<b>", "x > y", 'say "hi"', "it's", "</c:v>", "&amp;", "]]>", "<!-- c -->", "'\"&<>"],
    "space": [" ", "  ", " lead", "trail ", " a  b ", "a\nb", "\t"],
    "lookalike": ["12", "1e5", "-3.5", "TRUE", "_x000A_", "#N/A", "@x", "+1", "-a", "'q", "100%", "{}", "%s"],
    "long": ["lorem & ipsum <dolor> " * 12],
    "empty": [""],
    "formula": ["=1+1", "=S", "{=SUM(1)}", '=A1&"<"'],
    "url-kept": ["http://x.y/z", "https://h/p?q=<t>&r='\"", "ftp://h/x"],
    "url-rewritten": ["mailto:a@b.c", "internal:Sheet1!A1", "external:c:\\x.xlsx", "file:///C:/a b.txt"],
    "url-raises": ["file://x"],
}
MIX = {"plain": 40, "markup": 25, "space": 12, "lookalike": 10, "long": 2, "formula": 4, "url-kept": 4, "url-rewritten": 3}


def rng(*parts):
    """deterministic and independent of VERIF_SEED (the seed is one of the parts) so that a witness replays anywhere"""
    return random.Random(int(hashlib.sha1(json.dumps(parts, default=str).encode()).hexdigest()[:16], 16))


def writer_types():
    """[(chart type name, writer class name)] for every XL_CHART_TYPE member ChartXmlWriter accepts"""
    from pptx.chart.xmlwriter import ChartXmlWriter
    from pptx.enum.chart import XL_CHART_TYPE

    out = []
    for m in XL_CHART_TYPE:
        try:
            out.append((m.name, type(ChartXmlWriter(m, [])).__name__))
        except NotImplementedError:
            pass
    return sorted(out)


def kind_of(writer):
    return {"_XyChartXmlWriter": "xy", "_BubbleChartXmlWriter": "bubble"}.get(writer, "category")


# ------------------------------------------------------------------ generator (JSON-able descriptions)
def pick(rnd, mix=MIX):
    cls = rnd.choices(list(mix), weights=list(mix.values()))[0]
    return rnd.choice(STRINGS[cls])


def number(rnd, holes=0.0, wild=False):
    k = rnd.random()
    if k < holes:
        return None
    if wild or k > 0.85:
        return rnd.choice([0, -0.0, 1e-9, -1e-300, 1e300, -1e12, 0.1 + 0.2, 1 / 3.0, 2 ** 53 + 1, -7, 1e-5, 123456.789])
    return rnd.randint(-1000, 1000) if k < 0.5 else round(rnd.uniform(-1e4, 1e4), rnd.choice([0, 1, 3, 6]))


def tree(rnd, depth, n, mix):
    """ragged category tree of uniform depth: [[label, [children]], ...].  A label '@D<iso date>' stands for a datetime.date
    (quarters / months as the upper level of a date hierarchy): "dates as the decimal text of the serial date"."""
    return [[("@D" + rnd.choice(DATES[2:])) if rnd.random() < 0.12 else pick(rnd, mix), tree(rnd, depth - 1, rnd.choice([1, 1, 2, 3]), mix) if depth > 1 else []] for _ in range(n)]


def tree_label(lab, date1904=False):
    """the text a tree label must be cached as (a date: its serial as General shows it)"""
    return "%d" % serial(to_date(lab[2:]), date1904) if isinstance(lab, str) and lab.startswith("@D") else lab


DATES = ["1899-12-30", "1899-12-31", "1900-01-01", "1900-02-27", "1900-02-28", "1900-03-01", "1900-03-02", "1904-01-01", "1850-06-15", "1999-12-31", "2016-12-27", "2038-01-19"]


def gen_data(rnd, kind, shape, min_series=0, max_series=999, mix=MIX, dates=DATES, force=None):
    """chart-data description of the named shape; `random` draws every parameter; `force` overrides single parameters"""
    p = dict(nser=3, npts=5, cats="str", depth=1, holes=0.0, wild=False, nf=rnd.choice(NF_PLAIN), lens=None, mix=mix)
    p.update(
        {
            "s0": dict(nser=0, npts=3), "s1p1": dict(nser=1, npts=1), "few": {}, "holes": dict(nser=2, npts=6, holes=0.4, wild=True),
            "numcats": dict(nser=2, npts=4, cats="num"), "datecats": dict(nser=2, npts=8, cats="date"),
            "multi2": dict(nser=2, cats="multi", depth=2), "multi3": dict(nser=3, cats="multi", depth=3), "multi4": dict(nser=1, cats="multi", depth=4),
            "s50": dict(nser=50, npts=2), "p300": dict(nser=2, npts=300, mix={"plain": 1}), "p0": dict(nser=2, npts=3, lens=[0, 0]),
            "emptylabel": dict(nser=1, npts=3, mix={"empty": 1, "plain": 1}), "nfmeta": dict(nser=1, npts=2, nf=rnd.choice(NF_META)),
            "mismatch": dict(nser=2, npts=4, lens=[2, 6]), "unequal": dict(nser=4, lens=[1, 4, 0, 2]),
        }.get(shape, {})
    )
    if shape == "random":
        p.update(nser=rnd.choice([0, 1, 1, 2, 3, 5, 8, 13, 26, 27, 50]), npts=rnd.choice([1, 1, 2, 3, 7, 30, 300]), holes=rnd.choice([0, 0, 0.1, 0.5]),
                 wild=rnd.random() < 0.2, cats=rnd.choice(["str", "str", "num", "date", "multi"]), depth=rnd.choice([2, 3, 4]))
        if p["nser"] * p["npts"] > 3000:
            p["npts"] = 3
        if rnd.random() < 0.04:
            p["nf"] = rnd.choice(NF_META)
        if rnd.random() < 0.04:
            p["mix"] = dict(mix, empty=15)
        if rnd.random() < 0.25:
            p["lens"] = [rnd.choice([0, 1, 2, 5, p["npts"]]) for _ in range(p["nser"])]
    p.update(force or {})
    nser = min(max(p["nser"], min_series), max_series)
    name = lambda: pick(rnd, {k: v for k, v in p["mix"].items() if k != "empty"} or MIX)  # noqa: E731
    desc = {"kind": kind, "shape": shape, "nf": p["nf"], "series": []}
    if kind != "category":
        lens = p["lens"] or [p["npts"]] * nser
        for i in range(nser):
            n = lens[i % len(lens)]
            dims = 2 if kind == "xy" else 3
            pts = [[number(rnd, 0.0, p["wild"])] + [number(rnd, p["holes"] if d == 0 else 0.0, p["wild"]) for d in range(dims - 1)] for _ in range(n)]
            desc["series"].append({"name": name(), "points": pts})
        return desc
    if p["cats"] == "multi":
        desc["cats"] = {"kind": "multi", "tree": tree(rnd, p["depth"], rnd.choice([1, 2, 3]), p["mix"])}
        m = len(leaves(desc["cats"]["tree"]))
    else:
        m = p["npts"]
        if p["cats"] == "str":
            labels = ["C%d" % i for i in range(m)] if m > 50 else [pick(rnd, p["mix"]) for _ in range(m)]
        elif p["cats"] == "num":
            labels = [rnd.choice([i, i * 1.5, -i, 1e-9 * i, 10 ** 12 + i]) for i in range(m)]
        else:
            start = rnd.randrange(len(dates))
            labels = [dates[(start + i) % len(dates)] for i in range(m)]
        if shape == "emptylabel":
            labels[m // 2] = ""
        desc["cats"] = {"kind": p["cats"], "labels": labels}
        if p["cats"] == "date" and shape in ("nfmeta", "random") and rnd.random() < 0.3 and p.get("cat_nf", True):
            desc["cats"]["nf"] = rnd.choice(['yyyy"y"', "d/m/yy", 'mmm "<&>"'])
    for i in range(nser):
        n = p["lens"][i % len(p["lens"])] if p["lens"] else m
        s = {"name": name(), "values": [number(rnd, p["holes"], p["wild"]) for _ in range(n)]}
        if shape == "random" and rnd.random() < 0.2:
            s["nf"] = rnd.choice(NF_PLAIN)
        desc["series"].append(s)
    return desc


def leaves(nodes):
    return [x for lab, kids in nodes for x in (leaves(kids) if kids else [lab])]


def to_date(s):
    return datetime.datetime.fromisoformat(s) if "T" in s else datetime.date.fromisoformat(s)


def build_data(desc):
    from pptx.chart.data import BubbleChartData, CategoryChartData, XyChartData

    if desc["kind"] != "category":
        cd = (XyChartData if desc["kind"] == "xy" else BubbleChartData)(number_format=desc["nf"])
        for s in desc["series"]:
            ser = cd.add_series(s["name"])
            for pt in s["points"]:
                ser.add_data_point(*pt)
        return cd
    cd = CategoryChartData(number_format=desc["nf"])
    cats = desc["cats"]
    if cats["kind"] == "multi":
        def add(parent, nodes, top):
            for lab, kids in nodes:
                lab_ = to_date(lab[2:]) if isinstance(lab, str) and lab.startswith("@D") else lab
                add(parent.add_category(lab_) if top else parent.add_sub_category(lab_), kids, False)

        add(cd, cats["tree"], True)
    else:
        cd.categories = [to_date(x) for x in cats["labels"]] if cats["kind"] == "date" else cats["labels"]
    if cats.get("nf"):
        cd.categories.number_format = cats["nf"]
    for s in desc["series"]:
        cd.add_series(s["name"], s["values"], s.get("nf"))
    return cd


def fl(v):
    return None if v is None else float(str(v))


def expected(desc, date1904=False):
    """what the chart must report: names, per-series number columns, category leaves / levels (leaf level first) / flattened tuples"""
    exp = {"names": [s["name"] for s in desc["series"]], "cats": None}
    if desc["kind"] != "category":
        cols = list(zip(("xVal", "yVal", "bubbleSize"), range(3)))[: 2 if desc["kind"] == "xy" else 3]
        exp["cols"] = {role: [[fl(pt[i]) for pt in s["points"]] for s in desc["series"]] for role, i in cols}
        return exp
    exp["cols"] = {"val": [[fl(v) for v in s["values"]] for s in desc["series"]]}
    cats = desc["cats"]
    if cats["kind"] == "multi":
        levels, flat = [], []

        def walk(nodes, path, lvl):
            for lab, kids in nodes:
                lab = tree_label(lab, date1904)
                start = len(flat)
                if kids:
                    walk(kids, path + (lab,), lvl + 1)
                else:
                    flat.append(path + (lab,))
                while len(levels) <= lvl:
                    levels.append([])
                levels[lvl].append((start, lab))

        walk(cats["tree"], (), 0)
        exp["cats"] = {"numeric": False, "depth": len(levels), "leaves": [t[-1] for t in flat], "levels": levels[::-1], "flat": flat}
    else:
        if cats["kind"] == "date":
            lv = [serial(to_date(x), date1904) for x in cats["labels"]]
        else:
            lv = [fl(x) for x in cats["labels"]] if cats["kind"] == "num" else list(cats["labels"])
        exp["cats"] = {"numeric": cats["kind"] != "str", "depth": 1, "leaves": lv, "levels": [], "flat": [(x,) for x in lv]}
    return exp


def signature(desc):
    s = desc["series"]
    lens = [len(x.get("values", x.get("points", ()))) for x in s]
    hole = any(v is None for x in s for v in (x.get("values") or [q for p in x.get("points", ()) for q in p]))
    cats = desc.get("cats") or {}
    labs = (cats.get("labels") or leaves(cats.get("tree", []))) if cats.get("kind") in ("str", "multi") else []
    classes = sorted({k for k, v in STRINGS.items() for t in labs + [x["name"] for x in s] if t in v})
    depth = expected(desc)["cats"]["depth"] if cats else 0
    return {"kind": desc["kind"], "nser": len(s), "lens": sorted(set(lens))[:4], "cats": cats.get("kind"), "depth": depth, "none": hole, "strings": classes, "nf": desc["nf"] in NF_META}


# ------------------------------------------------------------------ oracle
def msg_key(msg):
    where, _, text = msg.partition(" | ")
    tail = where.split("/")[-1]
    if tail in ("c:axId", "c:crossAx") and "xs:unsignedInt" in text and re.search(r"'-[0-9]+' is not a valid value", text):
        return "invalid-xml:%s:negative-unsignedInt" % tail
    if where.endswith("c:radarChart/c:ser/c:smooth") and "not expected" in text:
        return "invalid-xml:radar-ser-smooth"
    if msg.startswith("NOT WELL-FORMED"):
        return "invalid-xml:not-well-formed"
    return "invalid-xml:%s:%s" % (where, re.sub(r"'[^']*'", "'..'", text.split(": ", 1)[-1])[:60])


def same_text(got, want):
    return got == want or (want == "" and got is None)


class Judge:
    """collects violations for one case: key = mechanism, what = concrete values, one shared witness"""

    def __init__(self, acc, witness, label):
        self.acc, self.witness, self.label, self.n = acc, witness, label, 0

    def bad(self, key, what):
        self.n += 1
        self.acc.violation(key, "%s: %s" % (self.label, what), self.witness)


def check_numbers(j, src, want, role, stage):
    """one numeric data source of one series against the supplied column"""
    if src is None:
        return j.bad("xml:%s-missing:%s" % (role, stage), "series has no c:%s" % role)
    j.acc.count("ptCount_checks")
    if src["count"] != len(want):
        j.bad("xml:ptCount:c:%s:%s" % (role, stage), "c:ptCount %r for %d supplied points" % (src["count"], len(want)))
    if src["dup"] or any(i >= (src["count"] or 0) or i < 0 for i in src["pts"]):
        j.bad("xml:pt-idx:c:%s:%s" % (role, stage), "c:pt idx values %s duplicate or beyond ptCount %r" % (sorted(src["pts"])[:6], src["count"]))
    for i, w in enumerate(want):
        g = src["pts"].get(i)
        try:
            g = None if g is None else float(g)
        except ValueError:
            pass
        if g != w:
            return j.bad("xml:value:c:%s:%s" % (role, stage), "point %d is %r in the XML, supplied %r" % (i, g, w))


def check_xml(j, model, exp, stage):
    sers = [s for p in model["plots"] for s in p["sers"]]
    for k in ("idx", "order"):
        vals = [s[k] for s in sers]
        j.acc.count("idx_order_uniqueness_checks")
        if len(set(vals)) != len(vals) or None in vals:
            j.bad("xml:c:%s-not-unique:%s" % (k, stage), "c:%s values %s" % (k, vals[:12]))
    if len(sers) != len(exp["names"]):
        j.bad("xml:series-count:%s" % stage, "%d c:ser for %d supplied series" % (len(sers), len(exp["names"])))
        return
    ec = exp["cats"]
    for n, s in enumerate(sers):
        tx = s["tx"]
        if tx is None or not same_text(tx["pts"].get(0), exp["names"][n]) or tx["count"] != 1:
            j.bad("xml:series-name:%s" % stage, "series %d name cache %r, supplied %r" % (n, tx and tx["pts"], exp["names"][n]))
        for role, cols in exp["cols"].items():
            check_numbers(j, s[role], cols[n], role, stage)
        if ec is None:
            continue
        cat = s["cat"]
        want_ref = "numRef" if ec["numeric"] else ("strRef" if ec["depth"] == 1 else "multiLvlStrRef")
        if cat is None or cat["ref"] != want_ref:
            j.bad("xml:cat-kind:%s" % stage, "series %d c:cat holds %r, expected %s" % (n, cat and cat["ref"], want_ref))
            continue
        j.acc.count("ptCount_checks")
        if cat["count"] != len(ec["leaves"]):
            j.bad("xml:ptCount:c:cat:%s" % stage, "c:ptCount %r for %d leaf categories" % (cat["count"], len(ec["leaves"])))
        if ec["numeric"]:
            check_numbers(j, cat, ec["leaves"], "cat", stage)
        else:
            want = ec["levels"] if ec["depth"] > 1 else [list(enumerate(ec["leaves"]))]
            got = cat["levels"] if ec["depth"] > 1 else [cat["pts"]]
            if len(got) != len(want):
                j.bad("xml:cat-level-count:%s" % stage, "%d c:lvl for depth %d" % (len(got), len(want)))
                continue
            for li, (g, w) in enumerate(zip(got, want)):
                wd = dict(w)
                if any(not same_text(g.get(i), t) for i, t in wd.items()) or set(g) - set(wd):
                    j.bad("xml:cat-label:%s:%s" % ("leaf" if li == 0 else "upper-level", stage), "series %d level %d caches %s, supplied %s" % (n, li, sorted(g.items())[:5], w[:5]))
                    break


def label_ok(j, got, want, numeric, what, stage):
    """compare one label read through the API; -> True when equal"""
    if numeric:
        try:
            if float(got) == want:
                return True
        except ValueError:
            pass
    elif got == want:
        return True
    if want == "" and got == "None":
        j.bad("category-label-empty-reads-None", "%s: empty-string label is reported as the string 'None'" % what)
        return True
    j.bad("api:%s:%s" % (what, stage), "read %r, supplied %r" % (got, want))
    return False


def check_api(j, chart, exp, stage, plots=None):
    """the read API against the supplied data; plots in order, each plot reports the one category collection"""
    n = 0
    ec = exp["cats"]
    for plot in plots if plots is not None else chart.plots:
        try:
            series = list(plot.series)
        except NotImplementedError:
            j.acc.count("plots_whose_series_class_is_documented_not_implemented")
            n += len(ordered_sers(plot._element))
            continue
        for s in series:
            if n >= len(exp["names"]):
                break
            if s.name != exp["names"][n]:
                j.bad("api:series.name:%s" % stage, "series %d name %r, supplied %r" % (n, s.name, exp["names"][n]))
            want = tuple(exp["cols"]["val" if ec is not None else "yVal"][n])
            got = tuple(s.values)
            if got != want or any(type(g) is not float for g in got if g is not None):
                j.bad("api:series.values:%s" % stage, "series %d values %r, supplied %r" % (n, got[:8], want[:8]))
            if ec is None and (tuple(s.iter_values()) != want or len(s.points) != len(want)):
                j.bad("api:xy-iter_values/points:%s" % stage, "series %d iter_values/len(points) disagree with %d supplied points" % (n, len(want)))
            j.acc.count("series_read_through_api")
            n += 1
        if ec is None or not series:
            if ec is not None and (len(plot.categories) or plot.categories.depth or plot.categories.flattened_labels):
                j.bad("api:categories-of-empty-plot:%s" % stage, "a plot without series reports categories")
            continue
        cats = plot.categories
        j.acc.count("category_collections_read_through_api")
        if len(cats) != len(ec["leaves"]) or cats.depth != ec["depth"]:
            j.bad("api:categories-len/depth:%s" % stage, "len %d depth %d, supplied %d leaves in %d levels" % (len(cats), cats.depth, len(ec["leaves"]), ec["depth"]))
            continue
        ok = all(label_ok(j, g, w, ec["numeric"], "categories", stage) for g, w in zip(list(cats), ec["leaves"]))
        if ok and [x.idx for x in cats] != list(range(len(ec["leaves"]))):
            j.bad("api:Category.idx:%s" % stage, "idx values %r" % ([x.idx for x in cats][:8],))
        flat = cats.flattened_labels
        if len(flat) != len(ec["flat"]) or any(len(g) != len(w) for g, w in zip(flat, ec["flat"])):
            j.bad("api:flattened_labels:%s" % stage, "shape %r..., supplied %r..." % (flat[:3], ec["flat"][:3]))
        else:
            all(label_ok(j, g, w, ec["numeric"], "flattened_labels", stage) for gt, wt in zip(flat, ec["flat"]) for g, w in zip(gt, wt))
        lv = [[(x.idx, x) for x in lvl] for lvl in cats.levels]
        if [[i for i, _ in l] for l in lv] != [[i for i, _ in l] for l in ec["levels"]]:
            j.bad("api:levels:%s" % stage, "level idx structure %r, supplied %r" % ([[i for i, _ in l][:6] for l in lv], [[i for i, _ in l][:6] for l in ec["levels"]]))
        else:
            all(label_ok(j, g, w, False, "levels", stage) for gl, wl in zip(lv, ec["levels"]) for (_, g), (_, w) in zip(gl, wl))
    if n != len(exp["names"]):
        j.bad("api:series-count:%s" % stage, "%d series through plots, supplied %d" % (n, len(exp["names"])))


def check_part(j, chart, desc, baseline, stage):
    """all create/replace-time checks on the current state of the chart; -> (blob, parsed root)"""
    from lxml import etree
    from vlib import xsdkit

    blob = chart.part.blob
    msgs, _ = xsdkit.validate_part(blob)
    j.acc.count("parts_validated")
    root = etree.fromstring(blob, xsdkit.PLAIN)
    model = read_chart(root)
    if stage != "create" and not desc["series"] and not model["plots"]:
        j.bad("zero-series:replace_data-removes-every-plot", "replace_data with no series leaves c:plotArea without any plot (schema-invalid, chart_type raises IndexError afterwards)")
        return blob, root
    for m in sorted(xsdkit.new_errors(baseline, msgs)):
        j.bad(msg_key(m), "%s: %s" % (stage, m))
    exp = expected(desc, model["date1904"])
    check_xml(j, model, exp, stage)
    check_api(j, chart, exp, stage)
    return blob, root


def skeleton(root):
    """drop what replace_data may rewrite: data children of every series and c:externalData"""
    for s in root.iter(c("ser")):
        for ch in list(s):
            if local(ch) in DATA:
                s.remove(ch)
    for e in root.findall(c("externalData")):
        root.remove(e)
    return root


def first_diff(a, b, parent=""):
    """'parent/element' of the first place two trees differ (element replaced, attribute/text changed, child lost '-' or gained '+')"""
    from vlib.xsdkit import pfx_tag

    here = "%s/%s" % (parent, pfx_tag(a.tag))
    if a.tag != b.tag or dict(a.attrib) != dict(b.attrib) or (a.text or "").strip() != (b.text or "").strip():
        return here
    ka, kb = [x for x in a if isinstance(x.tag, str)], [x for x in b if isinstance(x.tag, str)]
    for x, y in zip(ka, kb):
        d = first_diff(x, y, pfx_tag(a.tag))
        if d:
            return d
    if len(ka) != len(kb):
        extra = (ka if len(ka) > len(kb) else kb)[min(len(ka), len(kb))]
        return "%s/%s%s" % (pfx_tag(a.tag), "-" if len(ka) > len(kb) else "+", pfx_tag(extra.tag))
    return None


def check_untouched(j, before_blob, after_root, new_n):
    """statement, 2nd sentence: outside names/categories/values nothing changes but surplus series and emptied plots"""
    from lxml import etree
    from vlib import opcx, xsdkit

    a = skeleton(etree.fromstring(before_blob, xsdkit.PLAIN))
    b = skeleton(copy.deepcopy(after_root))
    old = [s for p in plot_elements(a) for s in ordered_sers(p)]
    new = [s for p in plot_elements(b) for s in ordered_sers(p)]
    if new_n < len(old):
        for s in old[new_n:]:
            s.getparent().remove(s)
        for p in plot_elements(a):
            if p.find(c("ser")) is None:
                p.getparent().remove(p)
    if not old:  # nothing survives, nothing to clone from: whatever series were added are outside this clause
        for s in new:
            s.getparent().remove(s)
    elif len(new) > len(old):
        def bare(s):
            s = copy.deepcopy(s)
            for k in ("idx", "order"):
                s.find(c(k)).set("val", "#")
            return opcx.canonical(s)

        last_b, tmpl = plot_elements(b)[-1], ordered_sers(plot_elements(a)[-1])
        for s in new[len(old):]:  # documented: added to the last plot, formatting cloned from its last series
            j.acc.count("cloned_series_compared_with_template")
            if s.getparent() is not last_b or not tmpl or bare(s) != bare(tmpl[-1]):
                j.bad("replace:added-series-not-a-clone-of-the-last", "an added c:ser differs from the last series of the last plot beyond c:idx/c:order/data")
            s.getparent().remove(s)
    j.acc.count("untouched_comparisons")
    if opcx.canonical(a) != opcx.canonical(b):
        j.bad("replace:changed-outside-data:%s" % first_diff(a, b), "chart part differs outside c:tx/c:cat/c:val/c:xVal/c:yVal/c:bubbleSize/c:externalData after replace_data")


def is_nf_meta(desc):
    return any(ch in (desc["nf"] + (desc.get("cats") or {}).get("nf", "")) for ch in '<&"')


def guarded(j, fn, desc, entry, nser_before=None):
    """run add_chart / insert_chart / replace_data; classify what it raises. -> (result, ok)"""
    try:
        return fn(), True
    except Exception as e:  # noqa
        name = type(e).__name__
        if isinstance(e, ValueError) and str(e) in ("chart data contains no categories", "category depth not uniform"):
            j.acc.count("rejected_calls_documented_ValueError")
        elif isinstance(e, ValueError) and entry == "replace_data" and (nser_before == 0 or not desc["series"]):
            j.acc.count("rejected_calls_ValueError_for_zero_series")  # not what the pinned tree does; a tree that refuses zero series is not in violation
        elif name == "XMLSyntaxError" and is_nf_meta(desc):
            j.bad("number-format-unescaped:%s" % entry, "number format %r / %r is substituted unescaped into the XML template: %s" % (desc["nf"], (desc.get("cats") or {}).get("nf"), e))
        elif entry == "replace_data" and nser_before == 0:
            j.bad("zero-series:replace_data-on-chart-without-series-raises", "%s: %s (no c:ser to clone, or no plot left)" % (name, e))
        else:
            j.bad("raises:%s:%s" % (entry, name), "%s with %s: %r" % (entry, json.dumps(signature(desc)), e))
        return None, False


def apply_formatting(chart, rnd, acc):
    """public-API formatting on series so that interference by replace_data becomes visible"""
    from pptx.dml.color import RGBColor
    from pptx.util import Pt

    for plot in chart.plots:
        try:
            series = list(plot.series)
        except NotImplementedError:
            continue
        for s in series:
            k = rnd.randrange(5)
            if k == 0:
                continue
            s.format.fill.solid()
            s.format.fill.fore_color.rgb = RGBColor(rnd.randrange(256), rnd.randrange(256), rnd.randrange(256))
            if k >= 2:
                s.format.line.width = Pt(rnd.choice([1, 2.5, 4]))
            if k >= 3 and hasattr(s, "data_labels"):
                s.data_labels.show_value = True
                s.data_labels.number_format = "0.0"
            if k >= 3 and hasattr(s, "marker") and type(s).__name__ != "BubbleSeries":
                s.marker.size = rnd.choice([5, 9])
            if k == 4 and len(s.points):
                s.points[0].format.fill.solid()
                s.points[0].format.fill.fore_color.rgb = RGBColor(1, 2, 3)
            acc.count("series_formatted_before_replace")


def new_chart(entry, ct_name, cd):
    import pptx
    from pptx.enum.chart import XL_CHART_TYPE
    from pptx.util import Emu
    from vlib import env

    ct = XL_CHART_TYPE[ct_name]
    if entry == "add_chart":
        prs = pptx.Presentation()
        gf = prs.slides.add_slide(prs.slide_layouts[6]).shapes.add_chart(ct, Emu(100), Emu(200), Emu(4000000), Emu(3000000), cd)
    else:
        prs = pptx.Presentation(os.path.join(env.REPO, PH_DECK))
        ph = next(sh for s in prs.slides for sh in s.placeholders if type(sh).__name__ == "ChartPlaceholder")
        gf = ph.insert_chart(ct, cd)
    return prs, gf.chart


def extend_in_place(rnd, cd, desc):
    """Grow an already-used chart-data object through its public API (one more category / data point, one more series) and
    return the description of what it now holds.  Multi-level categories only gain a series (the tree stays uniform)."""
    nd = copy.deepcopy(desc)
    if desc["kind"] != "category":
        dims = 2 if desc["kind"] == "xy" else 3
        sers = list(cd)
        if sers:
            pt = [number(rnd) for _ in range(dims)]
            sers[0].add_data_point(*pt)
            nd["series"][0]["points"].append(pt)
        pts = [[number(rnd) for _ in range(dims)] for _ in range(rnd.choice([1, 2, 3]))]
        ser = cd.add_series("reuse-%d" % len(nd["series"]))
        for pt in pts:
            ser.add_data_point(*pt)
        nd["series"].append({"name": "reuse-%d" % len(nd["series"]), "points": pts})
        return nd
    cats = nd["cats"]
    m = len(cats["labels"]) if cats["kind"] != "multi" else len(leaves(cats["tree"]))
    if cats["kind"] in ("str", "num") and all(len(x["values"]) == m for x in nd["series"]):
        lab = "West%d" % m if cats["kind"] == "str" else 10 ** 6 + m
        cd.add_category(lab)
        cats["labels"].append(lab)
        m += 1
        # (values of the existing series are fixed at add_series time: they now end one short of the categories)
    vals = [number(rnd) for _ in range(m)]
    cd.add_series("reuse-%d" % len(nd["series"]), vals)
    nd["series"].append({"name": "reuse-%d" % len(nd["series"]), "values": vals})
    return nd


def replace_steps(j, chart, descs, state, rnd, fmt):
    """the replace_data part of a case; state = [baseline messages, current series count]"""
    from pptx.chart.xmlwriter import SeriesXmlRewriterFactory
    from vlib import xsdkit

    last_cd, last_desc = state[2:4] if len(state) >= 4 else (None, None)
    for k, nd in enumerate(descs):
        reuse = nd == "REUSE"
        if reuse:
            if last_cd is None:
                continue
            nd = extend_in_place(rnd, last_cd, last_desc)  # the SAME chart-data object, grown since it was last used
            j.acc.hit("chart-data-object-reused-after-growing")
        if fmt and k == 0:
            apply_formatting(chart, rnd, j.acc)
            state[0] = xsdkit.validate_part(chart.part.blob)[0]  # what formatting breaks is C03's business, not replace_data's
        before = chart.part.blob
        try:
            rewriter = type(SeriesXmlRewriterFactory(chart.chart_type, None)).__name__
        except Exception:  # noqa  (a chart without plots has no chart_type; replace_data below reports it)
            rewriter = "none"
        cd = last_cd if reuse else build_data(nd)  # outside the guard: a harness error must not look like a python-pptx failure
        last_cd, last_desc = cd, nd
        kept = []
        try:  # plot proxies a caller obtained (and read through) before replacing the data
            kept = list(chart.plots)
            for p_ in kept:
                _ = (list(p_.categories), p_.categories.flattened_labels, [s_.name for s_ in p_.series])
        except Exception:  # noqa  (what cannot be read before is reported by the checks after the replace)
            kept = []
        _, ok = guarded(j, lambda: chart.replace_data(cd), nd, "replace_data", state[1])
        j.acc.count("replaces")
        if not ok:
            return
        j.acc.hit("replace_data")
        j.acc.hit("rewriter:" + rewriter)
        _, root = check_part(j, chart, nd, state[0], "replace")
        if kept and len(kept) == len(plot_elements(root)) and all(p_._element.getparent() is not None for p_ in kept):
            # the same plots still exist: read through the proxies obtained BEFORE the replace, they must report the new data
            check_api(j, chart, expected(nd, read_chart(root)["date1904"]), "replace:kept-plot", plots=kept)
            j.acc.count("replaced_charts_read_through_plots_obtained_before")
        check_untouched(j, before, root, len(nd["series"]))
        state[1] = len(nd["series"])
        if not plot_elements(root):
            return


def run_case(case, acc):
    """one generated case: {ct, writer, entry, shape, rep: [shapes], seed: [...]}"""
    from collections import Counter

    rnd = rng("C07", *case["seed"])
    kind = kind_of(case["writer"])
    lo, hi = (1, 1) if case["writer"] == "_PieChartXmlWriter" else (0, 999)  # docs/user/charts.rst: a pie "only ever has a single series"
    desc = gen_data(rnd, kind, case["shape"], lo, hi)
    descs = [gen_data(rnd, kind, s, lo, hi) for s in case["rep"]]
    if case["seed"][-1] % 3 == 0 and case["writer"] != "_PieChartXmlWriter":
        descs.insert(rnd.randrange(len(descs) + 1), "REUSE")  # the chart-data object used last is grown in place and used again
    sig = {"ct": case["ct"], "entry": case["entry"], "data": signature(desc), "rep": [d if isinstance(d, str) else signature(d) for d in descs]}
    j = Judge(acc, dict(case, data=sig["data"]), "%s via %s, shape %s, then %s" % (case["ct"], case["entry"], case["shape"], case["rep"]))
    cd = build_data(desc)
    res, ok = guarded(j, lambda: new_chart(case["entry"], case["ct"], cd), desc, case["entry"])
    acc.count("charts_built")
    if ok:
        acc.hit(case["entry"])
        acc.hit("writer:" + case["writer"])
        chart = res[1]
        check_part(j, chart, desc, Counter(), "create")
        replace_steps(j, chart, descs, [Counter(), len(desc["series"]), cd, desc], rnd, case.get("fmt"))
    d = sig["data"]
    acc.case(desc=sig, nontrivial=d["nser"] >= 2 or d["depth"] > 1 or d["none"] or bool(descs), cls="%s/%s" % (case["writer"][1:-14].lower(), case["shape"]), sample=sig)
    return j.n


# ------------------------------------------------------------------ corpus
def chart_decks():
    from vlib import env

    out = []
    for p in env.corpus_decks():
        with zipfile.ZipFile(p) as z:
            if any(n.startswith("ppt/charts/chart") for n in z.namelist()):
                out.append(os.path.relpath(p, env.REPO))
    return out


def variant_deck(data, date1904=False, drop_external=False):
    """harness-made variants of a deck: c:date1904 switched on / c:externalData element removed in every chart part"""
    zin = zipfile.ZipFile(io.BytesIO(data))
    buf = io.BytesIO()
    with zipfile.ZipFile(buf, "w", zipfile.ZIP_DEFLATED) as zout:
        for i in zin.infolist():
            b = zin.read(i)
            if re.match(r"ppt/charts/chart[0-9]+\.xml$", i.filename):
                if date1904:
                    b = re.sub(rb"<c:date1904( val=\"[^\"]*\")?\s*/>", b'<c:date1904 val="1"/>', b)
                if drop_external:
                    b = re.sub(rb"<c:externalData[^>]*?(/>|>.*?</c:externalData>)", b"", b, flags=re.S)
            zout.writestr(i, b)
    return buf.getvalue()


def iter_charts(prs):
    def walk(shapes):
        for sh in shapes:
            if getattr(sh, "has_chart", False):
                yield sh.chart
            elif hasattr(sh, "shapes"):
                yield from walk(sh.shapes)

    for s in prs.slides:
        yield from walk(s.shapes)


def corpus_kind(root):
    tags = [local(p) for p in plot_elements(root)]
    return None if not tags else {"scatterChart": "xy", "bubbleChart": "bubble"}.get(tags[0], "category")


def run_corpus(case, acc):
    """one round over a deck: {deck, seed: [...], d1904: bool}: every chart formatted, then 1-3 replaces"""
    import pptx
    from lxml import etree
    from vlib import env, xsdkit

    data = open(os.path.join(env.REPO, case["deck"]), "rb").read()
    if case.get("d1904"):
        data = variant_deck(data, date1904=True)
    prs = pptx.Presentation(io.BytesIO(data))
    total = 0
    for n, chart in enumerate(iter_charts(prs)):
        rnd = rng("C07c", n, *case["seed"])
        root = etree.fromstring(chart.part.blob, xsdkit.PLAIN)
        kind = corpus_kind(root)
        if kind is None:
            continue
        shapes = [rnd.choice(["random", "random"] + (CAT_SHAPES if kind == "category" else XY_SHAPES)) for _ in range(rnd.choice([1, 2, 3]))]
        descs = [gen_data(rnd, kind, s, 0) for s in shapes]
        plots = [p["tag"] for p in read_chart(root)["plots"]]
        nser0 = sum(len(ordered_sers(p)) for p in plot_elements(root))
        if case["seed"][-1] % 2 == 1:  # ... the other rounds start by SHRINKING it to one series (surplus series leave every plot)
            shapes.insert(0, "shrink-to-1")
            descs.insert(0, gen_data(rnd, kind, "few", 0, force={"nser": 1}))
            acc.hit("corpus-chart-shrunk-to-one-series")
        if case["seed"][-1] % 2 == 0:  # every other round starts by GROWING the authored chart by two series (new c:idx / c:order next to the authored ones)
            shapes.insert(0, "grow+2")
            descs.insert(0, gen_data(rnd, kind, "few", 0, force={"nser": nser0 + 2}))
            acc.hit("corpus-chart-grown-by-two-series")
        sig = {"deck": case["deck"], "chart": str(chart.part.partname), "d1904": bool(case.get("d1904")), "rep": [signature(d) for d in descs]}
        j = Judge(acc, dict(case, chart=n), "%s %s%s, replace with %s" % (case["deck"], chart.part.partname, " (date1904 variant)" if case.get("d1904") else "", shapes))
        nser = sum(len(ordered_sers(p)) for p in plot_elements(root))
        replace_steps(j, chart, descs, [None, nser], rnd, True)
        acc.hit("corpus-chart")
        acc.hit("corpus-multi-plot") if len(plots) > 1 else None
        acc.hit("corpus-date1904-variant") if read_chart(root)["date1904"] else None
        acc.case(desc=sig, nontrivial=True, cls="corpus/" + "+".join(plots), sample=sig)
        total += j.n
    return total


# ------------------------------------------------------------------ plan / run / replay
def plan(tier, seed):
    types = writer_types()
    cases = []
    for ti, (ct, w) in enumerate(types):
        shapes = CAT_SHAPES if kind_of(w) == "category" else XY_SHAPES
        per = 3 * len(shapes) if tier == "quick" else 500
        for i in range(per):
            rnd = rng("C07plan", seed, ct, i)
            shape = shapes[i] if i < len(shapes) else rnd.choice(["random"] * 3 + shapes)
            if shape == "s0" and w == "_PieChartXmlWriter":
                shape = "s1p1"
            rep = [rnd.choice(shapes + ["random"]) for _ in range(rnd.choice([0, 1, 2] if tier == "quick" else [0, 1, 2, 3]))]
            cases.append({"ct": ct, "writer": w, "entry": "insert_chart" if (i + ti) % 3 == 0 else "add_chart", "shape": shape, "rep": rep, "fmt": i % 2 == 0, "seed": [seed, ct, i]})
    units = [{"kind": "gen", "cases": cases[i::24]} for i in range(24)]
    decks = chart_decks()
    rounds = 2 if tier == "quick" else 200
    cc = [{"deck": d, "seed": [seed, d, r], "d1904": r % 3 == 1 or (tier == "quick" and "replace-data" in d)} for r in range(rounds) for d in decks]
    nu = 8 if tier == "quick" else 32
    units += [{"kind": "corpus", "cases": cc[i::nu]} for i in range(nu) if cc[i::nu]]
    return units


def run_unit(unit, tier, seed, acc):
    if unit["kind"] == "gen":
        acc.extra["writable_chart_types"] = [t for t, _ in writer_types()]
    for case in unit["cases"]:
        (run_case if unit["kind"] == "gen" else run_corpus)(case, acc)


def replay(w, acc):
    w = {k: v for k, v in w.items() if k not in ("data", "chart")}
    n = run_corpus(w, acc) if "deck" in w else run_case(w, acc)
    print("case %s -> %d violation event(s)" % (json.dumps(w)[:300], n))


def finalize(acc, tier, seed):
    need = ["add_chart", "insert_chart", "replace_data", "corpus-chart", "corpus-multi-plot", "corpus-date1904-variant"]
    need += ["writer:_%sChartXmlWriter" % f for f in ("Area", "Bar", "Bubble", "Doughnut", "Line", "Pie", "Radar", "Xy")]
    need += ["rewriter:_%sSeriesXmlRewriter" % f for f in ("Category", "Xy", "Bubble")]
    for n in need:
        if not acc.reach.get(n):
            acc.inconclusive.append("never reached: " + n)
    if len(acc.extra.get("writable_chart_types", ())) < 29:
        acc.inconclusive.append("fewer than the 29 writable chart types were exercised: %d" % len(acc.extra.get("writable_chart_types", ())))
    for cnt in ("parts_validated", "series_read_through_api", "category_collections_read_through_api", "untouched_comparisons", "ptCount_checks"):
        if not acc.counters.get(cnt):
            acc.inconclusive.append("deciding counter is zero: " + cnt)
