"""C09 property table: one row per read/write property of the proxy layer.

A row says where a fresh object of the owning class comes from (FIXTURE populating a new slide + PATH from
that slide `s` / the deck `prs` to the object -- the same PATH evaluated on the re-opened deck is the LOCATOR),
which values to assign (domain generator -> [(value, value-class)]), how a reading is compared with what was
assigned (CMP, one storage quantum either direction), what the getter must report after `None` (NONE=...,
only where the docstring documents it) and which rows of the same object are independent of it (GROUP).

Value classes decide the expectation:
  member / interior / random / lo-bound / hi-bound / inside-bound / threshold-neighbour / None  -> must be accepted
  outside-bound / wrong-type / wrong-enum / no-xml-member (the docstring or the enumeration excludes it) -> must raise
  undoc-*  (docstring silent: C11 owns what the simple type takes) -> either; if it raises: TypeError/ValueError, XML unchanged
"""
from __future__ import annotations

import math

from pptx.dml.color import RGBColor
from pptx.enum.chart import (XL_AXIS_CROSSES, XL_CHART_TYPE, XL_LABEL_POSITION, XL_LEGEND_POSITION, XL_MARKER_STYLE,
                             XL_TICK_LABEL_POSITION, XL_TICK_MARK)
from pptx.enum.dml import MSO_LINE, MSO_PATTERN, MSO_THEME_COLOR
from pptx.enum.lang import MSO_LANGUAGE_ID
from pptx.enum.shapes import MSO_CONNECTOR, MSO_SHAPE
from pptx.enum.text import MSO_ANCHOR, MSO_AUTO_SIZE, MSO_UNDERLINE, PP_ALIGN
from pptx.util import Emu, Pt

# "None-not-documented": None assigned to a number / length / enumeration / string / colour property whose docstring gives no
# meaning to None - outside the documented domain like any other wrong type (boolean properties take any value by truthiness:
# there None stays "undoc-None", accepted or refused alike)
# "nonfinite": inf / nan for a float property - no documented range contains them
BAD = {"outside-bound", "wrong-type", "wrong-enum", "no-xml-member", "None-not-documented", "nonfinite"}
TRIVIAL = {"member", "interior", "random"}
# an empty element of these (no attribute, no child) says the same as its absence (schema: everything in it is optional, the
# attribute defaults are the getters' defaults); a rejected assignment that leaves only such an element behind changed nothing
NEUTRAL_EMPTY = ("a:pPr", "a:ln", "a:srcRect", "c:gapWidth", "c:overlap", "c:legendPos")
NOTDOC = object()   # None is not documented for assignment
NOPRIME = object()  # do not assign anything before the value under test
RESYNC = object()   # coupling result: reading is documented to change, to an unspecified value
UNREADABLE = "<unreadable>"   # getter documented to raise in this state (theme_color of a non-scheme colour)
INF, NAN = math.inf, math.nan
up = lambda x: math.nextafter(x, INF)      # noqa: E731
dn = lambda x: math.nextafter(x, -INF)     # noqa: E731


def expectation(vcls):
    return "bad" if vcls in BAD else "either" if vcls.startswith("undoc") else "ok"


# ---------------------------------------------------------------------------------------- domain generators
def _fill(vals, rnd, n, draw):
    """Fixed grid first; the thorough tier tops up with seeded interior values to n."""
    while rnd is not None and len(vals) < n:
        vals.append((draw(rnd), "random"))
    return vals


def ints(lo, hi, documented, interior=(), none=False):
    """Integer range lo..hi: both bounds, one inside and one outside each, interior values, wrong types."""
    out = "outside-bound" if documented else "undoc-outside"

    def gen(rnd, n):
        v = [(lo, "lo-bound"), (hi, "hi-bound"), (lo + 1, "inside-bound"), (hi - 1, "inside-bound"), (lo - 1, out), (hi + 1, out)]
        v += [(x, "interior") for x in interior]
        v += [("abc", "wrong-type"), (2.5, "undoc-float"), ([1], "wrong-type")]
        v.append((None, "None" if none else "None-not-documented"))
        return _fill(v, rnd, n, lambda r: r.randint(lo, hi))
    return gen


COORD_LO, COORD_HI = -27273042329600, 27273042316900
HALF = COORD_HI // 2    # end points of a connector: any two of them still span a representable extent; table columns/rows: their sum is the frame's extent


def emu(lo, hi, interior=(0, 1, 12700, 914400, 9144000), none=False):
    """EMU lengths: ints in the schema range of the target attribute; the range itself is not in the docstrings."""
    base = ints(lo, hi, False, interior, none)

    def gen(rnd, n):
        v = base(None, 0) + [(Emu(914400), "interior"), (-1, "undoc-negative" if lo >= 0 else "interior")]
        return _fill(v, rnd, n, lambda r: r.choice([r.randint(max(lo, -10 ** 7), min(hi, 10 ** 8)), r.randint(lo, hi)]))
    return gen


def centipoint_emu(lo_emu, hi_emu, none=True):
    """Lengths stored in 1/100 pt: bounds, values one EMU either side of a centipoint step (127 EMU)."""
    def gen(rnd, n):
        v = [(lo_emu, "lo-bound"), (hi_emu, "hi-bound"), (lo_emu + 127, "inside-bound"), (hi_emu - 127, "inside-bound"),
             (lo_emu - 127, "undoc-outside"), (hi_emu + 127, "undoc-outside"), (Pt(18), "interior"), (Pt(10.5), "interior")]
        for k in (lo_emu // 127 + 3, 1800, 2401):
            v += [(k * 127 - 1, "threshold-neighbour"), (k * 127, "threshold-neighbour"), (k * 127 + 1, "threshold-neighbour"), (k * 127 + 63, "threshold-neighbour"), (k * 127 + 64, "threshold-neighbour")]
        v += [("abc", "wrong-type"), ([1], "wrong-type"), (None, "None" if none else "None-not-documented")]
        return _fill(v, rnd, n, lambda r: Emu(r.randint(lo_emu, min(hi_emu, 12700 * 400))))
    return gen


def line_spacing_vals(rnd, n):
    """Length -> fixed height (1/100 pt), any other number -> multiple of a line (1/100000)."""
    v = centipoint_emu(0, 20116800)(None, 0)
    v = [(Emu(x) if isinstance(x, int) and not isinstance(x, bool) else x, c) for x, c in v]
    v += [(1.5, "interior"), (2, "interior"), (0.0, "lo-bound"), (132.0, "hi-bound"), (dn(132.0), "inside-bound"), (up(132.0), "undoc-outside"), (-0.5, "undoc-outside")]
    for k in (150000, 99999):
        t = (k + 0.5) / 100000.0
        v += [(t, "threshold-neighbour"), (up(t), "threshold-neighbour"), (dn(t), "threshold-neighbour")]
    return _fill(v, rnd, n, lambda r: r.choice([round(r.uniform(0, 5), r.randint(0, 7)), Emu(r.randint(0, 12700 * 200))]))


def fracs(lo, hi, documented, q=1e-5, none=False, span=None):
    """Floats stored as integer multiples of q: bounds, ulp neighbours, neighbours of the rounding thresholds."""
    out = "outside-bound" if documented else "undoc-outside"
    span = span or (max(lo, -2.0), min(hi, 2.0))

    def gen(rnd, n):
        v = [(lo, "lo-bound"), (hi, "hi-bound"), (up(lo), "inside-bound"), (dn(hi), "inside-bound"), (dn(lo), out), (up(hi), out), (lo - q, out), (hi + q, out)]
        v += [(x, "interior") for x in (0.25, 0.5, 0, 0.0, 1, -0.25, 0.123456789) if lo <= x <= hi]
        for k in (0, 41999, 99999, -25001):
            t = (k + 0.5) * q
            for x in (t, up(t), dn(t)):
                if lo <= x <= hi:
                    v.append((x, "threshold-neighbour"))
        v += [("abc", "wrong-type"), ([1], "wrong-type"), (INF, "nonfinite"), (NAN, "nonfinite"), (None, "None" if none else "None-not-documented")]
        return _fill(v, rnd, n, lambda r: r.choice([r.uniform(*span), round(r.uniform(*span), 5) + r.choice([4.9e-6, 5e-6, 5.1e-6, -5e-6])]))
    return gen


def angles(none=False):
    def gen(rnd, n):
        v = [(x, "interior") for x in (0, 0.0, 45, 90.0, 42.42, 180.0, 359.0)]
        v += [(-45.0, "inside-bound"), (-0.0, "lo-bound"), (360.0, "hi-bound"), (dn(360.0), "hi-bound"), (up(360.0), "hi-bound"), (720.5, "interior"), (-1e-7, "lo-bound"), (359.9999999, "hi-bound"), (1e9 + 0.25, "interior")]
        for k in (0, 2545199, 21599999):
            t = (k + 0.5) / 60000.0
            v += [(t, "threshold-neighbour"), (up(t), "threshold-neighbour"), (dn(t), "threshold-neighbour")]
        v += [("abc", "wrong-type"), ([1], "wrong-type"), (INF, "nonfinite"), (NAN, "nonfinite"), (None, "None" if none else "None-not-documented")]
        return _fill(v, rnd, n, lambda r: r.choice([r.uniform(-720, 720), round(r.uniform(0, 360), 4) + r.choice([-1, 1]) * 8.3333e-6]))
    return gen


def doubles(positive=False, none=True):
    """xsd:double valued (axis scale, unit, crossing point): any finite float, exact."""
    def gen(rnd, n):
        v = [(x, "interior") for x in (1, 1.5, 10, 0.1 + 0.2, 1 / 3.0, 1e-9, 1e12, 123456.789)]
        v += [(5e-324, "lo-bound"), (1.7976931348623157e308, "hi-bound"), (up(1.0), "threshold-neighbour"), (dn(1.0), "threshold-neighbour")]
        neg = "undoc-nonpositive" if positive else "interior"
        v += [(0, neg), (-0.0, neg), (-2.5, neg), (-1e300, neg)]
        v += [("abc", "wrong-type"), ([1], "wrong-type"), (INF, "nonfinite"), (NAN, "nonfinite"), (None, "None" if none else "None-not-documented")]
        return _fill(v, rnd, n, lambda r: r.choice([r.uniform(0.001, 1e4), r.random() * 10 ** r.randint(-8, 12), abs(r.gauss(0, 1)) + 1e-3]))
    return gen


def bools(none=False, strict=False):
    """True/False (+None where documented); non-bool values are out of domain only where the docstring says so."""
    def gen(rnd, n):
        other = "wrong-type" if strict else "undoc-truthy"
        v = [(True, "member"), (False, "member"), (None, "None" if none else "undoc-None"), ("abc", other), (2, other), (1, "undoc-truthy"), (0, "undoc-truthy")]
        return v
    return gen


def _foreign(E):
    """A member of another enumeration whose integer value names no member of E (members are ints)."""
    own = {int(m) for m in E}
    for F in (XL_CHART_TYPE, MSO_LANGUAGE_ID, MSO_PATTERN, MSO_SHAPE):
        if F is not E:
            for m in F:
                if int(m) not in own:
                    return m


def enums(E, none=False, ok_without_xml=(), extra=()):
    """Every member with an XML value must be accepted; members without one, a foreign member and a str must raise."""
    def gen(rnd, n):
        v, seen = [], set()
        for m in E:
            has = bool(getattr(m, "xml_value", True)) or m in ok_without_xml
            dup = has and getattr(m, "xml_value", None) in seen     # two members, one token: C20's finding, cannot read back
            seen.add(getattr(m, "xml_value", None))
            v.append((m, "undoc-duplicate-token" if dup else "member" if has else "no-xml-member"))
        v += list(extra)
        v += [(_foreign(E), "wrong-enum"), ("abc", "wrong-type"), (None, "None" if none else "None-not-documented")]
        return v
    return gen


def strings(none=False, empty="interior", kind="name"):
    def gen(rnd, n):
        from vlib import gen as G

        v = [("abc", "interior"), ("Ünï cödé 日本", "interior"), ("a&b <c> \"q\" 'r'", "interior"), (" lead and trail ", "interior"), ("x" * 300, "interior"), ("", empty)]
        if kind == "url":
            v = [("http://example.com/a?b=c&d=e", "interior"), ("https://x.org/%20y#z", "interior"), ("mailto:a@b.c", "interior"), ("file:///C:/d/e.txt", "interior"), ("", "undoc-empty")]
        if kind == "numfmt":
            v = [("0.00", "interior"), ("#,##0", "interior"), ('0.0"x"', "interior"), ("General", "interior"), ("$#,##0.00", "interior"), ("[<100]0;0.0", "interior"), ("0%", "interior")]
        v += [(7, "wrong-type"), ([1], "wrong-type"), (None, "None" if none else "None-not-documented")]
        classes = ["plain", "markup", "entity-like", "quotes", "astral", "long", "format-chars", "escape-lookalike", "lead-trail-space"]
        return _fill(v, rnd, min(n, 60), lambda r: (G.string(r, r.choice(classes), allow_breaks=False) or "z") if kind != "url" else "http://h/" + "".join(r.choice("abc/?&=%20") for _ in range(r.randint(1, 12))))
    return gen


def colours(rnd, n):
    v = [(RGBColor(r, g, b), "lo-bound" if (r, g, b) == (0, 0, 0) else "hi-bound" if (r, g, b) == (255, 255, 255) else "interior") for r in (0, 255) for g in (0, 255) for b in (0, 255)]
    v += [(RGBColor(0x12, 0xAB, 0xEF), "interior"), ("FF0000", "wrong-type"), ((255, 0, 0), "wrong-type"), (0xFF0000, "wrong-type"), (None, "None-not-documented")]
    return _fill(v, rnd, n, lambda r: RGBColor(r.randrange(256), r.randrange(256), r.randrange(256)))


def underline_vals(rnd, n):
    return enums(MSO_UNDERLINE, none=True, extra=[(True, "member"), (False, "member")])(rnd, n)


def autosize_vals(rnd, n):   # MSO_AUTO_SIZE carries no XML values; the docstring lists the assignable values
    A = MSO_AUTO_SIZE
    return [(A.NONE, "member"), (A.SHAPE_TO_FIT_TEXT, "member"), (A.TEXT_TO_FIT_SHAPE, "member"), (None, "None"), (A.MIXED, "no-xml-member"), (_foreign(A), "wrong-enum"), ("abc", "wrong-type")]


def slide_refs(rnd, n):      # slide indices; decoded by the row's set/get
    return [(0, "member"), (1, "member"), (None, "None"), ("abc", "wrong-type"), (7, "wrong-type")]


# ------------------------------------------------------------------------------------------------- fixtures
# name -> (layout index, builder(prs, slide, rnd)); the builder leaves the object reachable through the row's PATH
def _cat_data(nser=2):
    from pptx.chart.data import CategoryChartData

    cd = CategoryChartData()
    cd.categories = ["a", "b", "c"]
    for i in range(nser):
        cd.add_series("S%d" % i, (1.5 + i, -2, 3))
    return cd


def _chart(ct, data=None):
    def build(prs, s, rnd):
        from pptx.chart.data import BubbleChartData, XyChartData

        cd = data
        if ct.name.startswith("BUBBLE"):
            cd = BubbleChartData()
            cd.add_series("S").add_data_point(1, 2, 3)
        elif ct.name.startswith("XY"):
            cd = XyChartData()
            ser = cd.add_series("S")
            ser.add_data_point(1, 2)
            ser.add_data_point(2, 3)
        gf = s.shapes.add_chart(ct, Emu(100000), Emu(100000), Emu(4000000), Emu(3000000), cd or _cat_data())
        gf.chart.has_legend = True
    return build


def _shape(kind=MSO_SHAPE.ROUNDED_RECTANGLE, after=None):
    def build(prs, s, rnd):
        sp = s.shapes.add_shape(kind, Emu(100000), Emu(200000), Emu(3000000), Emu(1000000))
        sp.text_frame.text = "abc"
        if after:
            after(sp)
    return build


def _textbox(prs, s, rnd):
    tb = s.shapes.add_textbox(Emu(100000), Emu(200000), Emu(3000000), Emu(1000000))
    tb.text_frame.text = "abc"


def _picture(prs, s, rnd):
    import io

    from vlib import gen as G

    s.shapes.add_picture(io.BytesIO(G.png_bytes(rnd, 8, 6)), Emu(100000), Emu(200000), Emu(800000), Emu(600000))


def _table(prs, s, rnd):
    s.shapes.add_table(2, 3, Emu(100000), Emu(200000), Emu(3000000), Emu(800000))


def _connector(prs, s, rnd):
    s.shapes.add_connector(MSO_CONNECTOR.STRAIGHT, Emu(1000000), Emu(2000000), Emu(3000000), Emu(2500000))


def _group(prs, s, rnd):
    g = s.shapes.add_group_shape()
    g.shapes.add_shape(MSO_SHAPE.RECTANGLE, Emu(100000), Emu(200000), Emu(300000), Emu(400000))


def _solid(sp):
    sp.fill.solid()
    sp.fill.fore_color.rgb = RGBColor(0x10, 0x20, 0x30)


def _theme(sp):
    sp.fill.solid()
    sp.fill.fore_color.theme_color = MSO_THEME_COLOR.ACCENT_2


def _theme_twice(sp):
    """A theme colour as another producer may write it: colour transforms are a repeatable choice, and here the luminance pair
    stands twice (next to a saturation transform the brightness setter has no business with)."""
    sp.fill.solid()
    sp.fill.fore_color.theme_color = MSO_THEME_COLOR.ACCENT_2
    clr = sp.fill.fore_color._color._xClr
    for tag, val in (("satMod", "120000"), ("lumMod", "90000"), ("lumOff", "5000"), ("lumMod", "80000"), ("lumOff", "10000")):
        child = clr.makeelement("{http://schemas.openxmlformats.org/drawingml/2006/main}" + tag, {"val": val})
        clr.append(child)


def _textbox_action_run(prs, s, rnd):
    from pptx.oxml import parse_xml

    _textbox(prs, s, rnd)
    tf = s.shapes[0].text_frame
    r = tf.paragraphs[0].runs[0] if tf.paragraphs[0].runs else tf.paragraphs[0].add_run()
    r.text = r.text or "next"
    rPr = r._r.get_or_add_rPr()
    rPr.append(parse_xml(
        '<a:hlinkClick xmlns:a="http://schemas.openxmlformats.org/drawingml/2006/main" '
        'xmlns:r="http://schemas.openxmlformats.org/officeDocument/2006/relationships" r:id="" action="ppaction://hlinkshowjump?jump=nextslide"/>'))


def _line_chart_labels(prs, s, rnd):
    _chart(XL_CHART_TYPE.BAR_CLUSTERED)(prs, s, rnd)
    s.shapes[0].chart.plots[0].has_data_labels = True


CT = XL_CHART_TYPE
def _legend_dragged(prs, s, rnd):
    """A chart whose legend was dragged in PowerPoint: c:layout/c:manualLayout in EDGE mode with explicit x/y/w/h."""
    from pptx.oxml import parse_xml

    _chart(CT.BAR_CLUSTERED)(prs, s, rnd)
    legend = s.shapes[0].chart._chartSpace.chart.legend
    for lay in legend.findall("{http://schemas.openxmlformats.org/drawingml/2006/chart}layout"):
        legend.remove(lay)
    legend._insert_layout(parse_xml(
        '<c:layout xmlns:c="http://schemas.openxmlformats.org/drawingml/2006/chart"><c:manualLayout><c:xMode val="edge"/><c:yMode val="edge"/>'
        '<c:x val="0.7"/><c:y val="0.1"/><c:w val="0.2"/><c:h val="0.3"/></c:manualLayout></c:layout>'))


FIXTURES = {
    "legend_dragged": (6, _legend_dragged),
    "autoshape": (6, _shape()),
    "arrow": (6, _shape(MSO_SHAPE.LEFT_RIGHT_ARROW)),
    "textbox": (6, _textbox),
    "textbox_action_run": (6, _textbox_action_run),
    "picture": (6, _picture),
    "placeholder": (1, lambda prs, s, rnd: None),
    "table": (6, _table),
    "connector": (6, _connector),
    "group": (6, _group),
    "solid": (6, _shape(after=_solid)),
    "theme": (6, _shape(after=_theme)),
    "theme_twice": (6, _shape(after=_theme_twice)),
    "gradient": (6, _shape(after=lambda sp: sp.fill.gradient())),
    "patterned": (6, _shape(after=lambda sp: sp.fill.patterned())),
    "bar_chart": (6, _chart(CT.BAR_CLUSTERED)),
    "bar_stacked": (6, _chart(CT.COLUMN_STACKED)),
    "bar_stacked_100": (6, _chart(CT.BAR_STACKED_100)),
    "bar_labels": (6, _line_chart_labels),
    "line_chart": (6, _chart(CT.LINE_MARKERS)),
    "bubble_chart": (6, _chart(CT.BUBBLE)),
    "xy_chart": (6, _chart(CT.XY_SCATTER)),
    "pie_chart": (6, _chart(CT.PIE)),
    "prs": (6, lambda prs, s, rnd: None),
    "prs_without_sldSz": (6, lambda prs, s, rnd: prs._element.remove(prs._element.sldSz) if prs._element.sldSz is not None else None),  # p:sldSz is optional
}


# ----------------------------------------------------------------------------------------------------- rows
class Row:
    def __init__(self, id, fixture, path, values, cmp="eq", none=NOTDOC, group=None, covers=(), attr=None, get=None, set=None,
                 expect=None, prime=None, persist=True, solo=False, corpus=None, couples=None, cls=None, initial_may_raise=False):
        self.id, self.fixture, self.path, self.values, self.cmp, self.none = id, fixture, path, values, cmp, none
        self.attr = attr or id.split(".")[1].split("@")[0].split("[")[0]
        self.owner = id.split(".")[0]
        self.covers = [(self.owner, self.attr)] + list(covers)
        self.group = group           # rows with equal (fixture, path, group) are sequenced together
        self._get, self._set = get, set
        self.expect = expect or (lambda v: v)
        self.prime = prime           # value assigned before a None / out-of-domain probe (default: first interior value)
        self.persist = persist       # False: state lives on the proxy only, not in the file
        self.solo = solo             # True: the object is the deck itself, one case per deck
        self.corpus = corpus         # kind of corpus object the row also applies to (see c09.walk)
        self.couples = couples       # f(model, v) -> {row id: expected reading | RESYNC} for documented couplings
        self.cls = cls               # evidence class (Appendix A group)
        self.initial_may_raise = initial_may_raise

    def get(self, obj):
        return self._get(obj) if self._get else getattr(obj, self.attr)

    def set(self, obj, v):
        return self._set(obj, v) if self._set else setattr(obj, self.attr, v)


def _prs_of(o):
    return o.part.package.presentation_part.presentation


def _set_target(o, i):
    o.target_slide = _prs_of(o).slides[i] if isinstance(i, int) and 0 <= i < 2 else i


def _get_target(o):
    t = o.target_slide
    return None if t is None else [x.slide_id for x in _prs_of(o).slides].index(t.slide_id)


def _layout_value(attr):
    """Reading documented for a placeholder without a directly-applied value: the layout placeholder's."""
    def f(ph):
        lph = next(p for p in ph.part.slide_layout.placeholders if p.placeholder_format.idx == ph.placeholder_format.idx)
        return getattr(lph, attr)
    return f


def _underline_expect(v):
    return True if v is MSO_UNDERLINE.SINGLE_LINE else False if v is MSO_UNDERLINE.NONE else v


def _numfmt_couple(linked_row):
    return lambda model, v: {linked_row: False}   # docstring: assigning a format sets number_format_is_linked to False


def _crosses_couple(model, v):          # ValueAxis.crosses: CUSTOM keeps/creates the crossing point, anything else removes it
    if v is XL_AXIS_CROSSES.CUSTOM:
        return {"ValueAxis.crosses_at": model.get("ValueAxis.crosses_at") if model.get("ValueAxis.crosses_at") is not None else 0.0}
    return {"ValueAxis.crosses_at": None}


def _crosses_at_couple(model, v):       # a numeric crossing point reads as CUSTOM; None leaves neither element (reads CUSTOM too)
    return {"ValueAxis.crosses": XL_AXIS_CROSSES.CUSTOM}


def _rgb_couple(model, v):              # docstring: type becomes RGB; a theme colour's brightness adjustment is removed
    out = {"ColorFormat.theme_color": UNREADABLE}
    if model.get("ColorFormat.theme_color") != UNREADABLE:
        out["ColorFormat.brightness"] = 0
    return out


def _theme_couple(model, v):            # type becomes SCHEME: rgb is no longer defined; brightness on a type change is unspecified
    out = {"ColorFormat.rgb": UNREADABLE}
    if model.get("ColorFormat.theme_color") == UNREADABLE:
        out["ColorFormat.brightness"] = RESYNC
    return out


def _safe_color_get(attr):
    """rgb / theme_color of a colour of the other type: documented to raise (theme_color in fact reads NOT_THEME_COLOR)."""
    def g(o):
        try:
            v = getattr(o, attr)
        except AttributeError:
            return UNREADABLE
        return UNREADABLE if v is MSO_THEME_COLOR.NOT_THEME_COLOR else v
    return g


SP, TF = "s.shapes[0]", "s.shapes[0].text_frame"
PARA, FONT = TF + ".paragraphs[0]", TF + ".paragraphs[0].runs[0].font"
CH = "s.shapes[0].chart"
PLOT, SER = CH + ".plots[0]", CH + ".plots[0].series[0]"
I32 = (-2147483648, 2147483647)
R = Row
ROWS = [
    # ---- EMU geometry ---------------------------------------------------------------------------------------
    R("BaseShape.left", "autoshape", SP, emu(COORD_LO, COORD_HI), "emu", group="geom", corpus="shape", cls="emu-geometry"),
    R("BaseShape.top", "autoshape", SP, emu(COORD_LO, COORD_HI), "emu", group="geom", corpus="shape", cls="emu-geometry"),
    R("BaseShape.width", "autoshape", SP, emu(0, COORD_HI), "emu", group="geom", corpus="shape", cls="emu-geometry"),
    R("BaseShape.height", "autoshape", SP, emu(0, COORD_HI), "emu", group="geom", corpus="shape", cls="emu-geometry"),
    R("BaseShape.rotation", "autoshape", SP, angles(), "angle", group="geom", corpus="rotatable", cls="angle"),
    R("BaseShape.name", "autoshape", SP, strings(), group="geom", corpus="shape", cls="string"),
    R("BaseShape.left@picture", "picture", SP, emu(COORD_LO, COORD_HI), "emu", group="geom", cls="emu-geometry"),
    R("BaseShape.top@picture", "picture", SP, emu(COORD_LO, COORD_HI), "emu", group="geom", cls="emu-geometry"),
    R("BaseShape.width@picture", "picture", SP, emu(0, COORD_HI), "emu", group="geom", cls="emu-geometry"),
    R("BaseShape.height@picture", "picture", SP, emu(0, COORD_HI), "emu", group="geom", cls="emu-geometry"),
    R("BaseShape.rotation@picture", "picture", SP, angles(), "angle", group="geom", cls="angle"),
    R("BaseShape.name@picture", "picture", SP, strings(), group="geom", cls="string"),
    R("BaseShape.left@graphicframe", "table", SP, emu(COORD_LO, COORD_HI), "emu", group="geom", cls="emu-geometry"),
    R("BaseShape.top@graphicframe", "table", SP, emu(COORD_LO, COORD_HI), "emu", group="geom", cls="emu-geometry"),
    R("BaseShape.width@graphicframe", "table", SP, emu(0, COORD_HI), "emu", group="geom", cls="emu-geometry"),
    R("BaseShape.height@graphicframe", "table", SP, emu(0, COORD_HI), "emu", group="geom", cls="emu-geometry"),
    R("BaseShape.rotation@graphicframe", "table", SP, angles(), "angle", group="geom", cls="angle"),
    R("BaseShape.left@group", "group", SP, emu(COORD_LO, COORD_HI), "emu", group="geom", cls="emu-geometry"),
    R("BaseShape.top@group", "group", SP, emu(COORD_LO, COORD_HI), "emu", group="geom", cls="emu-geometry"),
    R("BaseShape.width@group", "group", SP, emu(0, COORD_HI), "emu", group="geom", cls="emu-geometry"),
    R("BaseShape.height@group", "group", SP, emu(0, COORD_HI), "emu", group="geom", cls="emu-geometry"),
    R("BaseShape.rotation@group", "group", SP, angles(), "angle", group="geom", cls="angle"),
    R("BaseShape.left@connector", "connector", SP, emu(COORD_LO, COORD_HI), "emu", group="geom", cls="emu-geometry"),
    R("BaseShape.top@connector", "connector", SP, emu(COORD_LO, COORD_HI), "emu", group="geom", cls="emu-geometry"),
    R("BaseShape.width@connector", "connector", SP, emu(0, COORD_HI), "emu", group="geom", cls="emu-geometry"),
    R("BaseShape.height@connector", "connector", SP, emu(0, COORD_HI), "emu", group="geom", cls="emu-geometry"),
    # placeholders: a slide placeholder of layout 1 has no xfrm; the reading without a directly-applied value is the layout's
    R("_InheritsDimensions.left", "placeholder", "s.placeholders[1]", emu(COORD_LO, COORD_HI), "emu", group="phgeom", corpus="placeholder", cls="emu-geometry"),
    R("_InheritsDimensions.top", "placeholder", "s.placeholders[1]", emu(COORD_LO, COORD_HI), "emu", group="phgeom", corpus="placeholder", cls="emu-geometry"),
    R("_InheritsDimensions.width", "placeholder", "s.placeholders[1]", emu(0, COORD_HI), "emu", group="phgeom", corpus="placeholder", cls="emu-geometry"),
    R("_InheritsDimensions.height", "placeholder", "s.placeholders[1]", emu(0, COORD_HI), "emu", group="phgeom", corpus="placeholder", cls="emu-geometry"),
    # connector end points: each end point is independent of the other three coordinates (left/top/width/height are not)
    R("Connector.begin_x", "connector", SP, emu(-HALF, HALF, interior=(0, 1, 2999999, 3000000, 3000001, 5000000)), "emu", group="ends", corpus="connector", cls="emu-geometry"),
    R("Connector.begin_y", "connector", SP, emu(-HALF, HALF, interior=(0, 1, 2499999, 2500000, 2500001, 5000000)), "emu", group="ends", corpus="connector", cls="emu-geometry"),
    R("Connector.end_x", "connector", SP, emu(-HALF, HALF, interior=(0, 999999, 1000000, 1000001, 5000000)), "emu", group="ends", corpus="connector", cls="emu-geometry"),
    R("Connector.end_y", "connector", SP, emu(-HALF, HALF, interior=(0, 1999999, 2000000, 2000001, 5000000)), "emu", group="ends", corpus="connector", cls="emu-geometry"),
    R("_Column.width", "table", SP + ".table.columns[0]", emu(0, HALF // 4), "emu", group="col", corpus="column", cls="emu-geometry"),
    R("_Column.width[1]", "table", SP + ".table.columns[1]", emu(0, HALF // 4), "emu", group="col", cls="emu-geometry"),
    R("_Row.height", "table", SP + ".table.rows[0]", emu(0, HALF // 4), "emu", group="row", corpus="row", cls="emu-geometry"),
    R("Presentation.slide_width", "prs", "prs", ints(914400, 51206400, False, (9144000, 12192000)), "emu", group="prs", solo=True, corpus="prs", cls="emu-geometry"),
    R("Presentation.slide_height", "prs", "prs", ints(914400, 51206400, False, (6858000, 5143500)), "emu", group="prs", solo=True, corpus="prs", cls="emu-geometry"),
    R("Presentation.slide_width@no-sldSz", "prs_without_sldSz", "prs", ints(914400, 51206400, False, (9144000, 12192000)), "emu", group="prsnosz", solo=True, cls="emu-geometry", initial_may_raise=True),
    R("Presentation.slide_height@no-sldSz", "prs_without_sldSz", "prs", ints(914400, 51206400, False, (6858000, 5143500)), "emu", group="prsnosz", solo=True, cls="emu-geometry", initial_may_raise=True),
    R("LineFormat.width", "autoshape", SP + ".line", emu(0, 20116800, interior=(0, 1, 12700, 9525, 25400), none=True), "emu", none=0, group="line", corpus="line", cls="emu-geometry"),
    # ---- insets ---------------------------------------------------------------------------------------------
    R("TextFrame.margin_left", "textbox", TF, emu(*I32, interior=(0, 1, 91440, 45720, 914400)), "emu", group="tf", corpus="textframe", cls="inset"),
    R("TextFrame.margin_top", "textbox", TF, emu(*I32, interior=(0, 1, 91440, 45720, 914400)), "emu", group="tf", corpus="textframe", cls="inset"),
    R("TextFrame.margin_right", "textbox", TF, emu(*I32, interior=(0, 1, 91440, 45720, 914400)), "emu", group="tf", corpus="textframe", cls="inset"),
    R("TextFrame.margin_bottom", "textbox", TF, emu(*I32, interior=(0, 1, 91440, 45720, 914400)), "emu", group="tf", corpus="textframe", cls="inset"),
    R("_Cell.margin_left", "table", SP + ".table.cell(0, 0)", emu(*I32, interior=(0, 1, 91440, 45720), none=True), "emu", none=91440, group="cell", corpus="cell", cls="inset"),
    R("_Cell.margin_right", "table", SP + ".table.cell(0, 0)", emu(*I32, interior=(0, 1, 91440, 45720), none=True), "emu", none=91440, group="cell", corpus="cell", cls="inset"),
    R("_Cell.margin_top", "table", SP + ".table.cell(0, 0)", emu(*I32, interior=(0, 1, 91440, 45720), none=True), "emu", none=45720, group="cell", corpus="cell", cls="inset"),
    R("_Cell.margin_bottom", "table", SP + ".table.cell(0, 0)", emu(*I32, interior=(0, 1, 91440, 45720), none=True), "emu", none=45720, group="cell", corpus="cell", cls="inset"),
    # ---- angles ---------------------------------------------------------------------------------------------
    R("FillFormat.gradient_angle", "gradient", SP + ".fill", angles(none=True), "angle", none=None, covers=[("_GradFill", "gradient_angle")], group="grad", cls="angle"),
    # ---- font size / spacing --------------------------------------------------------------------------------
    R("Font.size", "textbox", FONT, centipoint_emu(12700, 50800000), "cpt", none=None, group="font", corpus="font", cls="centipoint"),
    R("_Paragraph.space_before", "textbox", PARA, centipoint_emu(0, 20116800), "cpt", none=None, group="para", corpus="paragraph", cls="centipoint"),
    R("_Paragraph.space_after", "textbox", PARA, centipoint_emu(0, 20116800), "cpt", none=None, group="para", corpus="paragraph", cls="centipoint"),
    R("_Paragraph.line_spacing", "textbox", PARA, line_spacing_vals, "lsp", none=None, group="para", corpus="paragraph", cls="centipoint"),
    # ---- fractions ------------------------------------------------------------------------------------------
    R("_BasePicture.crop_left", "picture", SP, fracs(-21474.83648, 21474.83647, False), "frac", group="geom", corpus="picture", cls="fraction"),
    R("_BasePicture.crop_right", "picture", SP, fracs(-21474.83648, 21474.83647, False), "frac", group="geom", corpus="picture", cls="fraction"),
    R("_BasePicture.crop_top", "picture", SP, fracs(-21474.83648, 21474.83647, False), "frac", group="geom", corpus="picture", cls="fraction"),
    R("_BasePicture.crop_bottom", "picture", SP, fracs(-21474.83648, 21474.83647, False), "frac", group="geom", corpus="picture", cls="fraction"),
    R("_GradientStop.position", "gradient", SP + ".fill.gradient_stops[0]", fracs(0.0, 1.0, True), "frac", group="grad", cls="fraction"),
    R("_GradientStop.position[1]", "gradient", SP + ".fill.gradient_stops[1]", fracs(0.0, 1.0, True), "frac", group="grad", cls="fraction"),
    R("ColorFormat.brightness", "solid", SP + ".fill.fore_color", fracs(-1.0, 1.0, True), "frac", covers=[("_Color", "brightness")], group="color", cls="fraction"),
    R("ColorFormat.brightness@theme", "theme", SP + ".fill.fore_color", fracs(-1.0, 1.0, True), "frac", cls="fraction"),
    R("ColorFormat.brightness@transforms-twice", "theme_twice", SP + ".fill.fore_color", fracs(-1.0, 1.0, True), "frac", cls="fraction"),
    R("Adjustment.effective_value", "autoshape", SP, fracs(-1e6, 1e6, False, span=(-2.0, 3.0)), "frac", group="adj", corpus="adjustable", cls="fraction",
      get=lambda sp: sp.adjustments[0], set=lambda sp, v: sp.adjustments.__setitem__(0, v)),
    R("Adjustment.effective_value@arrow", "arrow", SP, fracs(-1e6, 1e6, False, span=(-2.0, 3.0)), "frac", group="adj", cls="fraction",
      get=lambda sp: sp.adjustments[0], set=lambda sp, v: sp.adjustments.__setitem__(0, v)),
    R("Adjustment.effective_value[1]", "arrow", SP, fracs(-1e6, 1e6, False, span=(-2.0, 3.0)), "frac", group="adj", cls="fraction",
      get=lambda sp: sp.adjustments[1], set=lambda sp, v: sp.adjustments.__setitem__(1, v)),
    R("Legend.horz_offset", "bar_chart", CH + ".legend", fracs(-1.0, 1.0, True, q=1e-7), "float", group="legend", corpus="legend", cls="fraction"),
    R("Legend.horz_offset@dragged", "legend_dragged", CH + ".legend", fracs(-1.0, 1.0, True, q=1e-7), "float", cls="fraction"),
    R("_BaseAxis.maximum_scale", "bar_chart", CH + ".value_axis", doubles(), "float", none=None, group="vax", corpus="value_axis", cls="double"),
    R("_BaseAxis.minimum_scale", "bar_chart", CH + ".value_axis", doubles(), "float", none=None, group="vax", corpus="value_axis", cls="double"),
    R("_BaseAxis.maximum_scale@xy", "xy_chart", CH + ".category_axis", doubles(), "float", none=None, group="xax", cls="double"),
    R("_BaseAxis.minimum_scale@xy", "xy_chart", CH + ".category_axis", doubles(), "float", none=None, group="xax", cls="double"),
    R("ValueAxis.major_unit", "bar_chart", CH + ".value_axis", doubles(positive=True), "float", none=None, group="vax", corpus="value_axis", cls="double"),
    R("ValueAxis.minor_unit", "bar_chart", CH + ".value_axis", doubles(positive=True), "float", none=None, group="vax", corpus="value_axis", cls="double"),
    R("ValueAxis.crosses_at", "bar_chart", CH + ".value_axis", doubles(), "float", none=None, group="vax", corpus="value_axis", cls="double", couples=_crosses_at_couple),
    # ---- small integers -------------------------------------------------------------------------------------
    R("_Paragraph.level", "textbox", PARA, ints(0, 8, True, (4,)), group="para", corpus="paragraph", cls="small-int"),
    R("BarPlot.gap_width", "bar_chart", PLOT, ints(0, 500, False, (150, 100, 151)), group="plot", corpus="barplot", cls="small-int"),
    R("BarPlot.overlap", "bar_chart", PLOT, ints(-100, 100, True, (0, 1, -1, 50)), group="plot", corpus="barplot", cls="small-int"),
    R("BarPlot.overlap@stacked", "bar_stacked", PLOT, ints(-100, 100, True, (0, 1, -1, 50, 100)), group="plot-stacked", cls="small-int"),
    R("BarPlot.gap_width@stacked", "bar_stacked", PLOT, ints(0, 500, False, (150, 100, 0)), group="plot-stacked", cls="small-int"),
    R("BarPlot.overlap@stacked100", "bar_stacked_100", PLOT, ints(-100, 100, True, (0, 100, -100)), group="plot-stacked100", cls="small-int"),
    R("BubblePlot.bubble_scale", "bubble_chart", PLOT, ints(0, 300, True, (100, 99, 101), none=True), none=100, group="plot", corpus="bubbleplot", cls="small-int"),
    R("Marker.size", "line_chart", SER + ".marker", ints(2, 72, True, (9, 7), none=True), none=None, group="marker", corpus="marker", cls="small-int"),
    # the same properties on a single POINT of a series (c:dPt, found by its c:idx)
    R("Marker.size@point", "line_chart", SER + ".points[1].marker", ints(2, 72, True, (9, 7), none=True), none=None, group="pmarker", cls="small-int"),
    R("LineFormat.width@point", "bar_chart", SER + ".points[1].format.line", emu(0, 20116800, interior=(0, 1, 12700, 9525, 25400), none=True), "emu", none=0, group="pline", cls="emu-geometry"),
    R("Chart.chart_style", "bar_chart", CH, ints(1, 48, True, (2, 10), none=True), none=None, group="chart", corpus="chart", cls="small-int"),
    R("TickLabels.offset", "bar_chart", CH + ".category_axis.tick_labels", ints(0, 1000, True, (100, 99, 101, 500)), group="ticks", corpus="cat_ticks", cls="small-int"),
    # ---- booleans / tri-states ------------------------------------------------------------------------------
    R("Font.bold", "textbox", FONT, bools(none=True), none=None, group="font", corpus="font", cls="boolean"),
    R("Font.italic", "textbox", FONT, bools(none=True), none=None, group="font", corpus="font", cls="boolean"),
    R("TextFrame.word_wrap", "textbox", TF, bools(none=True, strict=True), none=None, group="tf", corpus="textframe", cls="boolean"),
    R("Table.first_row", "table", SP + ".table", bools(), group="tbl", corpus="table", cls="boolean"),
    R("Table.first_col", "table", SP + ".table", bools(), group="tbl", corpus="table", cls="boolean"),
    R("Table.last_row", "table", SP + ".table", bools(), group="tbl", corpus="table", cls="boolean"),
    R("Table.last_col", "table", SP + ".table", bools(), group="tbl", corpus="table", cls="boolean"),
    R("Table.horz_banding", "table", SP + ".table", bools(), group="tbl", corpus="table", cls="boolean"),
    R("Table.vert_banding", "table", SP + ".table", bools(), group="tbl", corpus="table", cls="boolean"),
    R("DataLabels.show_value", "bar_labels", PLOT + ".data_labels", bools(), group="dl", corpus="datalabels", cls="boolean"),
    R("DataLabels.show_category_name", "bar_labels", PLOT + ".data_labels", bools(), group="dl", corpus="datalabels", cls="boolean"),
    R("DataLabels.show_series_name", "bar_labels", PLOT + ".data_labels", bools(), group="dl", corpus="datalabels", cls="boolean"),
    R("DataLabels.show_legend_key", "bar_labels", PLOT + ".data_labels", bools(), group="dl", corpus="datalabels", cls="boolean"),
    R("DataLabels.show_percentage", "bar_labels", PLOT + ".data_labels", bools(), group="dl", corpus="datalabels", cls="boolean"),
    R("DataLabels.number_format_is_linked", "bar_labels", PLOT + ".data_labels", bools(), group="dl", corpus="datalabels", cls="boolean"),
    R("TickLabels.number_format_is_linked", "bar_chart", CH + ".category_axis.tick_labels", bools(), group="ticks", corpus="cat_ticks", cls="boolean"),
    R("Chart.has_legend", "bar_chart", CH, bools(), group="chart", corpus="chart", cls="boolean"),
    R("Chart.has_title", "bar_chart", CH, bools(), group="chart", corpus="chart", cls="boolean"),
    R("ChartTitle.has_text_frame", "bar_chart", CH + ".chart_title", bools(), group="title", cls="boolean"),
    R("_BaseAxis.has_title", "bar_chart", CH + ".value_axis", bools(), group="vax", corpus="value_axis", cls="boolean"),
    R("AxisTitle.has_text_frame", "bar_chart", CH + ".value_axis.axis_title", bools(), group="atitle", cls="boolean"),
    R("_BaseAxis.has_major_gridlines", "bar_chart", CH + ".value_axis", bools(), group="vax", corpus="value_axis", cls="boolean"),
    R("_BaseAxis.has_minor_gridlines", "bar_chart", CH + ".value_axis", bools(), group="vax", corpus="value_axis", cls="boolean"),
    R("_BaseAxis.reverse_order", "bar_chart", CH + ".value_axis", bools(), group="vax", corpus="value_axis", cls="boolean"),
    R("_BaseAxis.visible", "bar_chart", CH + ".value_axis", bools(strict=True), group="vax", corpus="value_axis", cls="boolean"),
    R("_BaseAxis.has_title@cat", "bar_chart", CH + ".category_axis", bools(), group="cax", corpus="category_axis", cls="boolean"),
    R("_BaseAxis.has_major_gridlines@cat", "bar_chart", CH + ".category_axis", bools(), group="cax", corpus="category_axis", cls="boolean"),
    R("_BaseAxis.has_minor_gridlines@cat", "bar_chart", CH + ".category_axis", bools(), group="cax", corpus="category_axis", cls="boolean"),
    R("_BaseAxis.reverse_order@cat", "bar_chart", CH + ".category_axis", bools(), group="cax", corpus="category_axis", cls="boolean"),
    R("_BaseAxis.visible@cat", "bar_chart", CH + ".category_axis", bools(strict=True), group="cax", corpus="category_axis", cls="boolean"),
    R("_BasePlot.has_data_labels", "bar_chart", PLOT, bools(), group="plot", corpus="plot", cls="boolean"),
    R("_BasePlot.vary_by_categories", "bar_chart", PLOT, bools(), group="plot", corpus="plot", cls="boolean"),
    R("_BasePlot.vary_by_categories@pie", "pie_chart", PLOT, bools(), group="plot", cls="boolean"),
    # the same two switches on the plots of the other chart families python-pptx creates (each has its own element class)
    R("_BasePlot.has_data_labels@xy", "xy_chart", PLOT, bools(), group="plotxy", cls="boolean"),
    R("_BasePlot.vary_by_categories@xy", "xy_chart", PLOT, bools(), group="plotxy", cls="boolean"),
    R("_BasePlot.has_data_labels@bubble", "bubble_chart", PLOT, bools(), group="plotbub", cls="boolean"),
    R("_BasePlot.vary_by_categories@bubble", "bubble_chart", PLOT, bools(), group="plotbub", cls="boolean"),
    R("_BasePlot.has_data_labels@line", "line_chart", PLOT, bools(), group="plotline", cls="boolean"),
    R("_BasePlot.vary_by_categories@line", "line_chart", PLOT, bools(), group="plotline", cls="boolean"),
    R("_BasePlot.has_data_labels@pie", "pie_chart", PLOT, bools(), group="plotpie", cls="boolean"),
    R("BarSeries.invert_if_negative", "bar_chart", SER, bools(), group="ser", corpus="barseries", cls="boolean"),
    R("LineSeries.smooth", "line_chart", SER, bools(), group="ser", corpus="lineseries", cls="boolean"),
    R("DataLabel.has_text_frame", "bar_chart", SER + ".points[0].data_label", bools(), group="pdl", corpus="point_label", cls="boolean"),
    R("Legend.include_in_layout", "bar_chart", CH + ".legend", bools(none=True), none=True, group="legend", corpus="legend", cls="boolean"),
    R("ShadowFormat.inherit", "autoshape", SP + ".shadow", bools(), group="shadow", corpus="shadow", cls="boolean"),
    R("_BaseShapes.turbo_add_enabled", "autoshape", "s.shapes", bools(), persist=False, cls="boolean"),
    # ---- enumerations ---------------------------------------------------------------------------------------
    R("_Paragraph.alignment", "textbox", PARA, enums(PP_ALIGN, none=True), none=None, group="para", corpus="paragraph", cls="enumeration"),
    R("Font.underline", "textbox", FONT, underline_vals, none=None, expect=_underline_expect, group="font", corpus="font", cls="enumeration"),
    R("Font.language_id", "textbox", FONT, enums(MSO_LANGUAGE_ID, none=True, ok_without_xml=(MSO_LANGUAGE_ID.NONE,)), none=MSO_LANGUAGE_ID.NONE, group="font", corpus="font", cls="enumeration"),
    R("TextFrame.vertical_anchor", "textbox", TF, enums(MSO_ANCHOR, none=True), none=None, group="tf", corpus="textframe", cls="enumeration"),
    R("_Cell.vertical_anchor", "table", SP + ".table.cell(0, 0)", enums(MSO_ANCHOR, none=True), none=None, group="cell", corpus="cell", cls="enumeration"),
    R("TextFrame.auto_size", "textbox", TF, autosize_vals, none=None, group="tf", corpus="textframe", cls="enumeration"),
    R("LineFormat.dash_style", "autoshape", SP + ".line", enums(MSO_LINE, none=True), none=None, group="line", corpus="line", cls="enumeration"),
    R("FillFormat.pattern", "patterned", SP + ".fill", enums(MSO_PATTERN, none=True), none=None, covers=[("_PattFill", "pattern")], group="patt", cls="enumeration"),
    R("ColorFormat.theme_color", "solid", SP + ".fill.fore_color", enums(MSO_THEME_COLOR), covers=[("_SchemeColor", "theme_color")], get=_safe_color_get("theme_color"),
      group="color", couples=_theme_couple, prime=NOPRIME, cls="enumeration"),
    R("_BaseAxis.major_tick_mark", "bar_chart", CH + ".value_axis", enums(XL_TICK_MARK), group="vax", corpus="value_axis", cls="enumeration"),
    R("_BaseAxis.minor_tick_mark", "bar_chart", CH + ".value_axis", enums(XL_TICK_MARK), group="vax", corpus="value_axis", cls="enumeration"),
    R("_BaseAxis.tick_label_position", "bar_chart", CH + ".value_axis", enums(XL_TICK_LABEL_POSITION), group="vax", corpus="value_axis", cls="enumeration"),
    R("_BaseAxis.major_tick_mark@cat", "bar_chart", CH + ".category_axis", enums(XL_TICK_MARK), group="cax", corpus="category_axis", cls="enumeration"),
    R("_BaseAxis.minor_tick_mark@cat", "bar_chart", CH + ".category_axis", enums(XL_TICK_MARK), group="cax", corpus="category_axis", cls="enumeration"),
    R("_BaseAxis.tick_label_position@cat", "bar_chart", CH + ".category_axis", enums(XL_TICK_LABEL_POSITION), group="cax", corpus="category_axis", cls="enumeration"),
    R("ValueAxis.crosses", "bar_chart", CH + ".value_axis", enums(XL_AXIS_CROSSES, ok_without_xml=(XL_AXIS_CROSSES.CUSTOM,)), group="vax", corpus="value_axis", couples=_crosses_couple, cls="enumeration"),
    R("Legend.position", "bar_chart", CH + ".legend", enums(XL_LEGEND_POSITION), group="legend", corpus="legend", cls="enumeration"),
    R("DataLabels.position", "bar_labels", PLOT + ".data_labels", enums(XL_LABEL_POSITION, none=True), none=None, group="dl", corpus="datalabels", cls="enumeration"),
    R("DataLabel.position", "bar_chart", SER + ".points[0].data_label", enums(XL_LABEL_POSITION, none=True), none=None, group="pdl", corpus="point_label", cls="enumeration"),
    R("Marker.style", "line_chart", SER + ".marker", enums(XL_MARKER_STYLE, none=True), none=None, group="marker", corpus="marker", cls="enumeration"),
    R("Picture.auto_shape_type", "picture", SP, enums(MSO_SHAPE), group="geom", corpus="picture", cls="enumeration"),
    # ---- strings --------------------------------------------------------------------------------------------
    R("_BaseSlide.name", "autoshape", "s", strings(none=True), none="", group="slide", corpus="slide", cls="string"),
    R("Font.name", "textbox", FONT, strings(none=True, empty="undoc-empty"), none=None, group="font", corpus="font", cls="string"),
    R("TickLabels.number_format", "bar_chart", CH + ".category_axis.tick_labels", strings(kind="numfmt"), group="ticks", corpus="cat_ticks", couples=_numfmt_couple("TickLabels.number_format_is_linked"), cls="string"),
    R("DataLabels.number_format", "bar_labels", PLOT + ".data_labels", strings(kind="numfmt"), group="dl", corpus="datalabels", couples=_numfmt_couple("DataLabels.number_format_is_linked"), cls="string"),
    R("Hyperlink.address", "autoshape", SP + ".click_action.hyperlink", strings(none=True, kind="url"), none=None, group="click", corpus="click", cls="string"),
    R("_Hyperlink.address", "textbox", TF + ".paragraphs[0].runs[0].hyperlink", strings(none=True, kind="url"), none=None, group="hlink", corpus="run_hlink", cls="string"),
    # ... on a run that carries one of PowerPoint's action links (r:id="" and an action verb: no relationship, no URL)
    R("_Hyperlink.address@action-run", "textbox_action_run", TF + ".paragraphs[0].runs[0].hyperlink", strings(none=True, kind="url"), none=None, group="hlinkact", cls="string"),
    # ---- colours --------------------------------------------------------------------------------------------
    R("ColorFormat.rgb", "solid", SP + ".fill.fore_color", colours, covers=[("_SRgbColor", "rgb")], get=_safe_color_get("rgb"), group="color", couples=_rgb_couple, cls="colour"),
    R("ColorFormat.rgb@font", "textbox", FONT + ".color", colours, get=_safe_color_get("rgb"), cls="colour", prime=NOPRIME),
    R("ColorFormat.rgb@line", "autoshape", SP + ".line.color", colours, get=_safe_color_get("rgb"), cls="colour", prime=NOPRIME),
    # ---- object-valued --------------------------------------------------------------------------------------
    R("ActionSetting.target_slide", "autoshape", SP + ".click_action", slide_refs, none=None, get=_get_target, set=_set_target, group="jump", corpus="clickaction", cls="object"),
]
# placeholder rows: reading on the fresh object (no directly-applied value) is the layout placeholder's -- checked as the initial reading
INHERITED_INITIAL = {"_InheritsDimensions.%s" % a: _layout_value(a) for a in ("left", "top", "width", "height")}

# read/write properties that belong to another property's check: (class, attribute) -> owner
EXEMPT = {}
for _c, _a in (("Shape", "text"), ("_Cell", "text"), ("TextFrame", "text"), ("_Paragraph", "text"), ("_Run", "text")):
    EXEMPT[(_c, _a)] = "C04 (text assigned is the text read back)"
for _a in ("author", "category", "comments", "content_status", "created", "identifier", "keywords", "language", "last_modified_by", "last_printed", "modified", "revision", "subject", "title", "version"):
    EXEMPT[("CorePropertiesPart", _a)] = "C18 (core document properties)"
EXEMPT[("Categories", "number_format")] = "C07 (chart data given to the writer; not part of a presentation's object model)"
EXEMPT[("CategoryChartData", "categories")] = "C07 (chart data given to the writer)"
EXEMPT[("ChartWorkbook", "xlsx_part")] = "C08 (internal: embedded workbook part of a chart)"


# ------------------------------------------------------------------- corpus walker: objects of the owning classes
def _quiet(f, default=False):
    try:
        return f()
    except Exception:  # noqa - the walker only inspects; what it cannot inspect it does not offer
        return default


def kinds_of(sh, p, prs):
    """(kind, path) pairs of the table's owning classes reachable from one shape; inspects without assigning."""
    from pptx.chart.plot import BarPlot, BubblePlot, LinePlot, RadarPlot, XyPlot
    from pptx.shapes.autoshape import Shape
    from pptx.shapes.connector import Connector
    from pptx.shapes.group import GroupShape
    from pptx.shapes.picture import Picture
    from pptx.shapes.placeholder import _InheritsDimensions

    if sh.is_placeholder and isinstance(sh, _InheritsDimensions):
        yield "placeholder", p
    elif not sh.is_placeholder:
        yield "shape", p
        yield "rotatable", p
    if isinstance(sh, Picture):
        yield "picture", p
    if isinstance(sh, Connector):
        yield "connector", p
    if isinstance(sh, (Shape, Picture)):
        yield "shadow", p + ".shadow"
        yield "click", p + ".click_action.hyperlink"
        if len(prs.slides) >= 2:
            yield "clickaction", p + ".click_action"
    if isinstance(sh, Shape):
        yield "line", p + ".line"
        if len(sh.adjustments):
            yield "adjustable", p
    if isinstance(sh, GroupShape):
        for j, ch in enumerate(sh.shapes):
            yield from kinds_of(ch, "%s.shapes[%d]" % (p, j), prs)
    if getattr(sh, "has_text_frame", False):
        yield "textframe", p + ".text_frame"
        for k, para in enumerate(sh.text_frame.paragraphs[:3]):
            pp = "%s.text_frame.paragraphs[%d]" % (p, k)
            yield "paragraph", pp
            for m in range(min(2, len(para.runs))):
                yield "font", "%s.runs[%d].font" % (pp, m)
                yield "run_hlink", "%s.runs[%d].hyperlink" % (pp, m)
    if getattr(sh, "has_table", False):
        tp = p + ".table"
        for kind, sub in (("table", ""), ("cell", ".cell(0, 0)"), ("column", ".columns[0]"), ("row", ".rows[0]")):
            yield kind, tp + sub
    if getattr(sh, "has_chart", False):
        cp = p + ".chart"
        ch = sh.chart
        yield "chart", cp
        for name in ("value_axis", "category_axis"):
            try:
                ax = getattr(ch, name)
            except ValueError:
                continue
            yield name, "%s.%s" % (cp, name)
            if name == "category_axis" and ax._element.tag.endswith("}catAx"):
                yield "cat_ticks", cp + ".category_axis.tick_labels"
        if ch.has_legend:
            yield "legend", cp + ".legend"
        if len(ch.plots):
            pl, plp = ch.plots[0], cp + ".plots[0]"
            yield "plot", plp
            if _quiet(lambda: pl.has_data_labels):      # (Area3DPlot.has_data_labels raises AttributeError: element class lacks dLbls)
                yield "datalabels", plp + ".data_labels"
            if isinstance(pl, BubblePlot):
                yield "bubbleplot", plp
            if _quiet(lambda: len(pl.series)):
                sp = plp + ".series[0]"
                if isinstance(pl, BarPlot):
                    yield "barplot", plp
                    yield "barseries", sp
                if isinstance(pl, LinePlot):
                    yield "lineseries", sp
                if isinstance(pl, (LinePlot, XyPlot, RadarPlot)) and not isinstance(pl, BubblePlot):
                    yield "marker", sp + ".marker"
                if isinstance(pl, (BarPlot, LinePlot)) and _quiet(lambda: len(pl.categories)):
                    yield "point_label", sp + ".points[0].data_label"
