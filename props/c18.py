"""C18 — core document properties round-trip and stay valid.

Every check is a *history*: open a deck (default template, the template or a corpus deck with its
core-properties part removed, a corpus deck), apply a list of assignments to the 15 properties of
`prs.core_properties`, save/re-open 1..3 times.  A dict-of-last-values model written from the
property text decides the getters (immediately and after every re-open); the bytes of the core
part taken from the saved zip (plain zipfile + lxml) decide validity: OPC core-properties schema
(libxml2), the OPC Part 2 xsi:type rule, and the text of the element each property is defined to
live in (table below, transcribed from OPC Part 2, not from python-pptx).  Reading: hand-built,
schema-checked core.xml documents with every W3CDTF granularity x time-zone designator are put
into a copy of the template and read through the three date getters; the expected UTC instant is
computed with datetime.timezone.
"""
from __future__ import annotations

import datetime as dt
import io
import os
import re
import zipfile
from collections import Counter

from lxml import etree

ID = "C18"
LEVEL = "exploration"
EXHAUSTIVE = False
RULE = (
    "case = one (property, value) assignment inside a history, or one (date property, W3CDTF text) read from a hand-built "
    "part. Strings are drawn per class (empty, whitespace-only/-edged, markup metacharacters, ']]>', non-BMP, combining, "
    "end-of-line characters, exact lengths 254/255, random 0..255; 256+ must be rejected) over the XML Char production; "
    "datetimes per class (years 1..999, 1000..9999, microseconds, 23:59:59, month ends, leap days); revision over positive "
    "ints up to 10**30 and rejected values (0, negatives, str, float, None, bool). W3CDTF texts = granularity x TZD "
    "(Z, every hour -14..+14 with :00/:30/:45 (thorough: :15 too)) x base instants that cross day/month/year boundaries. "
    "Non-trivial: any assignment of a non-empty value or an expected rejection; distinct by (property, value)."
)
ASSUMPTIONS = [
    "libxml2 + the shipped opc-coreProperties.xsd with local transcriptions of dc.xsd/dcterms.xsd decide schema validity",
    "dates are naive datetimes meaning UTC (docs/api/presentation.rst); a tz-aware datetime must be accepted, persist and leave "
    "the part valid, and may read back as its wall-clock fields or as the equivalent UTC time (not stated: both taken); a non-str "
    "value for a string property is an 'other value' and must raise ValueError (the code coerces with str(): open finding)",
    "a hand-built date text the schema rejects (hh:mm without seconds is not an xsd:dateTime) is never held against the reader",
    "bool for revision: ValueError or stored as 1 are both accepted, anything else is a violation",
    "default-part values are those of CorePropertiesPart.default (title, last_modified_by, revision, modified ~ now)",
]
WATCHDOG_S = {"quick": 600, "thorough": 3600}

CP = "http://schemas.openxmlformats.org/package/2006/metadata/core-properties"
DC = "http://purl.org/dc/elements/1.1/"
DCT = "http://purl.org/dc/terms/"
XSI = "http://www.w3.org/2001/XMLSchema-instance"
CT_CORE = "application/vnd.openxmlformats-package.core-properties+xml"
RT_CORE = "http://schemas.openxmlformats.org/package/2006/relationships/metadata/core-properties"
RT_CORE_ALT = "http://schemas.openxmlformats.org/officedocument/2006/relationships/metadata/core-properties"
# property -> element it is stored in (OPC Part 2 core properties; author/comments are the UI names of creator/description)
ELEMENT = {
    "author": (DC, "creator"), "category": (CP, "category"), "comments": (DC, "description"),
    "content_status": (CP, "contentStatus"), "created": (DCT, "created"), "identifier": (DC, "identifier"),
    "keywords": (CP, "keywords"), "language": (DC, "language"), "last_modified_by": (CP, "lastModifiedBy"),
    "last_printed": (CP, "lastPrinted"), "modified": (DCT, "modified"), "revision": (CP, "revision"),
    "subject": (DC, "subject"), "title": (DC, "title"), "version": (CP, "version"),
}
DATES = ("created", "last_printed", "modified")
NAMES = sorted(ELEMENT)
STRINGS = [n for n in NAMES if n not in DATES and n != "revision"]
DEFAULTS = {"title": "PowerPoint Presentation", "last_modified_by": "python-pptx", "revision": 1}


def kind_of(name):
    return "date" if name in DATES else "revision" if name == "revision" else "string"


# ---------------------------------------------------------------- values <-> JSON
def enc(v):
    if isinstance(v, dt.datetime):
        return {"dt": v.isoformat()}
    if isinstance(v, (dt.date, dt.time)):
        return {type(v).__name__: v.isoformat()}
    return v


def dec(j):
    if isinstance(j, dict):
        (k, s), = j.items()
        return {"dt": dt.datetime, "date": dt.date, "time": dt.time}[k].fromisoformat(s)
    return j


def domain(kind, v):
    """'accept' | 'aware' | 'reject' | 'bool' | 'unjudged' from the property text and the documentation.  'aware': a
    time-zone-aware datetime is "any datetime" and must be accepted, stay the same across save/re-open and leave the part valid;
    WHICH naive value it reads back as (its wall-clock fields or the equivalent UTC time) is not stated: either is taken."""
    if kind == "string":
        return "reject" if not isinstance(v, str) else "accept" if len(v) <= 255 else "reject"  # "other values raise ValueError"
    if kind == "date":
        if isinstance(v, dt.datetime):
            return "accept" if v.tzinfo is None else "aware"
        return "reject"
    if v is True:
        return "bool"
    return "accept" if type(v) is int and v >= 1 else "reject"


def vtype(v):
    if type(v) is int:
        return "zero" if v == 0 else "negative" if v < 0 else "int"
    return type(v).__name__


# ---------------------------------------------------------------- generators
MIXED = list("aZ09 _-.,;:/\\]\t\n\r&<>\"'") + list("\u00e9\u00a0\u0085\u2028\u0301\u200d\ufeff\ud7ff\ue000\ufffd\U00010000\U0001F600\U0010FFFF")
STR_CLASSES = ["empty", "ws-only", "ws-edges", "markup", "cdata-end", "nonbmp", "combining", "eol", "ascii", "len254", "len255", "random"]
LONG_CLASSES = ["len256", "len257", "long"]


def gen_string(r, cls):
    pick = lambda alph, n: "".join(r.choice(alph) for _ in range(n))  # noqa: E731
    if cls == "empty":
        return ""
    if cls == "ws-only":
        return pick(" \t\n\r", r.randint(1, 6))
    if cls == "ws-edges":
        return pick(" \t\n", r.randint(1, 3)) + pick("abc d", r.randint(1, 8)).strip() + "x" + pick(" \t\n", r.randint(1, 3))
    if cls == "markup":
        return r.choice(["&amp; &#10; &lt;", "<b a=\"1\" c='2'>&</b>", "<?pi?><!--c-->", "&"]) + pick("&<>\"'a ", r.randint(0, 12))
    if cls == "cdata-end":
        return r.choice(["]]>", "a]]>b", "<![CDATA[x]]>", "]]]]>>"]) + pick("]>a", r.randint(0, 6))
    if cls == "nonbmp":
        return pick("\U00010000\U0001F600\U0010FFFF\U00020000a", r.randint(1, 20))
    if cls == "combining":
        return r.choice(["e\u0301", "\u0301start", "a\u200db", "\ufeffbom", "\u0915\u094d\u0937"]) + pick("o\u0308\u0301n", r.randint(0, 8))
    if cls == "eol":
        return r.choice(["a\rb", "a\r\nb", "a\nb", "\r", "\u0085", "a\u2028b", "\r\n"]) + pick("\r\nx", r.randint(0, 5))
    if cls == "ascii":
        return pick("abcdefghij XYZ0123456789-_.", r.randint(1, 60))
    n = {"len254": 254, "len255": 255, "len256": 256, "len257": 257}.get(cls)
    if n is None:
        n = r.randint(258, 600) if cls == "long" else r.randint(0, 255)
    return pick(r.choice([MIXED, "a", " ", "&<", "\U0001F600", "e\u0301", "abc xyz"]), n)


FIXED_DATES = [
    ("year<1000", (1, 1, 1, 0, 0, 0)), ("year<1000", (9, 9, 9, 9, 9, 9)), ("year<1000", (99, 12, 31, 23, 59, 59)),
    ("year<1000", (999, 1, 2, 3, 4, 5)), ("year<1000", (476, 9, 4, 12, 0, 0)), ("year<1000", (4, 2, 29, 1, 1, 1)),
    ("year-1000..1899", (1000, 1, 1, 0, 0, 0)), ("year-1000..1899", (1899, 12, 31, 23, 59, 59)), ("modern", (1900, 1, 1, 0, 0, 0)),
    ("modern", (1969, 12, 31, 23, 59, 59)), ("modern", (1970, 1, 1, 0, 0, 0)), ("modern", (2038, 1, 19, 3, 14, 8)),
    ("year-9999", (9999, 12, 31, 23, 59, 59)), ("microsecond", (2020, 5, 17, 10, 20, 30, 1)), ("microsecond", (2020, 5, 17, 10, 20, 30, 999999)),
    ("microsecond", (2021, 12, 31, 23, 59, 59, 999999)), ("microsecond", (2020, 5, 17, 0, 0, 0, 500000)), ("leap-day", (2000, 2, 29, 0, 0, 0)),
    ("leap-day", (2024, 2, 29, 23, 59, 59)), ("leap-day", (1900, 2, 28, 23, 59, 59)), ("23:59:59", (2011, 11, 11, 23, 59, 59)),
] + [("month-end", (2023, m, [31, 28, 31, 30, 31, 30, 31, 31, 30, 31, 30, 31][m - 1], 23, 59, 59)) for m in range(1, 13)]
DATE_REJECTS = ["2020-01-01T00:00:00Z", "", 0, 1577836800, None, 1.5, dt.date(2020, 1, 1), dt.time(1, 2, 3)]
REV_OK = [1, 2, 3, 9, 10, 255, 256, 65535, 2**31 - 1, 2**31, 2**32, 2**63, 10**30]
REV_BAD = [0, -1, -(2**31), "1", "", "x", 1.0, 1.5, None, False, [1], True]


def gen_date(r, low_years=0.1):
    x = r.random()
    if x < low_years:
        y, cls = r.randint(1, 999), "year<1000"
    elif x < 0.3:
        y, cls = r.randint(1000, 1899), "year-1000..1899"
    else:
        y, cls = r.randint(1900, 9999), "modern"
    mo = r.randint(1, 12)
    d = r.randint(1, 28) if r.random() < 0.7 else [31, 29 if y % 4 == 0 and (y % 100 or y % 400 == 0) else 28, 31, 30, 31, 30, 31, 31, 30, 31, 30, 31][mo - 1]
    us = r.choice([0, 0, 1, 999999, r.randint(0, 999999)])
    h, mi, s = r.choice([(23, 59, 59), (0, 0, 0), (r.randint(0, 23), r.randint(0, 59), r.randint(0, 59))])
    return ("microsecond" if us and cls == "modern" else cls), dt.datetime(y, mo, d, h, mi, s, us)


def gen_step(r, name, bad=0.2):
    """-> ['set', name, encoded value, class]"""
    k = kind_of(name)
    if k == "string":
        cls = r.choice(LONG_CLASSES) if r.random() < bad else r.choice(STR_CLASSES)
        return ["set", name, gen_string(r, cls), "str:" + cls]
    if k == "date":
        if r.random() < bad:
            return ["set", name, enc(r.choice(DATE_REJECTS)), "dt:rejected"]
        cls, v = gen_date(r, 0.06)
        if r.random() < 0.15:  # time-zone-aware
            off = r.choice([0, 0, 330, -480, 840, -840, r.randint(-840, 840)])
            return ["set", name, enc(v.replace(tzinfo=dt.timezone(dt.timedelta(minutes=off)))), "dt:tz-aware"]
        return ["set", name, enc(v), "dt:" + cls]
    if r.random() < bad:
        return ["set", name, r.choice(REV_BAD[:-1] + [-r.randint(1, 10**6)]), "rev:rejected"]
    if r.random() < 0.03:
        return ["set", name, True, "rev:bool"]
    return ["set", name, r.choice(REV_OK + [r.randint(1, 10**6), r.randint(1, 10**12)]), "rev:positive"]


# ---------------------------------------------------------------- decks (plain zipfile + lxml)
_decks = {}


def _xml(root):
    return etree.tostring(root, xml_declaration=True, encoding="UTF-8", standalone=True)


def rewrite(pkg, replace):
    """Copy of zip `pkg` with members replaced ({name: bytes}) or dropped ({name: None})."""
    out = io.BytesIO()
    with zipfile.ZipFile(io.BytesIO(pkg)) as zi, zipfile.ZipFile(out, "w", zipfile.ZIP_STORED) as zo:
        for n in zi.namelist():
            if n not in replace:
                zo.writestr(n, zi.read(n))
        for n, b in replace.items():
            if b is not None:
                zo.writestr(n, b)
    return out.getvalue()


def find_core(pkg):
    """-> ({'name','blob','ctype'} | None, reason) by following the package relationship, independently."""
    from vlib.xsdkit import PLAIN

    with zipfile.ZipFile(io.BytesIO(pkg)) as z:
        names = set(z.namelist())
        rels = etree.fromstring(z.read("_rels/.rels"), PLAIN)
        # (the relationship type of the package conventions, or the ".../officedocument/..." spelling of ECMA-376 1st edition that
        # some producers still write; either way ONE relationship, to ONE part)
        tgt = [r.get("Target") for r in rels if isinstance(r.tag, str) and r.get("Type") == RT_CORE]
        if not tgt:  # (the standard type wins where a deck carries both, as tests/test_files/test_slides.pptx does)
            tgt = [r.get("Target") for r in rels if isinstance(r.tag, str) and r.get("Type") == RT_CORE_ALT]
        if len(tgt) != 1:
            return None, "relationship(%d)" % len(tgt)
        name = tgt[0].lstrip("/")
        if name not in names:
            return None, "member"
        cts = etree.fromstring(z.read("[Content_Types].xml"), PLAIN)
        ct = [o.get("ContentType") for o in cts if isinstance(o.tag, str) and (o.get("PartName") or "").lower() == "/" + name.lower()]
        return {"name": name, "blob": z.read(name), "ctype": ct[0] if ct else None}, "ok"


def strip_core(pkg):
    from vlib.xsdkit import PLAIN

    core, _ = find_core(pkg)
    if core is None:
        return pkg
    with zipfile.ZipFile(io.BytesIO(pkg)) as z:
        rels = etree.fromstring(z.read("_rels/.rels"), PLAIN)
        cts = etree.fromstring(z.read("[Content_Types].xml"), PLAIN)
    for r in list(rels):
        if isinstance(r.tag, str) and r.get("Type") == RT_CORE:
            rels.remove(r)
    for o in list(cts):
        if isinstance(o.tag, str) and (o.get("PartName") or "").lower() == "/" + core["name"].lower():
            cts.remove(o)
    return rewrite(pkg, {core["name"]: None, "_rels/.rels": _xml(rels), "[Content_Types].xml": _xml(cts)})


def deck_bytes(src):
    """src: 'default' | 'stripped' | 'corpus:<path under /repo>' | 'stripped:<path>'"""
    if src not in _decks:
        import pptx
        from vlib import env

        how, _, rel = src.partition(":")
        path = os.path.join(env.REPO, rel) if rel else os.path.join(os.path.dirname(pptx.__file__), "templates", "default.pptx")
        with open(path, "rb") as fh:
            b = fh.read()
        _decks[src] = {"stripped": strip_core, "reprefixed": reprefix_core, "altrel": retype_core_rel, "kwvalues": keywords_with_values}.get(how, lambda x: x)(b)
    return _decks[src]


def keywords_with_values(data):
    """The deck with per-language keywords in its core part: cp:keywords is the one core property the schema gives element
    content (mixed: text and cp:value children, each with xml:lang)."""
    import zipfile

    zin = zipfile.ZipFile(io.BytesIO(data))
    out = io.BytesIO()
    with zipfile.ZipFile(out, "w", zipfile.ZIP_DEFLATED) as zf:
        for n in zin.namelist():
            blob = zin.read(n)
            if n == "docProps/core.xml":
                root = etree.fromstring(blob)
                kw = root.find("{%s}keywords" % CP)
                if kw is None:
                    kw = etree.SubElement(root, "{%s}keywords" % CP)
                for c in list(kw):
                    kw.remove(c)
                kw.set("{http://www.w3.org/XML/1998/namespace}lang", "en-US")
                kw.text = "alpha"
                v = etree.SubElement(kw, "{%s}value" % CP)
                v.set("{http://www.w3.org/XML/1998/namespace}lang", "de-DE")
                v.text = "beta"
                v.tail = " gamma"
                blob = etree.tostring(root, xml_declaration=True, encoding="UTF-8", standalone=True)
            zf.writestr(n, blob)
    return out.getvalue()


def retype_core_rel(data):
    """The deck with its core-properties part related by the first-edition relationship type (RT_CORE_ALT)."""
    import zipfile

    zin = zipfile.ZipFile(io.BytesIO(data))
    if RT_CORE_ALT.encode() in zin.read("_rels/.rels"):
        return data  # (a deck that carries both types already, like tests/test_files/test_slides.pptx, stays as it is)
    out = io.BytesIO()
    with zipfile.ZipFile(out, "w", zipfile.ZIP_DEFLATED) as zf:
        for n in zin.namelist():
            blob = zin.read(n)
            if n == "_rels/.rels":
                blob = blob.replace(RT_CORE.encode(), RT_CORE_ALT.encode())
            zf.writestr(n, blob)
    return out.getvalue()


def reprefix_core(data):
    """The deck with the namespaces of its core-properties part bound to other prefixes (xmlns:dct, xmlns:d, xmlns:c: what another
    producer's serializer may choose; the same document)."""
    import zipfile

    zin = zipfile.ZipFile(io.BytesIO(data))
    out = io.BytesIO()
    with zipfile.ZipFile(out, "w", zipfile.ZIP_DEFLATED) as zf:
        for n in zin.namelist():
            blob = zin.read(n)
            if n == "docProps/core.xml":
                t = blob.decode("utf-8")
                for old_, new_ in (("dcterms", "dct"), ("dc", "d"), ("cp", "c")):
                    t = t.replace("xmlns:%s=" % old_, "xmlns:%s=" % new_).replace("<%s:" % old_, "<%s:" % new_).replace("</%s:" % old_, "</%s:" % new_).replace('"%s:W3CDTF"' % old_, '"%s:W3CDTF"' % new_)
                blob = t.encode("utf-8")
            zf.writestr(n, blob)
    return out.getvalue()


def corpus_srcs():
    from vlib import env

    return [os.path.relpath(p, env.REPO) for p in env.corpus_decks()]


# ---------------------------------------------------------------- independent oracles on the part
W3C = re.compile(r"^(\d{4})(?:-(\d\d)(?:-(\d\d)(?:T(\d\d):(\d\d)(?::(\d\d)(?:\.(\d+))?)?(Z|[+-]\d\d:\d\d))?)?)?$")


def w3c_instant(text):
    """W3CDTF text -> (naive UTC datetime truncated to the second, local naive datetime, offset) | None; may raise OverflowError"""
    m = W3C.match(text or "")
    if not m:
        return None
    y, mo, d, h, mi, s, _frac, tz = m.groups()
    local = dt.datetime(int(y), int(mo or 1), int(d or 1), int(h or 0), int(mi or 0), int(s or 0))
    off = dt.timedelta(0)
    if tz not in (None, "Z"):
        off = dt.timedelta(hours=int(tz[1:3]), minutes=int(tz[4:6])) * (1 if tz[0] == "+" else -1)
    utc = local.replace(tzinfo=dt.timezone(off)).astimezone(dt.timezone.utc).replace(tzinfo=None)
    return utc, local, off


def xsi_rule(root):
    """OPC Part 2 [M4.5]: xsi:type only, and always, on dcterms:created / dcterms:modified = dcterms:W3CDTF."""
    bad = []
    for el in root.iter():
        if not isinstance(el.tag, str):
            continue
        t = el.get("{%s}type" % XSI)
        is_cm = el.tag in ("{%s}created" % DCT, "{%s}modified" % DCT)
        if t is None:
            if is_cm:
                bad.append("missing on " + etree.QName(el).localname)
        else:
            pfx, _, local = t.rpartition(":")
            if not (is_cm and local == "W3CDTF" and el.nsmap.get(pfx or None) == DCT):
                bad.append("%r on %s" % (t, etree.QName(el).localname))
    return bad


def msg_class(m):
    return re.sub(r": '.*' is not", ": <value> is not", m)[:140]


class Baseline:
    def __init__(self, pkg):
        from vlib import xsdkit

        core, _ = find_core(pkg)
        self.errors, self.xsi_ok = Counter(), True
        if core is not None:
            errs, _ = xsdkit.validate_part(core["blob"])
            self.errors = errs or Counter()
            try:
                self.xsi_ok = not xsi_rule(etree.fromstring(core["blob"], xsdkit.PLAIN))
            except etree.XMLSyntaxError:
                self.xsi_ok = False


class State:
    def __init__(self, src):
        self.src, self.model, self.assigned, self.tainted, self.cls, self.raw = src, {}, set(), set(), {}, {}


def check_package(acc, pkg, st, base, wit):
    from vlib import xsdkit

    pre = "default-part-missing:" if st.src.startswith("stripped") else "core-part-missing:"
    with zipfile.ZipFile(io.BytesIO(pkg)) as z_:
        dup = sorted(n for n, c in Counter(z_.namelist()).items() if c > 1)
        nrel = sum(1 for r in etree.fromstring(z_.read("_rels/.rels"), xsdkit.PLAIN) if isinstance(r.tag, str) and r.get("Type") in (RT_CORE, RT_CORE_ALT))
    if dup:
        acc.violation("saved-duplicate-member", "saved package holds %s more than once (source %s)" % (dup[:3], st.src), wit)
    if nrel > 1 and not st.src.endswith("test_slides.pptx"):
        acc.violation("core-relationship-duplicated", "saved package relates %d core-properties parts (source %s)" % (nrel, st.src), wit)
    core, why = find_core(pkg)
    if core is None:
        acc.violation(pre + why.split("(")[0], "saved package has no usable core-properties part (%s), source %s" % (why, st.src), wit)
        return
    if core["ctype"] != CT_CORE:
        acc.violation(pre + "content-type", "/%s has content type %r" % (core["name"], core["ctype"]), wit)
    errs, _ = xsdkit.validate_part(core["blob"])
    acc.count("core_xml_validations")
    taint_locals = [":%s'" % ELEMENT[n][1] for n in st.tainted]
    for msg, n in (errs - base.errors).items():
        if any(t in msg for t in taint_locals):
            acc.count("schema_errors_consequence_of_reported_defect")
        else:
            acc.violation("core-xml-invalid:" + msg_class(msg), "docProps/core.xml after save: %s" % msg[:300], wit)
    root = etree.fromstring(core["blob"], xsdkit.PLAIN)
    bad = xsi_rule(root)
    acc.count("xsi_type_rule_checks")
    if bad and base.xsi_ok:
        acc.violation("xsi-type-rule", "xsi:type %s (must be dcterms:W3CDTF on exactly dcterms:created/modified)" % "; ".join(bad), wit)
    for name in sorted(st.assigned - st.tainted):
        els = root.findall("{%s}%s" % ELEMENT[name])
        text = (els[0].text or "") if len(els) == 1 and len(els[0]) == 0 else None
        want, k = st.model[name], kind_of(name)
        acc.count("element_texts_compared")
        if k == "string":
            ok = text == want or (want == "" and not els)
        elif k == "revision":
            ok = text is not None and re.fullmatch(r"[0-9]+", text) is not None and int(text) == want
        else:
            try:
                inst = w3c_instant(text)
            except OverflowError:
                inst = None
            ok = inst is not None and inst[0] == want
            if not ok and text and re.match(r"^\d{1,3}-", text):
                acc.violation("datetime-year-unpadded", "%s = %r written as %r (year not four digits)" % (name, want, text), wit)
                continue
        if not ok:
            acc.violation("wrong-element:%s" % k, "%s assigned %r but <%s> holds %r" % (name, want, ELEMENT[name][1], text), wit)


# ---------------------------------------------------------------- history runner
def read_all(acc, cp, tag, wit):
    out = {}
    for n in NAMES:
        try:
            out[n] = getattr(cp, n)
            acc.hit(tag + n)
        except Exception as e:  # noqa
            acc.violation("getter-raises:%s" % type(e).__name__, "%s getter raised %r" % (n, e), wit)
            return None
    return out


def judge(acc, st, name, got, phase, wit):
    want = st.model[name]
    if type(got) is type(want) and got == want:
        acc.count("readbacks_equal_" + phase)
        return
    k, raw, cls = kind_of(name), st.raw.get(name), st.cls.get(name, "initial")
    if name not in st.assigned:
        key = "unassigned-changed:" + k
    elif k == "string":
        key = "string-roundtrip:" + cls.split(":", 1)[-1]
    elif k == "revision":
        key = "revision-accepts:bool" if raw is True else "revision-roundtrip"
    else:
        key = "datetime-year-unpadded" if raw.year < 1000 and got is None else "datetime-roundtrip:" + cls.split(":", 1)[-1]
    acc.violation(key, "%s: assigned %r, expected %r, read %r %s" % (name, raw, want, got, phase.replace("_", " ")), wit)
    st.model[name] = got  # resynchronise: one report per cause
    st.tainted.add(name)


def apply_set(acc, part, st, name, value, cls, wit):
    k = kind_of(name)
    dom = domain(k, value)
    acc.case(desc={"p": name, "v": enc(value)}, nontrivial=value != "" or dom != "accept", cls=cls,
             sample={"property": name, "class": cls, "value": repr(value)[:60]})
    before = part.blob
    try:
        setattr(part, name, value)
        out = "ok"
    except ValueError:
        out = "ValueError"
    except Exception as e:  # noqa
        out = type(e).__name__
    acc.hit("set:" + name)
    if dom == "unjudged":
        acc.count("unjudged_%s_%s_%s" % (k, type(value).__name__, out))
        st.model[name] = getattr(part, name)
        st.tainted.add(name)
        return
    if dom == "reject" or (dom == "bool" and out != "ok"):
        if out == "ok":
            if k == "string":
                key = "len256-accepted" if isinstance(value, str) else "string-accepts-non-str:%s" % type(value).__name__
            else:
                key = "%s-accepts:%s" % ("datetime" if k == "date" else "revision", vtype(value))
            acc.violation(key, "%s = %s (%s) was accepted, reads back %r" % (name, repr(value)[:80], cls, getattr(part, name)), wit)
            st.model[name] = getattr(part, name)
            st.tainted.add(name)
            return
        if out != "ValueError":
            acc.violation("reject-wrong-exception:" + out, "%s = %s raised %s, not ValueError" % (name, repr(value)[:80], out), wit)
        acc.count("rejected_with_" + out)
        acc.hit("reject-len256" if k == "string" else "reject-" + k)
        if part.blob != before or getattr(part, name) != st.model[name]:
            acc.violation("rejected-call-changed-part", "%s = %s raised %s but the part changed" % (name, repr(value)[:80], out), wit)
        return
    if out != "ok":
        acc.violation("in-domain-rejected:%s" % cls, "%s = %s raised %s" % (name, repr(value)[:80], out), wit)
        return
    if dom == "aware":
        wall = value.replace(microsecond=0, tzinfo=None)
        try:
            utc = value.astimezone(dt.timezone.utc).replace(microsecond=0, tzinfo=None)
        except OverflowError:
            utc = wall
        got = getattr(part, name)
        acc.count("tz_aware_datetimes_assigned")
        value = utc if (got == utc and type(got) is dt.datetime and got.tzinfo is None) else wall
    st.model[name] = value.replace(microsecond=0) if k == "date" else 1 if value is True else value
    st.assigned.add(name)
    st.tainted.discard(name)
    st.cls[name], st.raw[name] = cls, value
    got = getattr(part, name)
    acc.hit("get:" + name)
    judge(acc, st, name, got, "immediately", wit)


def run_history(acc, src, steps):
    import pptx

    wit = {"kind": "history", "src": src, "steps": steps}
    pkg = deck_bytes(src)
    base = Baseline(pkg)
    prs = pptx.Presentation(io.BytesIO(pkg))
    st = State(src)
    t0 = dt.datetime.now(dt.timezone.utc).replace(tzinfo=None, microsecond=0)
    try:
        part = prs.core_properties
    except Exception as e:  # noqa
        acc.violation("default-part-missing:raises", "core_properties raised %r on %s" % (e, src), wit)
        return
    t1 = dt.datetime.now(dt.timezone.utc).replace(tzinfo=None)
    cur = read_all(acc, part, "get:", wit)
    if cur is None:
        return
    st.model = dict(cur)
    if find_core(pkg)[0] is None:  # package without core properties: the documented default part
        acc.hit("default-part")
        for n in NAMES:
            want = DEFAULTS.get(n, None if n in DATES else "")
            ok = (t0 <= cur[n] <= t1) if n == "modified" and isinstance(cur[n], dt.datetime) else (n != "modified" and cur[n] == want)
            if not ok:
                acc.violation("default-part-wrong:" + n, "default part on %s: %s is %r, expected %r" % (src, n, cur[n], want if n != "modified" else "now"), wit)
            else:
                acc.count("default_values_checked")
        if prs.core_properties is not part:
            acc.violation("default-part-not-cached", "second access of core_properties gave another part", wit)
        st.assigned = {"title", "last_modified_by", "revision", "modified"} & {n for n in NAMES if cur[n] not in (None, "")}
    for step in steps:
        if step[0] == "set":
            apply_set(acc, part, st, step[1], dec(step[2]), step[3], wit)
            continue
        buf = io.BytesIO()
        prs.save(buf)
        acc.count("saves")
        check_package(acc, buf.getvalue(), st, base, wit)
        prs = pptx.Presentation(io.BytesIO(buf.getvalue()))
        part = prs.core_properties
        acc.count("reopens")
        cur = read_all(acc, part, "get-after-reopen:", wit)
        if cur is None:
            return
        for n in NAMES:
            judge(acc, st, n, cur[n], "after_save_and_reopen", wit)


# ---------------------------------------------------------------- W3CDTF reading
GRANS = ["year", "month", "day", "minutes", "seconds", "fraction"]


def tzds(tier):
    out = ["Z"]
    for sign in "+-":
        for h in range(14):
            out += ["%s%02d:%02d" % (sign, h, m) for m in ((0, 30, 45) if tier == "quick" else (0, 15, 30, 45))]
        out.append(sign + "14:00")
    return out


def w3c_text(gran, b, tzd, frac):
    d = "%04d-%02d-%02d" % b[:3]
    if gran in ("year", "month", "day"):
        return d[: {"year": 4, "month": 7, "day": 10}[gran]]
    t = "T%02d:%02d" % b[3:5] + ("" if gran == "minutes" else ":%02d" % b[5]) + ("." + frac if gran == "fraction" else "")
    return d + t + tzd


def core_doc(values):
    x = ['<cp:coreProperties xmlns:cp="%s" xmlns:dc="%s" xmlns:dcterms="%s" xmlns:xsi="%s">' % (CP, DC, DCT, XSI)]
    for n, text in values.items():
        q = ("cp:" if ELEMENT[n][0] == CP else "dcterms:") + ELEMENT[n][1]
        x.append('<%s%s>%s</%s>' % (q, "" if n == "last_printed" else ' xsi:type="dcterms:W3CDTF"', text, q))
    return ("<?xml version='1.0' encoding='UTF-8' standalone='yes'?>\n" + "".join(x) + "</cp:coreProperties>").encode()


_valid = {}


def schema_valid(name, text):
    from vlib import xsdkit

    key = (name == "last_printed", text)
    if key not in _valid:
        errs, _ = xsdkit.validate_part(core_doc({name: text}))
        _valid[key] = errs is not None and not errs
    return _valid[key]


def read_w3c(acc, gran, text):
    import pptx

    wit = {"kind": "w3cdtf", "gran": gran, "text": text}
    # "complete date plus hours and minutes" is one of the six W3CDTF granularities (and the property says "every W3CDTF
    # granularity ... when reading"), although xs:dateTime, which the OPC schema uses for the time-bearing forms, needs seconds:
    # that one form is judged against the W3C note itself; every other text only where the schema accepts it
    props = [n for n in DATES if schema_valid(n, text) or (gran == "minutes" and W3C.match(text.strip()))]
    if gran == "minutes":
        acc.count("minute_granularity_texts_judged_by_the_w3c_note")
    acc.count("handbuilt_values_schema_checked", len(DATES))
    pkg = rewrite(deck_bytes("default"), {"docProps/core.xml": core_doc({n: text for n in (props or DATES)})})
    part = pptx.Presentation(io.BytesIO(pkg)).core_properties
    acc.count("handbuilt_documents_read")
    try:
        inst = w3c_instant(text.strip())
    except OverflowError:
        inst = "unrepresentable"
    for n in props or DATES:
        try:
            got = getattr(part, n)
        except Exception as e:  # noqa
            got = e
        if n not in props:  # the schema rejects this text for this element: recorded, never judged
            acc.count("handbuilt_values_rejected_by_schema:" + gran)
            d = acc.extra.setdefault("reader_outcome_on_schema_invalid_text", {})
            o = "%s:%s" % (gran, "raises" if isinstance(got, Exception) else "None" if got is None else "a datetime")
            d[o] = d.get(o, 0) + 1
            continue
        cls = "w3cdtf:%s%s" % (gran, "" if inst != "unrepresentable" else ":utc-out-of-range")
        acc.case(desc={"p": n, "w3cdtf": text}, nontrivial=True, cls=cls, sample={"property": n, "text": text, "read": repr(got)})
        acc.hit("w3cdtf-read:" + gran)
        acc.hit("get:" + n)
        if isinstance(got, Exception):
            acc.violation("w3cdtf-reader-raises:%s" % type(got).__name__, "%s of valid %r raised %r" % (n, text, got), wit)
            continue
        if inst == "unrepresentable":
            acc.count("utc_instant_outside_datetime_range_only_checked_for_not_raising")
            continue
        utc, local, off = inst
        if off:
            acc.hit("w3cdtf-offset")
        if got == utc and type(got) is dt.datetime and got.tzinfo is None:
            acc.count("w3cdtf_instants_equal")
            continue
        how = "unreadable" if got is None else "offset-ignored" if off and got == local else "offset-sign" if off and got == local + off else "wrong-instant"
        acc.violation("w3cdtf-%s:%s" % (how, gran), "%s of %r read as %r, equivalent UTC time is %s" % (n, text, got, utc), wit)


def w3c_cases(tier, seed):
    from vlib import env

    bases = [(2003, 12, 31, 23, 14, 55), (2004, 3, 1, 0, 30, 0), (999, 6, 15, 12, 0, 1), (2000, 1, 1, 0, 0, 0), (1, 1, 1, 0, 0, 0), (9999, 12, 31, 23, 59, 59)]
    if tier != "quick":
        r = env.rng("C18", "w3c-bases")
        bases += [tuple(gen_date(r, 0.15)[1].timetuple()[:6]) for _ in range(30)]
    out = []
    for i, b in enumerate(bases):
        out += [(g, w3c_text(g, b, "", "")) for g in GRANS[:3]]
        for j, z in enumerate(tzds(tier)):
            out += [(g, w3c_text(g, b, z, ["5", "25", "123", "123456", "1234567", "000"][(i + j) % 6])) for g in GRANS[3:]]
        # white space around the value (a pretty-printed core.xml): xsd:dateTime collapses it, the value is the same
        for z in ("Z", "+05:00", "-08:30"):
            out += [("seconds", w3c_text("seconds", b, z, "") + "\n"), ("seconds", "\n    " + w3c_text("seconds", b, z, "") + "\n  ")]
        out += [("day", " " + w3c_text("day", b, "", "") + " ")]
    return out


# ---------------------------------------------------------------- units
def plan(tier, seed):
    q = tier == "quick"
    u = [{"kind": "strings", "shard": i, "rounds": 80 if q else 3000} for i in range(16)]
    u += [{"kind": "reject", "shard": i} for i in range(2)] + [{"kind": "dates", "shard": i, "of": 4, "random": 120 if q else 6000} for i in range(4)]
    u += [{"kind": "revision"}] + [{"kind": "w3cdtf", "shard": i, "of": 8} for i in range(8)] + [{"kind": "default", "corpus": 4 if q else 30}]
    u += [{"kind": "history", "shard": i, "n": 50 if q else 2000} for i in range(16)]
    u += [{"kind": "corpus", "shard": i, "of": 4} for i in range(4)] + [{"kind": "undocumented"}]
    return u


def check_names(acc):
    from pptx.parts.coreprops import CorePropertiesPart

    found = sorted(n for n, v in vars(CorePropertiesPart).items() if isinstance(v, property) and v.fset is not None)
    acc.extra["properties_enumerated_from_class"] = found
    if found != NAMES or len(found) != 15:
        acc.inconclusive.append("CorePropertiesPart exposes %s, the check's table has %s" % (found, NAMES))


def run_unit(unit, tier, seed, acc):
    from vlib import env

    kind = unit["kind"]
    r = env.rng("C18", kind, unit.get("shard", 0))
    srcs2 = ["default", "stripped"]
    if kind == "strings":
        check_names(acc)
        for i in range(unit["rounds"]):
            names = STRINGS[:]
            r.shuffle(names)
            steps = [["set", n, gen_string(r, c), "str:" + c] for j, n in enumerate(names) for c in [STR_CLASSES[(i + j + unit["shard"]) % len(STR_CLASSES)]]]
            run_history(acc, srcs2[i % 2], steps + [["cycle"]])
    elif kind == "reject":
        for n in STRINGS:
            steps = [["set", n, "kept " + n, "str:ascii"]] + [["set", n, gen_string(r, c), "str:" + c] for c in LONG_CLASSES * 2] + [["cycle"]]
            run_history(acc, srcs2[unit["shard"]], steps)
    elif kind == "dates":
        todo = [(c, dt.datetime(*a)) for c, a in FIXED_DATES] + [gen_date(r) for _ in range(unit["random"])]
        todo = [t for i, t in enumerate(todo) if i % unit["of"] == unit["shard"] or i >= len(FIXED_DATES)]
        for i in range(0, len(todo), 3):
            steps = [["set", n, enc(v), "dt:" + c] for n, (c, v) in zip(r.sample(DATES, 3), todo[i:i + 3])]
            run_history(acc, srcs2[(i // 3) % 2], steps + [["cycle"]])
        if unit["shard"] == 0:
            for n in DATES:
                run_history(acc, "default", [["set", n, enc(v), "dt:rejected"] for v in DATE_REJECTS] + [["cycle"]])
    elif kind == "revision":
        for src in srcs2:
            for v in REV_OK + [r.randint(1, 10**9) for _ in range(20)]:
                run_history(acc, src, [["set", "revision", v, "rev:positive"], ["cycle"]])
            run_history(acc, src, [["set", "revision", 7, "rev:positive"]] + [["set", "revision", v, "rev:rejected"] for v in REV_BAD[:-1]] + [["cycle"]])
            run_history(acc, src, [["set", "revision", True, "rev:bool"], ["cycle"]])
    elif kind == "w3cdtf":
        for i, (g, text) in enumerate(w3c_cases(tier, seed)):
            if i % unit["of"] == unit["shard"]:
                read_w3c(acc, g, text)
    elif kind == "default":
        for src in ["stripped"] + ["stripped:" + p for p in r.sample(corpus_srcs(), unit["corpus"])]:
            run_history(acc, src, [["cycle"], ["cycle"]])
            acc.case(desc={"default-part": src}, nontrivial=True, cls="default-part")
    elif kind == "history":
        corp = corpus_srcs()
        for i in range(unit["n"]):
            src = ["default", "stripped", "reprefixed", "stripped", "corpus:" + r.choice(corp), "stripped:" + r.choice(corp), "altrel", "reprefixed:" + r.choice(corp), "kwvalues", "altrel:" + r.choice(corp)][i % 10]
            steps = [gen_step(r, r.choice(NAMES)) for _ in range(r.randint(4, 24))]
            for _ in range(r.randint(0, 2)):
                steps.insert(r.randint(1, len(steps)), ["cycle"])
            run_history(acc, src, steps + [["cycle"]])
            acc.count("random_histories")
    elif kind == "corpus":
        for i, p in enumerate(corpus_srcs()):
            if i % unit["of"] == unit["shard"]:
                read_corpus(acc, "corpus:" + p)
    elif kind == "undocumented":
        aware = dt.datetime(2020, 1, 2, 3, 4, 5, tzinfo=dt.timezone(dt.timedelta(hours=5, minutes=30)))
        for vals in ([None, 5, 1.5, True, b"x"[0]], [7, None, False, 2.5, 10**30]):
            steps = [["set", n, v, "str:non-str"] for n, v in zip(STRINGS, vals)]
            run_history(acc, "default", steps + [["cycle"]])
        for name in DATES:  # aware datetimes are judged (accepted, persistent, valid part): every date property x a few offsets
            for off in (0, 330, -480, 840):
                run_history(acc, "default", [["set", name, enc(aware.replace(tzinfo=dt.timezone(dt.timedelta(minutes=off)))), "dt:tz-aware"], ["cycle"], ["cycle"]])
        acc.note("non-str values for string properties: 'other values raise ValueError' is the statement; the code coerces with str() (open finding string-accepts-non-str:*)")


def read_corpus(acc, src):
    """A corpus deck's own core part: every getter must answer, and agree with an independent reading."""
    import pptx
    from vlib import xsdkit

    wit = {"kind": "corpus", "src": src}
    pkg = deck_bytes(src)
    core, why = find_core(pkg)
    acc.case(desc={"corpus": src}, nontrivial=core is not None, cls="corpus-read")
    if core is None:
        acc.count("corpus_decks_without_core_part")
        return
    cur = read_all(acc, pptx.Presentation(io.BytesIO(pkg)).core_properties, "get:", wit)
    if cur is None:
        return
    acc.count("corpus_core_parts_read")
    errs, _ = xsdkit.validate_part(core["blob"])
    if errs:
        acc.count("corpus_core_parts_schema_invalid_as_shipped")
    root = etree.fromstring(core["blob"], xsdkit.PLAIN)
    for n in NAMES:
        els = root.findall("{%s}%s" % ELEMENT[n])
        if len(els) > 1 or (els and len(els[0])):
            acc.count("corpus_elements_not_simple_skipped")
            continue
        text = (els[0].text or "") if els else ""
        if n in STRINGS:
            want = text
        elif n == "revision":
            want = int(text) if re.fullmatch(r"[0-9]+", text) else None
        else:
            inst = w3c_instant(text) if (text and schema_valid(n, text)) else None
            want = inst[0] if inst else None
            if text and not inst:
                acc.count("corpus_dates_not_judged")
                continue
        if want is None and n == "revision":
            acc.count("corpus_revision_not_a_number_not_judged")
        elif cur[n] != want:
            acc.violation("corpus-read:%s" % kind_of(n), "%s: %s reads %r, element text is %r" % (src, n, cur[n], text), wit)
        else:
            acc.count("corpus_values_agree")


def replay(w, acc):
    if w["kind"] == "history":
        run_history(acc, w["src"], w["steps"])
    elif w["kind"] == "w3cdtf":
        read_w3c(acc, w["gran"], w["text"])
    else:
        read_corpus(acc, w["src"])
    print("replayed %s: %d violation(s); counters %s" % (w["kind"], len(acc.violations), acc.counters))


def finalize(acc, tier, seed):
    for n in NAMES:
        for tag in ("set:", "get:", "get-after-reopen:"):
            if not acc.reach.get(tag + n):
                acc.inconclusive.append("property never exercised: %s%s" % (tag, n))
    for need in ("reject-len256", "reject-date", "reject-revision", "w3cdtf-offset", "default-part") + tuple("w3cdtf-read:" + g for g in GRANS):
        if not acc.reach.get(need):
            acc.inconclusive.append("monitor never reached: " + need)
    for c in ("saves", "core_xml_validations", "handbuilt_documents_read", "w3cdtf_instants_equal"):
        if not acc.counters.get(c):
            acc.inconclusive.append("counter is zero: " + c)
