"""C09 — a property reads back as set, survives save/re-open; None restores inheritance.

A hand-written property table (props/c09_table.py: fixture + path = factory and locator, domain generator,
comparator, None-semantics, independence group) is checked for completeness against run-time introspection of
every `property` with an fset on the proxy layer.  Driver 1 assigns every value of every row's domain to a
fresh object (getter after setter; same getter on the re-opened deck; out-of-domain values must raise
TypeError/ValueError and leave the part's XML alone; None must give the documented inherited/default
reading).  Driver 2 runs random assignment sequences over the rows of one object against a
dict-of-last-values model (every other row of the group must still read what the model says), re-opening
between rounds.  Driver 3 applies accepted values to objects found in the corpus decks.
"""
from __future__ import annotations

import io
import math
import os

ID = "C09"
LEVEL = "exploration"
EXHAUSTIVE = False
RULE = (
    "rows = read/write properties of the proxy layer (table checked against introspection). Driver 1: every value of the "
    "row's domain grid (both bounds, one quantum inside/outside, interior, math.nextafter neighbours of rounding thresholds, "
    "None, every enumeration member, wrong types; thorough tops up to 400 with seeded values) on a fresh object of a fresh "
    "slide, read back, saved, re-opened, located by the same path, read again. Driver 2: seeded assignment sequences over "
    "the rows of one object with a last-value model incl. documented couplings, re-opened between rounds. Driver 3: the "
    "same on objects of the corpus decks. A case = (row, value class); non-trivial when the value is a bound, a bound or "
    "threshold neighbour, None, or outside the documented domain; distinct by (row, value class)."
)
ASSUMPTIONS = [
    "the documented domain is the docstring's; where it is silent (schema ranges of EMU values, bool for a length, truthy values for a flag, nan/inf) a value is class undoc-*: acceptance is not judged, a rejection must still be TypeError/ValueError and leave the XML unchanged",
    "one storage quantum either direction: EMU equal; 1/100 pt = 127 EMU; angles mod 360 within 1/60000 deg; fractions 1e-5 (+ulp); xsd:double exact; enumerations/booleans/strings identical",
    "enumeration members are ints: a foreign member is out of domain only when its integer value names no member of the expected enumeration",
    "the reference is the assigned value / the documented None reading / the documented coupling; no reading of python-pptx decides what was assigned",
]
WATCHDOG_S = {"quick": 600, "thorough": 3600}
BATCH = 20
N_ROW_UNITS, N_SEQ_UNITS, N_CORPUS_UNITS = 16, 12, 4


def plan(tier, seed):
    nseq = 1200 if tier == "quick" else 8000
    return (
        [{"kind": "rows", "shard": i, "of": N_ROW_UNITS} for i in range(N_ROW_UNITS)]
        + [{"kind": "seq", "shard": i, "of": N_SEQ_UNITS, "n": nseq} for i in range(N_SEQ_UNITS)]
        + [{"kind": "corpus", "shard": i, "of": N_CORPUS_UNITS} for i in range(N_CORPUS_UNITS)]
        + [{"kind": "introspect"}]
        + [{"kind": "toggles", "shard": i, "of": 4} for i in range(4)]
    )


def T():
    from . import c09_table

    return c09_table


# ------------------------------------------------------------------------------------------------ comparing
def _num(x):
    return isinstance(x, (int, float)) and not isinstance(x, bool)


def same(cmp, want, got):
    """Is reading `got` within one storage quantum of `want`?"""
    if isinstance(got, Raises) or isinstance(want, Raises):      # a raising getter equals only the same exception type
        return type(got) is type(want) and got == want
    if want is None or got is None or isinstance(want, (str, bool)) or not _num(want):
        return got == want and isinstance(got, bool) == isinstance(want, bool) and (got is None) == (want is None)
    if not _num(got) or (isinstance(got, float) and math.isnan(got)):
        return False
    if cmp == "emu":
        return isinstance(got, int) and got == want
    if cmp == "cpt":
        return abs(int(got) - int(want)) <= 127
    if cmp == "angle":
        d = (float(got) - float(want)) % 360.0
        return min(d, 360.0 - d) <= (1 / 60000.0) * (1 + 1e-9) + abs(want) * 4e-16
    if cmp == "frac":
        return abs(got - want) <= 1e-5 * (1 + 1e-9) + 4 * math.ulp(max(abs(want), abs(got), 1e-300))
    if cmp == "lsp":
        from pptx.util import Length

        if isinstance(want, Length) != isinstance(got, Length):
            return False
        return abs(int(got) - int(want)) <= 127 if isinstance(want, Length) else same("frac", float(want), got)
    if cmp == "float":
        return float(got) == float(want)
    return got == want


class Raises(str):
    """Reading of a getter that raised: the exception's type name."""

    def __repr__(self):
        return "<raises %s>" % str(self)


def enc(v):
    """eval-able text of a value (witnesses, descriptions)."""
    import enum

    from pptx.util import Length

    if isinstance(v, enum.Enum):
        return "%s.%s" % (type(v).__name__, v.name)
    if isinstance(v, Length):
        return "Emu(%d)" % int(v)
    return repr(v)


def dec(text):
    import pptx.enum.action, pptx.enum.chart, pptx.enum.dml, pptx.enum.lang, pptx.enum.shapes, pptx.enum.text  # noqa
    from pptx.dml.color import RGBColor
    from pptx.util import Emu

    ns = {"RGBColor": RGBColor, "Emu": Emu, "inf": math.inf, "nan": math.nan}
    for m in (pptx.enum.action, pptx.enum.chart, pptx.enum.dml, pptx.enum.lang, pptx.enum.shapes, pptx.enum.text):
        for name in dir(m):
            c = getattr(m, name)
            if isinstance(c, type):
                ns.setdefault(c.__name__, c)
    return eval(text, ns)  # noqa: S307 - harness-authored text only


def short(v):
    return enc(v) if len(enc(v)) < 60 else enc(v)[:57] + "..."


# ----------------------------------------------------------------------------------------- decks and objects
def new_deck():
    import pptx

    prs = pptx.Presentation()
    for _ in range(2):      # two anchor slides: targets of slide jumps
        prs.slides.add_slide(prs.slide_layouts[6])
    return prs


def reopen(prs):
    import pptx

    buf = io.BytesIO()
    prs.save(buf)
    return pptx.Presentation(io.BytesIO(buf.getvalue()))


def resolve(path, prs, s, cache=None):
    """Evaluate a table / walker path; with a cache, rows sharing a path prefix share the proxy objects."""
    if cache is None:
        return eval(path, {"s": s, "prs": prs})  # noqa: S307 - paths come from the table / the corpus walker
    parts, depth, cur = [], 0, ""
    for ch in path:
        depth += ch in "([" and 1 or ch in ")]" and -1 or 0
        if ch == "." and depth == 0:
            parts.append(cur)
            cur = ""
        else:
            cur += ch
    parts.append(cur)
    obj, key = {"s": s, "prs": prs}[parts[0]], parts[0]
    for part in parts[1:]:
        key += "." + part
        if key not in cache:
            cache[key] = eval("x." + part, {"x": obj})  # noqa: S307
        obj = cache[key]
    return obj


def snapper(path, prs, s):
    """-> function serialising the XML of the part(s) the object lives in: (modulo neutral empty containers, raw)."""
    import re

    from lxml import etree

    roots = [prs._element] if path.startswith("prs") else [s._element]
    if ".chart" in path:
        roots.append(resolve(path[: path.index(".chart") + 6], prs, s)._chartSpace)
    neutral = re.compile(("<(?:%s)/>" % "|".join(T().NEUTRAL_EMPTY)).encode())

    def snap():
        raw = [etree.tostring(r) for r in roots]
        return [re.sub(rb"<([\w:]+)([^<>]*)></\1>", rb"<\1\2/>", neutral.sub(b"", x)) for x in raw], raw
    return snap


def read(row, obj):
    try:
        return row.get(obj)
    except Exception as e:  # noqa - a raising getter is a reading, judged by the caller
        return Raises(type(e).__name__)


def fresh_slide(prs, row, rnd):
    lay, build = T().FIXTURES[row.fixture]
    s = prs.slides.add_slide(prs.slide_layouts[lay])
    return build(prs, s, rnd) or s


_GRID = {}


def grid(row, extra=0):
    """The row's fixed value grid (extra > 0: topped up with seeded values, for the thorough sequences)."""
    from vlib import env

    if (row.id, extra) not in _GRID:
        _GRID[(row.id, extra)] = row.values(env.rng("C09", "seqvalues", row.id) if extra else None, extra)
    return _GRID[(row.id, extra)]


def ok_values(row, extra=0):
    t = T()
    return [(v, c) for v, c in grid(row, extra) if t.expectation(c) == "ok" and (v is not None or row.none is not t.NOTDOC)]


def pick_prime(row, obj):
    """A valid value whose reading differs from the present one (so that None / a rejection is observable)."""
    t = T()
    if row.prime is t.NOPRIME:
        return t.NOPRIME
    if row.prime is not None:
        return row.prime
    cur = read(row, obj)
    for v, c in grid(row):
        if c in ("interior", "member", "inside-bound") and v is not None and not same(row.cmp, row.expect(v), cur):
            return v
    return t.NOPRIME


def none_reading(row, obj):
    return row.none(obj) if callable(row.none) else row.none


# ------------------------------------------------------------------------------------ driver 1: one value
def probe(row, obj, v, vcls, idx, snap, acc, mode, extra=None):
    """Assign v to row's property on obj; immediate checks. -> (kind, want) for the re-open check, or None."""
    t = T()
    exp = t.expectation(vcls)
    wit = dict({"row": row.id, "value": enc(v), "vclass": vcls, "mode": mode, "idx": idx}, **(extra or {}))
    acc.case(desc=(row.id, vcls), nontrivial=vcls not in t.TRIVIAL, cls=row.cls)
    acc.hit(row.id + ":set")
    if row.id in t.INHERITED_INITIAL and mode == "fresh":
        got, want = read(row, obj), t.INHERITED_INITIAL[row.id](obj)
        acc.count("inherited_initial_readings_compared")
        if not same(row.cmp, want, got):
            acc.violation("none-semantics:" + row.id, "%s without a directly-applied value reads %s, the layout placeholder has %s" % (row.id, short(got), short(want)), dict(wit, mode="initial-inherited"))
    if mode == "fresh" and idx < 8:
        got = read(row, obj)
        acc.count("initial_readings_taken")
        if isinstance(got, Raises) and not row.initial_may_raise:
            acc.violation("none-semantics:" + row.id, "%s on a fresh object (no explicit setting) raises %s instead of reporting the inherited/default reading" % (row.id, got), dict(wit, mode="initial-reading"))
    is_none = v is None and row.none is not t.NOTDOC
    primed = t.NOPRIME
    if is_none or (exp != "ok" and idx % 2 == 0):
        primed = pick_prime(row, obj)
        if primed is not t.NOPRIME:
            try:
                row.set(obj, primed)
            except Exception:  # noqa - reported by the case that assigns this value itself
                primed = t.NOPRIME
                acc.count("prime_assignment_raised")
    before, read0 = (snap(), read(row, obj)) if exp != "ok" else (None, None)
    try:
        row.set(obj, v)
    except Exception as e:  # noqa
        what = "%s = %s raised %s: %s" % (row.id, short(v), type(e).__name__, str(e)[:100])
        if exp == "ok":
            key = "none-semantics:" if is_none else "readback:"
            acc.violation(key + row.id, what + " (value is in the documented domain)", dict(wit, mode=mode + "-raised"))
            return None
        acc.count("rejected")
        if not isinstance(e, (TypeError, ValueError)):
            acc.violation("wrong-exception:%s:%s" % (row.id, type(e).__name__), what + " (neither TypeError nor ValueError)", wit)
        after = snap()
        if after[0] == before[0] and after[1] != before[1]:
            acc.count("rejections_leaving_only_a_neutral_empty_element")
        if after[0] != before[0]:
            now = read(row, obj)
            effect = "reading unchanged, but not the XML" if same("eq", read0, now) else "reading went from %s to %s" % (short(read0), short(now))
            # Not a C09 violation: the statement asks for TypeError/ValueError, not for atomicity of the rejected
            # call.  Whether the part is still *valid* after a rejected call is C03's clause and is decided there
            # (props/c03.py unit 'rejected' drives these same rows).  Recorded as an observation.
            acc.count("observation:rejected_call_changed_xml")
            acc.extra.setdefault("rejected_calls_that_changed_the_xml", {})[row.id] = acc.extra.get("rejected_calls_that_changed_the_xml", {}).get(row.id, 0) + 1
        acc.count("rejections_xml_compared")
        return None
    acc.hit(row.id + ":get")
    if exp == "bad":
        key = "accepts-undocumented-None:" if vcls == "None-not-documented" else "accepts-out-of-domain:"
        acc.violation(key + row.id, "%s = %s (%s) was accepted; reads %s" % (row.id, short(v), vcls, short(read(row, obj))), wit)
        return None
    if exp == "either":
        acc.count("undocumented_values_accepted")
        return None
    want = none_reading(row, obj) if is_none else row.expect(v)
    got = read(row, obj)
    acc.count("readbacks_compared")
    if not same(row.cmp, want, got):
        if is_none:
            acc.violation("none-semantics:" + row.id, "%s = None (after %s) reads %s, documented %s" % (row.id, short(primed) if primed is not t.NOPRIME else "nothing", short(got), short(want)), wit)
        else:
            acc.violation("readback:" + row.id, "%s = %s reads back %s" % (row.id, short(v), short(got)), wit)
        return None
    return ("none" if is_none else "set", want)


def run_batch(batch, acc, tier, rerun=False):
    """batch: [(row, v, vcls, idx)] -> one deck, one slide per case, one save/re-open."""
    from vlib import env
    from vlib.acc import Acc

    prs = new_deck()
    recs = []
    first = Acc() if rerun else acc
    for row, v, vcls, idx in batch:
        s = fresh_slide(prs, row, env.rng("C09", "fixture", row.id, idx))
        obj = resolve(row.path, prs, s)
        rec = probe(row, obj, v, vcls, idx, snapper(row.path, prs, s), first, "fresh")
        if rec and row.persist:
            recs.append((row, v, vcls, idx, len(prs.slides) - 1, rec))
    if not recs:
        return
    try:
        prs2 = reopen(prs)
    except Exception as e:  # noqa
        if len(batch) > 1:
            for c in batch:
                run_batch([c], acc, tier, rerun=True)
        else:
            row, v, vcls, idx = batch[0]
            acc.violation("reopen:" + row.id, "after %s = %s save/re-open raised %s: %s" % (row.id, short(v), type(e).__name__, str(e)[:120]), {"row": row.id, "value": enc(v), "vclass": vcls, "mode": "reopen-raised", "idx": idx})
        return
    for row, v, vcls, idx, si, (kind, want) in recs:
        wit = {"row": row.id, "value": enc(v), "vclass": vcls, "mode": "reopen", "idx": idx}
        try:
            obj2 = resolve(row.path, prs2, prs2.slides[si])
        except Exception as e:  # noqa
            acc.violation("reopen:" + row.id, "after %s = %s the object is not found on the re-opened deck: %r" % (row.id, short(v), e), wit)
            continue
        if kind == "none" and callable(row.none):
            want = row.none(obj2)
        got = read(row, obj2)
        acc.count("reopen_readings_compared")
        if not same(row.cmp, want, got):
            key = "none-semantics:" if kind == "none" else "reopen:"
            acc.violation(key + row.id, "%s = %s read %s before saving, %s after re-opening" % (row.id, short(v), short(want), short(got)), wit)


def run_rows(unit, tier, acc):
    from vlib import env

    t = T()
    nvals = 25 if tier == "quick" else 400
    pending = []
    for i, row in enumerate(t.ROWS):
        if i % unit["of"] != unit["shard"]:
            continue
        vals = row.values(env.rng("C09", "values", row.id), nvals)
        if len(acc.samples) < 2:
            acc.samples.append({"row": row.id, "fixture": row.fixture, "path": row.path, "values": len(vals), "first": [[short(v), c] for v, c in vals[:5]]})
        for n, (v, vcls) in enumerate(vals):
            # a value that may be rejected is tried twice: on the fresh object (even idx: after a valid value was set) and as is
            for idx in (2 * n, 2 * n + 1) if t.expectation(vcls) != "ok" else (2 * n,):
                if row.solo:
                    run_batch([(row, v, vcls, idx)], acc, tier)
                    continue
                pending.append((row, v, vcls, idx))
                if len(pending) >= BATCH:
                    run_batch(pending, acc, tier)
                    pending = []
    if pending:
        run_batch(pending, acc, tier)


# ------------------------------------------------------------------------------------ driver 2: sequences
def groups():
    out = {}
    for row in T().ROWS:
        out.setdefault("%s/%s" % (row.fixture, row.group or row.id), []).append(row)
    return out


def check_model(rows, objs, model, assigned, acc, wit, after_reopen=False):
    t = T()
    for r in rows:
        got = read(r, objs[r.id])
        want = model[r.id]
        if want is t.RESYNC or (after_reopen and not r.persist):
            model[r.id] = got
            continue
        acc.count("sequence_readings_compared")
        if same(r.cmp, want, got):
            continue
        if after_reopen:
            acc.violation("reopen:" + r.id, "sequence: %s read %s before saving, %s after re-opening" % (r.id, short(want), short(got)), dict(wit, row=r.id, mode="sequence-reopen"))
        elif r is assigned[0]:
            acc.violation("readback:" + r.id, "sequence: %s = %s reads back %s (expected %s)" % (r.id, short(assigned[1]), short(got), short(want)), dict(wit, row=r.id))
        else:
            acc.violation("interference:%s->%s" % (assigned[0].id, r.id), "%s = %s changed %s from %s to %s" % (assigned[0].id, short(assigned[1]), r.id, short(want), short(got)), dict(wit, row=assigned[0].id, disturbed=r.id))
        model[r.id] = got      # resynchronise: report a mechanism once, not its echoes


def run_sequences(gkey, seq_ids, tier, acc):
    """Sequences of one group, several per deck (one slide each); rounds of assignments separated by save/re-open."""
    from vlib import env

    t = T()
    rows = groups()[gkey]
    steps, rounds = (4, 3) if tier == "quick" else (6, 5)
    solo = any(r.solo for r in rows)
    per_deck = 1 if solo else 10
    for k in range(0, len(seq_ids), per_deck):
        chunk = seq_ids[k : k + per_deck]
        prs = new_deck()
        seqs = []
        for n in chunk:
            rnd = env.rng("C09", "seq", gkey, n)
            s = fresh_slide(prs, rows[0], rnd)
            cache = {}
            objs = {r.id: resolve(r.path, prs, s, cache) for r in rows}
            seqs.append({"n": n, "rnd": rnd, "si": len(prs.slides) - 1, "objs": objs, "model": {r.id: read(r, objs[r.id]) for r in rows}})
            acc.case(desc=("sequence", gkey), nontrivial=len(rows) > 1, cls="sequence")
        for rd in range(rounds):
            for q in seqs:
                wit = {"mode": "sequence", "group": gkey, "seq": q["n"], "tier": tier, "seed": env.seed()}
                last = None
                for _ in range(steps):
                    if last is not None and q["rnd"].random() < 0.15:
                        r, v = last  # the same value assigned once more: nothing may change (a setter is idempotent)
                        acc.count("sequence_assignments_repeated")
                    else:
                        r = q["rnd"].choice(rows)
                        v, vcls = q["rnd"].choice(ok_values(r, 0 if tier == "quick" else 80))
                    last = (r, v)
                    obj = q["objs"][r.id]
                    acc.count("sequence_assignments")
                    try:
                        r.set(obj, v)
                    except Exception as e:  # noqa
                        acc.violation("readback:" + r.id, "sequence: %s = %s raised %s: %s" % (r.id, short(v), type(e).__name__, str(e)[:100]), dict(wit, row=r.id, value=enc(v), mode="sequence-raised"))
                        q["model"] = {x.id: read(x, q["objs"][x.id]) for x in rows}
                        continue
                    coupled = r.couples(q["model"], v) if r.couples else {}      # documented couplings, from the state before
                    q["model"][r.id] = none_reading(r, obj) if v is None else r.expect(v)
                    q["model"].update(coupled)
                    check_model(rows, q["objs"], q["model"], (r, v), acc, dict(wit, value=enc(v)))
            if not any(r.persist for r in rows):
                continue
            prs_before_reopen = prs
            try:
                prs = reopen(prs)
            except Exception as e:  # noqa
                acc.violation("reopen:" + rows[0].id, "sequence group %s: save/re-open raised %s: %s" % (gkey, type(e).__name__, str(e)[:120]), {"mode": "sequence", "group": gkey, "seq": chunk[0], "tier": tier, "seed": env.seed(), "row": rows[0].id})
                break
            acc.count("sequence_reopens")
            keep_working = rd % 2 == 1  # odd rounds: the saved file is checked on a re-opened COPY, the caller goes on with the same
            working = None              # Presentation object (save, edit, save again), so nothing computed for a save may outlive it
            if keep_working:
                working, prs = prs_before_reopen, prs
            for q in seqs:
                s2 = prs.slides[q["si"]]
                cache = {}
                objs2 = {r.id: resolve(r.path, prs, s2, cache) for r in rows}
                check_model(rows, objs2, q["model"], (rows[0], None), acc, {"mode": "sequence", "group": gkey, "seq": q["n"], "tier": tier, "seed": env.seed()}, after_reopen=True)
                if not keep_working:
                    q["objs"] = objs2
            if keep_working:
                prs = working
                acc.count("sequence_saves_continued_on_the_same_presentation")


def run_seq_unit(unit, tier, acc):
    g = sorted(groups())
    per = max(1, unit["n"] // len(g))
    for gi, gkey in enumerate(g):
        if gi % unit["of"] == unit["shard"]:
            run_sequences(gkey, list(range(per)), tier, acc)


# ------------------------------------------------------------------------------- driver 3: corpus objects
def corpus_round(deck, rd, tier, acc):
    """Open the deck, assign at most one value per top-level shape (+ one on the slide, one on the deck), check, re-open, check."""
    import pptx
    from vlib import env

    t = T()
    by_kind = {}
    for row in t.ROWS:
        if row.corpus:
            by_kind.setdefault(row.corpus, []).append(row)
    name = os.path.basename(deck)
    rnd = env.rng("C09", "corpus", name, rd)
    try:
        prs = pptx.Presentation(deck)
    except Exception:  # noqa - opening corpus decks is C01/C16's business
        acc.count("corpus_decks_not_opened")
        return
    todo = [(None, "prs", rnd.choice(by_kind["prs"]))]
    for si, s in enumerate(prs.slides):
        todo.append((si, "s", by_kind["slide"][0]))
        for j, sh in enumerate(s.shapes):
            try:
                cands = [(k, p) for k, p in t.kinds_of(sh, "s.shapes[%d]" % j, prs) if k in by_kind]
            except Exception:  # noqa
                acc.count("corpus_shapes_not_inspectable")
                continue
            if cands:
                k, p = rnd.choice(cands)
                todo.append((si, p, rnd.choice(by_kind[k])))
    recs = []
    for n, (si, path, row) in enumerate(todo):
        s = prs.slides[si] if si is not None else None
        v, vcls = rnd.choice(ok_values(row))
        try:
            obj = resolve(path, prs, s)
        except Exception:  # noqa - an object the walker cannot reach is skipped, not judged
            acc.count("corpus_objects_skipped")
            continue
        first = read(row, obj)
        if isinstance(first, Raises):
            # the object is of the kind the row is about and comes from a document an authoring application wrote: a getter
            # that fails with an internal error (AttributeError, KeyError ...) has no reading to return for it; a ValueError /
            # TypeError / NotImplementedError is the library saying "not applicable here" and is not judged
            if str(first) in ("ValueError", "TypeError", "NotImplementedError", "InvalidXmlError"):
                acc.count("corpus_objects_skipped")
            else:
                acc.violation("corpus-getter-raises:%s:%s" % (row.id, first), "%s slide %s %s: reading %s raises %s" % (name, si, path, row.id, first),
                              {"row": row.id, "mode": "corpus-getter", "deck": deck, "round": rd, "path": path, "slide": si, "tier": tier, "seed": env.seed()})
            continue
        acc.count("corpus_assignments")
        acc.hit(row.id + ":corpus")
        rec = probe(row, obj, v, vcls, 1, snapper(path, prs, s), acc, "corpus", {"deck": deck, "round": rd, "path": path, "slide": si, "tier": tier, "seed": env.seed()})
        if rec and row.persist:
            recs.append((si, path, row, v, vcls, rec))
    try:
        prs2 = reopen(prs)
    except Exception as e:  # noqa
        acc.count("corpus_reopen_failed")
        acc.note("corpus deck %s round %d: save/re-open raised %s (not attributed to a row)" % (name, rd, type(e).__name__))
        return
    for si, path, row, v, vcls, (kind, want) in recs:
        wit = {"row": row.id, "value": enc(v), "vclass": vcls, "mode": "corpus-reopen", "deck": deck, "round": rd, "path": path, "slide": si, "tier": tier, "seed": env.seed()}
        try:
            obj2 = resolve(path, prs2, prs2.slides[si] if si is not None else None)
        except Exception as e:  # noqa
            acc.violation("reopen:" + row.id, "%s: after %s = %s at %s the object is not found on the re-opened deck: %r" % (name, row.id, short(v), path, e), wit)
            continue
        if kind == "none" and callable(row.none):
            want = row.none(obj2)
        got = read(row, obj2)
        acc.count("corpus_reopen_readings_compared")
        if not same(row.cmp, want, got):
            acc.violation(("none-semantics:" if kind == "none" else "reopen:") + row.id, "%s slide %s %s: %s = %s read %s before saving, %s after re-opening" % (name, si, path, row.id, short(v), short(want), short(got)), wit)


def run_corpus(unit, tier, acc):
    from vlib import env

    for i, deck in enumerate(env.corpus_decks()):
        if i % unit["of"] == unit["shard"]:
            acc.count("corpus_decks")
            for rd in range(2 if tier == "quick" else 40):
                corpus_round(deck, rd, tier, acc)


# --------------------------------------------------------------------------------------------- completeness
def run_introspect(acc):
    import importlib, inspect, pkgutil  # noqa: E401

    import pptx

    t = T()
    found = set()
    for mi in pkgutil.walk_packages(pptx.__path__, "pptx."):
        if mi.name.startswith(("pptx.oxml", "pptx.opc", "pptx.enum")):
            continue
        mod = importlib.import_module(mi.name)
        for _, c in inspect.getmembers(mod, inspect.isclass):
            if c.__module__.startswith("pptx.") and not c.__module__.startswith(("pptx.oxml", "pptx.opc", "pptx.enum")):
                for an, a in c.__dict__.items():
                    if isinstance(a, property) and a.fset is not None:
                        found.add((c.__name__, an))
    covered = {ca for row in t.ROWS for ca in row.covers}
    exempt = {ca for ca in found if ca in t.EXEMPT}
    uncovered = sorted(found - covered - exempt)
    acc.extra["introspected_rw_properties"] = len(found)
    acc.extra["table_rows"] = len(t.ROWS)
    acc.extra["properties_covered"] = len(found & covered)
    acc.extra["properties_exempt"] = len(exempt)
    acc.extra["nonexempt_properties"] = len(found - exempt)
    acc.extra["uncovered_count"] = len(uncovered)
    acc.extra["uncovered_properties"] = ["%s.%s" % ca for ca in uncovered]
    acc.extra["exempt_properties"] = ["%s.%s -> %s" % (c, a, t.EXEMPT[(c, a)]) for c, a in sorted(exempt)]
    acc.extra["rows_not_matching_a_property"] = ["%s.%s" % ca for ca in sorted(covered - found)]
    acc.extra["row_ids"] = [r.id for r in t.ROWS]
    acc.extra["sequence_groups"] = {g: len(rs) for g, rs in groups().items()}
    acc.case(desc=("introspection",), nontrivial=True, cls="completeness")


# --------------------------------------------------------- driver 4: a kept ancestor, its content replaced, the child re-accessed
TOGGLE_ATTR = {"chart_title": "has_title", "axis_title": "has_title"}  # child accessor -> the ancestor's switch (default 'has_' + accessor)
FILL_TOGGLES = ("color", "fore_color")  # reached through a fill: the fill is switched to background()/solid() in between


def _hops(path):
    parts, depth, cur = [], 0, ""
    for ch in path:
        depth += ch in "([" and 1 or ch in ")]" and -1 or 0
        if ch == "." and depth == 0:
            parts.append(cur)
            cur = ""
        else:
            cur += ch
    return parts + [cur]


def run_toggles(unit, tier, acc):
    """A caller keeps an object (a plot, a chart, an axis, a line, a font), assigns through one of its children, switches that
    child off and on again through the kept object (has_data_labels / has_title / has_legend / has_*_gridlines False then True;
    for colours the fill set to background() then re-accessed), re-accesses the child FROM THE KEPT OBJECT and assigns again: the
    second value must be read back, in memory and after save + re-open."""
    from vlib import env

    t = T()
    for ri, row in enumerate(t.ROWS):
        if ri % unit["of"] != unit["shard"]:
            continue
        hops = _hops(row.path)
        vals = [v for v, c in ok_values(row) if v is not None]
        if len(hops) < 3 or len(vals) < 2:
            continue
        for k in range(len(hops) - 1, 1, -1):
            child = hops[k].split("(")[0].split("[")[0]
            toggle = TOGGLE_ATTR.get(child, "has_" + child)
            prs = new_deck()
            try:
                s = fresh_slide(prs, row, env.rng("C09tog", row.id))
                parent = resolve(".".join(hops[:k]), prs, s)
            except Exception:  # noqa
                break
            rest = ".".join(hops[k:])
            by_fill = child in FILL_TOGGLES and hasattr(parent, "fill")
            sw = getattr(type(parent), toggle, None)
            if not by_fill and not (isinstance(sw, property) and sw.fset is not None):
                continue
            wit = {"mode": "toggle", "row": row.id, "kept": ".".join(hops[:k]), "switch": "fill" if by_fill else toggle}
            v1, v2 = vals[0], vals[-1]
            try:
                row.set(eval("x." + rest, {"x": parent}), v1)  # noqa: S307 - table paths
                if by_fill:
                    parent.fill.background()
                else:
                    setattr(parent, toggle, False)
                    setattr(parent, toggle, True)
                obj2 = eval("x." + rest, {"x": parent})  # noqa: S307
                row.set(obj2, v2)
                got = read(row, obj2)
            except Exception as e:  # noqa  (a switch that cannot be turned off on this fixture, a child that is gone: not this driver's business)
                acc.count("toggle_scenarios_not_applicable:%s" % type(e).__name__)
                break
            acc.count("toggle_scenarios")
            acc.hit("toggle:" + ("fill" if by_fill else toggle))
            acc.case(desc=("toggle", row.id, wit["switch"]), nontrivial=True, cls="kept-ancestor")
            want = row.expect(v2)
            if not same(row.cmp, want, got):
                acc.violation("readback-after-switch:" + row.id, "%s = %s, assigned through a child re-accessed from the kept %s after %s was switched off and on, reads %s" % (row.id, short(v2), wit["kept"], wit["switch"], short(got)), wit)
            elif row.persist:
                try:
                    prs2 = reopen(prs)
                    got2 = read(row, resolve(row.path, prs2, prs2.slides[len(prs.slides) - 1]))
                except Exception as e:  # noqa
                    acc.violation("reopen-after-switch:" + row.id, "%s: save/re-open after the switch scenario raised %s: %s" % (row.id, type(e).__name__, str(e)[:100]), wit)
                    break
                if not same(row.cmp, want, got2):
                    acc.violation("reopen-after-switch:" + row.id, "%s = %s (assigned after %s was switched off and on through the kept %s) reads %s after save and re-open" % (row.id, short(v2), wit["switch"], wit["kept"], short(got2)), wit)
            if not by_fill:
                # "an assignment leaves other independent properties unchanged": the switch assigned the value it HAS (True while
                # the child is there) is no reason for the child to lose what was set on it
                try:
                    setattr(parent, toggle, True)
                    got3 = read(row, eval("x." + rest, {"x": parent}))  # noqa: S307
                except Exception as e:  # noqa
                    acc.count("toggle_reassert_not_applicable:%s" % type(e).__name__)
                    break
                acc.count("toggle_switches_reasserted")
                if not same(row.cmp, want, got3):
                    acc.violation("readback-after-switch-reasserted:" + row.id, "%s = %s; then %s.%s = True (which it was already): the property reads %s" % (row.id, short(v2), wit["kept"], toggle, short(got3)), dict(wit, mode="toggle-reassert"))
            break


def run_unit(unit, tier, seed, acc):
    k = unit["kind"]
    if k == "introspect":
        return run_introspect(acc)
    if k == "toggles":
        return run_toggles(unit, tier, acc)
    {"rows": run_rows, "seq": run_seq_unit, "corpus": run_corpus}[k](unit, tier, acc)


def replay(w, acc):
    os.environ["VERIF_SEED"] = str(w.get("seed", os.environ.get("VERIF_SEED", "0")))
    mode = w.get("mode", "")
    print("replaying", w)
    if mode.startswith("sequence"):
        run_sequences(w["group"], [w["seq"]], w.get("tier", "quick"), acc)
    elif mode.startswith("corpus"):
        corpus_round(w["deck"], w["round"], w.get("tier", "quick"), acc)
    else:
        row = next(r for r in T().ROWS if r.id == w["row"])
        run_batch([(row, dec(w["value"]), w["vclass"], w.get("idx", 0))], acc, "quick")
    for v in acc.violations:
        print("  saw:", v["key"], "-", v["what"])


def finalize(acc, tier, seed):
    for need in ("readbacks_compared", "reopen_readings_compared", "rejections_xml_compared", "sequence_readings_compared", "sequence_reopens", "corpus_reopen_readings_compared"):
        if not acc.counters.get(need):
            acc.inconclusive.append("deciding counter is zero: " + need)
    if "uncovered_count" not in acc.extra:
        acc.inconclusive.append("the introspection unit did not report: completeness of the table unknown")
        return
    missing = [r for r in acc.extra.get("row_ids", []) if not acc.reach.get(r + ":set")]
    if missing:
        acc.inconclusive.append("%d table rows were never exercised: %s" % (len(missing), missing[:8]))
    unc, tot = acc.extra["uncovered_count"], max(1, acc.extra["nonexempt_properties"])
    if unc:
        acc.note("stated limit: %d of %d non-exempt read/write properties have no table row: %s" % (unc, tot, acc.extra["uncovered_properties"]))
    if unc / tot > 0.15:
        acc.inconclusive.append("%d of %d non-exempt read/write properties have no table row (> 15%%): undecided for those" % (unc, tot))
