"""C11 — accepted attribute values are exactly those the schema can represent.

Exhaustive over the real attribute declarations (recovered at run time from the element classes)
x a grid of Python values biased to every bound/threshold, assigned through the real property on a
fresh element; the written string is validated by libxml2 against the attribute's declared XSD
simple type; rejected values must raise TypeError/ValueError and leave the element untouched;
schema-valid lexical forms (enumeration tokens, union alternatives, signed/padded numbers) must be
readable; read-back must be within the type's quantum.
"""
from __future__ import annotations

from xml.sax.saxutils import quoteattr

import decimal
import fractions
import math
import numbers
import os
import re

ID = "C11"
LEVEL = "exploration"
EXHAUSTIVE = True
RULE = (
    "for every (registered tag, declared attribute) pair of the real element classes: every value of a fixed grid "
    "(ints at all range bounds used anywhere in the simple types and the XSD facets, +-1 around each, floats at and next to "
    "every rounding threshold of the conversions, inf/nan/-0.0, bool, str, None, Decimal, Fraction, a numbers.Integral "
    "look-alike; thorough adds 2000 seeded random numbers per numeric attribute) is assigned through the real property; "
    "for reading, every string of a lexical pool that libxml2 accepts for the declared type (all enumeration tokens, "
    "percent / universal-measure / boolean alternatives, signed and zero-padded integers, bounds as text). A case = "
    "(tag, attribute, value class); non-trivial when the value is a bound, a bound neighbour, a rounding-threshold neighbour, "
    "a wrong Python type or a non-canonical lexical form. Distinct by (tag, attribute, value)."
)
ASSUMPTIONS = [
    "libxml2 validation of one lexical value against the named simple type of the shipped schemas decides",
    "the attribute's XSD type is looked up by (tag's schema types, attribute name) in XsdModel; a written form is acceptable if valid for any candidate type declaring the attribute",
    "quantum per simple-type class as stated in the property: 1 EMU, 1/100 pt, 1/60000 degree, 1/100000 of a fraction (table QUANTUM below); classes without an entry are checked for idempotence only",
]


class IntLike:
    """numbers.Integral look-alike (what numpy.int64 is to python-pptx)."""

    def __init__(self, v):
        self.v = v

    def __int__(self):
        return self.v

    def __index__(self):
        return self.v

    def __str__(self):
        return str(self.v)

    def __repr__(self):
        return "IntLike(%d)" % self.v

    def __lt__(self, o):
        return self.v < o

    def __gt__(self, o):
        return self.v > o

    def __le__(self, o):
        return self.v <= o

    def __ge__(self, o):
        return self.v >= o

    def __eq__(self, o):
        return self.v == (o.v if isinstance(o, IntLike) else o)

    def __hash__(self):
        return hash(self.v)

    def __mul__(self, o):
        return self.v * o

    __rmul__ = __mul__

    def __float__(self):
        return float(self.v)


numbers.Integral.register(IntLike)

INT_BOUNDS = [
    0, 1, 2, 8, 9, 48, 49, 72, 73, 100, 255, 256, 300, 301, 500, 501, 1000, 1001, 65535, 65536, 400000, 400001,
    914399, 914400, 20116800, 20116801, 21599999, 21600000, 51206400, 51206401, 2147483647, 2147483648,
    4294967295, 4294967296, 27273042316900, 27273042316901, 27273042329600, 27273042329601,
    9223372036854775807, 9223372036854775808,
]


def value_grid(rnd=None, extra=0):
    vals = []

    def add(v, cls):
        vals.append((v, cls))

    for b in INT_BOUNDS:
        add(b, "int-bound")
        add(-b, "int-bound")
    for b in (-101, -100, 99, 101, 254, 257, 299, 499, 999):
        add(b, "int-near-bound")
    for f in (0.0, -0.0, 1.0, 0.5, 1.5, 2.5, 100.0, 0.99999, 0.999994, 0.999995, 0.999996, 1.0000001, 1.000004, 1.000006,
              359.9999999, 359.99999, 359.999991, 359.999992, 360.0, 360.000001, 719.9999999, -1e-7, -1e-5, -0.0000083, -0.0000084,
              1e-7, 5e-6, 4.9e-6, 5.1e-6, 132.0, 132.000001, 131.999999, 21474.83647, 21474.83648, -21474.83648, -21474.83649,
              99.9994, 99.9995, 99.9999, 100.0004, 1.0004, 0.9996, 12.7, 1e300, -1e300, 1e-300, 42.42, -42.42, 2147483647.5, 1e10):
        add(f, "float")
        add(math.nextafter(f, math.inf), "float-threshold-neighbour")
        add(math.nextafter(f, -math.inf), "float-threshold-neighbour")
    for f in (math.inf, -math.inf, math.nan):
        add(f, "float-nonfinite")
    add(True, "bool")
    add(False, "bool")
    add(None, "None")
    for s in ("", "abc", "12", "0", "true", "FF0000", "ff00aa", "GG0000", "12345", "1234567", " ", "a b", "é", "x" * 300):
        add(s, "str")
    # strings Python's own number parsers take but no XSD lexical space does: sign, prefix, digit separator, padding, other digits
    for s in ("+12345", "-12345", "0x1234", "1_2345", " 12345", "12345 ", "\u0661\u0662\u0663\u0664\u0665\u0666", "+1", "1_0", " 1", "0x10", "1e2", "\uff11\uff12"):
        add(s, "str-python-number-syntax")
    add(b"abc", "bytes")
    add(decimal.Decimal("1.5"), "Decimal")
    add(decimal.Decimal("100"), "Decimal")
    add(fractions.Fraction(1, 3), "Fraction")
    add(fractions.Fraction(300, 1), "Fraction")
    add(3e303, "float-huge")  # finite, but any scaling of it overflows
    add(-3e303, "float-huge")
    add(10 ** 400, "int-beyond-float")  # an int no float can hold: refused like any other unrepresentable number
    add(-(10 ** 400), "int-beyond-float")
    for v in (0, 1, 100, 256, 300, 1000, 400000, 2 ** 31):
        add(IntLike(v), "IntLike")
    add([1], "list")
    add((1, 2), "tuple")
    add(object, "type")
    if rnd is not None:
        for _ in range(extra):
            k = rnd.random()
            if k < 0.4:
                add(rnd.randint(-2 ** 33, 2 ** 33), "random-int")
            elif k < 0.7:
                add(rnd.uniform(-400, 400), "random-float")
            else:
                add(rnd.uniform(-1.5, 1.5), "random-fraction")
    return vals


LEX_POOL = [
    "0", "1", "-1", "+5", "007", "-0", " 5 ", "255", "256", "300", "500", "1000", "100", "65535", "2147483647", "-2147483648",
    "4294967295", "21599999", "20116800", "51206400", "914400", "27273042316900", "-27273042329600", "400000",
    "true", "false", "50%", "-12.5%", "0.5%", "100%", "0%", "150%", "1000%", "1.5pt", "2in", "-3.2mm", "1cm", "1pc", "1pi", "0in", "12700",
    "FF00aa", "ff0000", "000000", "1.5", "1e3", "INF", "-INF", "NaN", "1.0E2", "0.0", "-0.0", ".5", "5.", "100000", "50000", "-50000",
    "Internal", "External", "abc", "rId1", "", "a b", "http://x/y", "application/xml", "xml",
    " FF00aa ", "\n000000",  # (xsd:hexBinary collapses white space too)
    " 1 ", "\ttrue\n", " false", "0 ",  # (xsd:boolean, like the numbers, collapses white space: valid forms of 1, true, false, 0)
]

# quantum (absolute tolerance) for read-back, by simple-type class name
QUANTUM = {
    "ST_Angle": ("mod360", 1 / 60000.0),
    "ST_PositiveFixedAngle": ("mod360", 1 / 60000.0),
    "ST_Percentage": ("abs", 1e-5),
    "ST_PositiveFixedPercentage": ("abs", 1e-5),
    "ST_TextSpacingPercentOrPercentString": ("abs", 1e-5),
    "ST_TextFontScalePercentOrPercentString": ("abs", 1e-3),
    "ST_TextSpacingPoint": ("abs", 127),
}


def plan(tier, seed):
    n = 16
    return (
        [{"kind": "attrs", "shard": i, "of": n, "extra": 0 if tier == "quick" else 2000} for i in range(n)]
        + [{"kind": "enums"}, {"kind": "suite"}, {"kind": "defaults"}]
        + [{"kind": "api_lexical", "shard": i, "of": 4, "per_row": 2 if tier == "quick" else 12} for i in range(4)]
        + [{"kind": "corpus_lexical", "shard": i, "of": 8, "orders": 1 if tier == "quick" else 4} for i in range(8)]
        + [{"kind": "corpus", "shard": i, "of": 4} for i in range(4)]
        + [{"kind": "online", "n": 30 if tier == "quick" else 500, "shard": i} for i in range(4 if tier == "quick" else 16)]
    )


def _short(v):
    r = repr(v)
    return r if len(r) < 40 else r[:37] + "..."


_foreign = []


def foreign_members(own):
    """Members of every OTHER enumeration python-pptx ships (XML-mapped or not): wrong Python types for an enumerated attribute
    that happen to be ints.  Either rejected, or taken as the int they are and written as one of the attribute type's own tokens."""
    if not _foreign:
        from pptx.enum.base import BaseEnum, BaseXmlEnum

        import pptx.enum.action, pptx.enum.chart, pptx.enum.dml, pptx.enum.lang, pptx.enum.shapes, pptx.enum.text  # noqa

        def subs(c):
            for s in c.__subclasses__():
                yield s
                yield from subs(s)

        seen = []
        for E in list(subs(BaseXmlEnum)) + list(subs(BaseEnum)):
            if E not in seen and E.__name__ != "MSO_LANGUAGE_ID":  # 200+ members: three of them stand for all
                seen.append(E)
                _foreign.extend(list(E))
        from pptx.enum.lang import MSO_LANGUAGE_ID

        _foreign.extend(list(MSO_LANGUAGE_ID)[:3])
    return [(m, "foreign-enum-member") for m in _foreign if type(m) is not own]


_parents = {}


def parents_adding(child_tag):
    """[(parent tag, '_add_<x>')] for the registered classes whose generated adder creates `child_tag` and takes attributes."""
    if not _parents:
        from vlib import introspect

        for ptag, pcls in introspect.registrations().items():
            for dd in introspect.child_decls(pcls):
                m = "_add_" + dd["prop"]
                if dd.get("tag") and m in dd["methods"] and dd["generated"].get(m):
                    _parents.setdefault(dd["tag"], []).append((ptag, m))
    return _parents.get(child_tag, [])


def vclass_key(v):
    if hasattr(type(v), "__members__"):
        return "enum-member"
    if isinstance(v, bool):
        return "bool"
    if isinstance(v, float):
        if math.isnan(v):
            return "nan"
        if math.isinf(v):
            return "inf"
        return "float"
    return type(v).__name__


def candidate_types(T, d):
    from vlib import xsdkit

    m = xsdkit.model()
    out = []
    for tau in sorted({t for t in m.elem_decls.get(T, {}).values() if t and m.is_complex(t)}):
        a = m.attributes(tau).get(d["clark"])
        if a is not None and a[0] is not None:
            if a[0] not in out:
                out.append(a[0])
    return out


def valid_for_any(types, text):
    from vlib import xsdkit

    msg = ""
    for t in types:
        ok, msg = xsdkit.type_valid(t, text)
        if ok:
            return True, ""
    return False, msg


def close(stname, wrote, got):
    """Is read-back `got` within the quantum of what was assigned?"""
    if isinstance(wrote, str) and isinstance(got, str) and stname in ("XsdToken", "XsdTokenEnumeration"):
        # a token IS its white-space-collapsed form: ' a  b ' and 'a b' are one value of the type
        return re.sub("[ \t\n\r]+", " ", got).strip(" ") == re.sub("[ \t\n\r]+", " ", wrote).strip(" ")
    if isinstance(wrote, str) or wrote is None:
        return got == wrote
    if isinstance(wrote, bool) and isinstance(got, bool):
        return got == wrote
    if isinstance(wrote, int) and not isinstance(wrote, bool) and abs(wrote) > 2 ** 53 and QUANTUM.get(stname, ("", 0))[0] == "mod360":
        wrote = wrote % 360  # exact: an int of any size is a whole number of degrees
    try:
        w, g = float(wrote), float(got)
    except Exception:
        return got == wrote
    qd = QUANTUM.get(stname)
    if qd is None:
        return w == g or (math.isnan(w) and math.isnan(g))
    mode, q = qd
    if mode == "mod360":
        d = (g - w) % 360.0
        return min(d, 360.0 - d) <= q * (1 + 1e-9) + abs(w) * 1e-15
    return abs(g - w) <= q * (1 + 1e-9) + abs(w) * 4e-16


def check_attr(T, cls, d, acc, grid):
    from pptx.oxml import oxml_parser
    from vlib import xsdkit

    st = d["simple_type"]
    stname = st.__name__
    tT = xsdkit.pfx_tag(T)
    types = candidate_types(T, d)
    if not types:
        acc.count("attributes_without_resolvable_xsd_type")
        acc.note("no XSD type resolved for %s/@%s (%s)" % (tT, d["attr"], stname))
        return
    acc.count("attribute_declarations")
    ident = "%s/@%s" % (tT, d["attr"])
    if hasattr(st, "__members__"):
        grid = list(grid) + [(mb, "own-enum-member") for mb in st if mb.xml_value] + foreign_members(st)
    rejected_vals, good = [], None
    for v, vcls in grid:
        el = oxml_parser.makeelement(T)
        before = dict(el.attrib)
        nontriv = vcls != "float" and vcls != "random-float"
        acc.case(desc=None, nontrivial=False, cls=vcls)
        if nontriv:
            acc.keys.add(acc_key(ident, v))
        try:
            setattr(el, d["prop"], v)
        except (TypeError, ValueError) as e:
            acc.count("rejected_TypeError_or_ValueError")
            rejected_vals.append(v)
            if dict(el.attrib) != before:
                acc.violation(
                    "rejected-but-written:%s" % stname,
                    "%s = %s raised %s but left attributes %r" % (ident, _short(v), type(e).__name__, dict(el.attrib)),
                    {"T": T, "prop": d["prop"], "value": repr(v)},
                )
            continue
        except Exception as e:  # noqa
            acc.violation(
                "reject-wrong-exception:%s:%s:%s" % (stname, vclass_key(v), type(e).__name__),
                "%s = %s raised %s: %s (neither TypeError nor ValueError)" % (ident, _short(v), type(e).__name__, e),
                {"T": T, "prop": d["prop"], "value": repr(v)},
            )
            continue
        acc.count("accepted")
        acc.hit("to_xml:" + stname)
        wrote = el.get(d["clark"])
        if wrote is None:
            acc.count("accepted_as_default_attribute_removed")
            continue
        if good is None and isinstance(wrote, str):
            good = wrote
        if not isinstance(wrote, str):
            acc.violation("wrote-non-string:%s" % stname, "%s wrote %r" % (ident, wrote), {"T": T, "prop": d["prop"], "value": repr(v)})
            continue
        ok, msg = valid_for_any(types, wrote)
        acc.count("written_forms_validated")
        if not ok:
            acc.violation(
                "accepts-invalid:%s:%s" % (vclass_key(v), stname),
                "%s = %s was accepted and written as %r: %s" % (ident, _short(v), wrote, msg),
                {"T": T, "prop": d["prop"], "value": repr(v)},
            )
            continue
        try:
            got = getattr(el, d["prop"])
        except Exception as e:  # noqa
            acc.violation(
                "own-output-unreadable:%s" % stname,
                "%s = %s wrote %r which the getter cannot read: %r" % (ident, _short(v), wrote, e),
                {"T": T, "prop": d["prop"], "value": repr(v)},
            )
            continue
        acc.count("readbacks_compared")
        vv = int(v) if isinstance(v, IntLike) else v
        if isinstance(vv, (decimal.Decimal, fractions.Fraction)):
            vv = float(vv)
        if hasattr(st, "__members__"):
            same = got == vv
        elif stname == "ST_HexColorRGB":
            same = isinstance(vv, str) and got == vv.upper()
        else:
            same = close(stname, vv, got)
        if not same and hasattr(st, "__members__") and sum(1 for mb in st if mb.xml_value == wrote) > 1:
            # two members of the enumeration share this token (C20's duplicate-token findings): the later one reads back as the earlier
            acc.violation(
                "readback:duplicate-token:%s:%s:%s" % (stname, wrote, st(vv).name),
                "%s = %s wrote %r, which %s also stands for: read back %r" % (ident, _short(v), wrote, [mb.name for mb in st if mb.xml_value == wrote], got),
                {"T": T, "prop": d["prop"], "value": repr(v)},
            )
        elif not same:
            acc.violation(
                "readback-outside-quantum:%s" % stname,
                "%s = %s wrote %r, read back %r" % (ident, _short(v), wrote, got),
                {"T": T, "prop": d["prop"], "value": repr(v)},
            )
    # ---- "exactly those the schema can represent": the inclusive bounds of the XSD type the class is named after, as Python
    # ints, are representable - they must be accepted (a bound turned exclusive, a range copied from a sibling type)
    own_t = own_xsd_type(st, types)
    if own_t is not None and not hasattr(st, "__members__"):
        fc = xsdkit.model().facets(own_t)
        for which in ("minInclusive", "maxInclusive"):
            b = fc.get(which)
            if b is None or not re.fullmatch(r"-?[0-9]+", b) or not valid_for_any(types, b)[0]:
                continue
            el = oxml_parser.makeelement(T)
            acc.count("schema_bounds_assigned")
            try:
                setattr(el, d["prop"], int(b))
            except (TypeError, ValueError) as e:
                acc.violation(
                    "rejects-representable:%s:%s" % (stname, which),
                    "%s = %s (the %s of %s) was rejected: %s" % (ident, b, which, xsdkit.pfx_tag(own_t), str(e)[:100]),
                    {"T": T, "prop": d["prop"], "value": b},
                )
            except Exception:  # noqa  (other exceptions: judged with the grid above)
                pass
    # ---- "rejected before anything is written", on an attribute that already HOLDS a value: it must still hold it afterwards
    for v in rejected_vals if good is not None else ():
        el = oxml_parser.makeelement(T)
        el.set(d["clark"], good)
        before = dict(el.attrib)
        try:
            setattr(el, d["prop"], v)
        except Exception:  # noqa  (which exception: judged above, on the fresh element)
            pass
        else:
            continue
        acc.count("rejections_on_an_attribute_holding_a_value")
        if dict(el.attrib) != before:
            acc.violation(
                "rejected-but-changed-existing:%s" % stname,
                "%s held %r; = %s was rejected but left attributes %r" % (ident, good, _short(v), dict(el.attrib)),
                {"T": T, "prop": d["prop"], "value": repr(v), "held": good},
            )
    # ---- the same rejection reached through a PARENT's generated adder, `parent._add_x(attr=value)`: nothing may be added
    for ptag, meth in parents_adding(T)[:2]:
        for v in rejected_vals[:8]:
            parent = oxml_parser.makeelement(ptag)
            try:
                getattr(parent, meth)(**{d["prop"]: v})
            except (TypeError, ValueError):
                acc.count("rejections_through_a_parent_adder")
                if len(parent):
                    acc.violation(
                        "rejected-but-child-added:%s" % stname,
                        "<%s>.%s(%s=%s) was rejected but left %s in the parent" % (xsdkit.pfx_tag(ptag), meth, d["prop"], _short(v), [xsdkit.pfx_tag(c.tag) for c in parent]),
                        {"T": T, "prop": d["prop"], "value": repr(v), "parent": ptag},
                    )
            except Exception:  # noqa  (adders with other required arguments, other exceptions: judged on the element itself above)
                pass
    # ---- reading: every schema-valid lexical alternative
    m = xsdkit.model()
    pool = list(LEX_POOL)
    for t in types:
        for tok in m.enumeration(t) or []:
            if tok not in pool:
                pool.append(tok)
    is_enum = hasattr(st, "__members__")
    own = own_xsd_type(st, types)
    if is_enum:
        # an enumeration class claims exactly the schema's tokens; on a free-string attribute (lang) the
        # values met in documents are read by the corpus unit instead
        pool = [t for t in pool if any(t in (m.enumeration(ty) or []) for ty in types)]
        # ... in every lexical form: an xsd:token enumeration collapses white space, ' ctr ' is the token ctr (libxml2 decides
        # below whether the padded form is valid for the declared type)
        # (tokens the class maps at all: a token without a member is reported once, in its plain form)
        mapped = [t for t in pool if any(getattr(mem, "xml_value", None) == t for mem in st)]
        pool += [" %s " % t for t in mapped[:1]] + ["\n%s\t" % t for t in mapped[1:2]]
    elif own is None:
        acc.count("classes_without_same_named_xsd_type")
    readings = {}
    for text in list(pool):  # every percent / universal-measure / boolean form brings its plain-number equivalent along
        eq = equivalent_plain_form(text)
        if eq is not None and eq not in pool:
            pool.append(eq)
    for text in pool:
        ok, _ = valid_for_any(types, text)
        if not ok:
            continue
        if own is not None and not is_enum:
            if not xsdkit.type_valid(own, text)[0]:
                acc.count("forms_valid_for_declared_type_but_not_for_the_class_named_type")
                continue
        el = oxml_parser.makeelement(T)
        el.set(d["clark"], text)
        acc.count("schema_valid_forms_read")
        acc.hit("from_xml:" + stname)
        acc.case(desc=None, nontrivial=False, cls="lexical-form")
        acc.keys.add(acc_key(ident, "lex:" + text))
        try:
            got_form = getattr(el, d["prop"])
            readings[text] = got_form
        except Exception as e:  # noqa
            if is_enum:
                key = "unreadable-token:%s:%s" % (stname, text if text == text.strip() else "surrounding-whitespace")
            else:
                key = "unreadable-form:%s:%s" % (stname, lex_class(text))
            acc.violation(key, "%s=%r is schema-valid but the getter raises %s: %s" % (ident, text, type(e).__name__, e), {"T": T, "prop": d["prop"], "text": text})

    # lexical alternatives of one value must read alike: 'N%' and its thousandths-of-a-percent integer, a universal measure and
    # its EMU count, 'true' and '1' (the harness's own arithmetic says which plain number a form stands for)
    for text, got_form in readings.items():
        eq = equivalent_plain_form(text)
        if eq is None or eq not in readings:
            continue
        a, b = got_form, readings[eq]
        if isinstance(a, str) or isinstance(b, str):
            continue  # a string-typed attribute: the two texts are just two strings
        acc.count("equivalent_lexical_forms_compared")
        same = a == b or (isinstance(a, (int, float)) and isinstance(b, (int, float)) and not isinstance(a, bool) and abs(a - b) <= 1e-9 * max(1.0, abs(a), abs(b)))
        if not same:
            acc.violation(
                "lexical-alternatives-disagree:%s:%s" % (stname, lex_class(text)),
                "%s=%r reads %r but the equivalent %r reads %r" % (ident, text, a, eq, b),
                {"T": T, "prop": d["prop"], "text": text},
            )


_UM = {"mm": 36000, "cm": 360000, "in": 914400, "pt": 12700, "pc": 152400, "pi": 152400}


def equivalent_plain_form(text):
    """The plain-number lexical form that stands for the same value as a percent string, a universal measure or a boolean
    word (None when `text` is none of these or the equivalent is not a whole number)."""
    m = re.fullmatch(r"(-?[0-9]+(?:\.[0-9]+)?)%", text)
    if m:
        v = decimal.Decimal(m.group(1)) * 1000
        return str(int(v)) if v == v.to_integral_value() else None
    m = re.fullmatch(r"(-?[0-9]+(?:\.[0-9]+)?)(mm|cm|in|pt|pc|pi)", text)
    if m:
        v = decimal.Decimal(m.group(1)) * _UM[m.group(2)]
        return str(int(v)) if v == v.to_integral_value() else None
    if text != text.strip() and text.strip() and text.strip() not in ("true", "false"):
        return text.strip()  # (every type but xsd:string collapses white space; string-typed readings are not compared)
    return {"true": "1", "false": "0"}.get(text.strip())


BUILTIN_OF = {
    "XsdBoolean": "boolean", "XsdInt": "int", "XsdLong": "long", "XsdUnsignedInt": "unsignedInt", "XsdUnsignedByte": "unsignedByte",
    "XsdUnsignedShort": "unsignedShort", "XsdDouble": "double", "XsdString": "string", "XsdToken": "token", "XsdId": "ID",
    "XsdAnyUri": "anyURI",
}


def own_xsd_type(st, types):
    """The XSD simple type a python-pptx simple-type class is named after (its documented intent)."""
    from vlib import xsdkit

    m = xsdkit.model()
    name = st.__name__
    if name in BUILTIN_OF:
        return "{%s}%s" % (xsdkit.XS, BUILTIN_OF[name])
    # prefer the namespace of a declared candidate type
    nss = [t[1:].split("}")[0] for t in types] + [xsdkit.NS["a"], xsdkit.NS["p"], xsdkit.NS["c"], xsdkit.NS["s"], xsdkit.NS["ct"], xsdkit.NS["pr"]]
    for ns in nss:
        if ("{%s}%s" % (ns, name)) in m.types:
            return "{%s}%s" % (ns, name)
    return None


def lex_class(text):
    import re

    if text.endswith("%"):
        return "percent-literal"
    if re.fullmatch(r"-?[0-9.]+(mm|cm|in|pt|pc|pi)", text):
        return "universal-measure"
    if text.startswith("+"):
        return "plus-sign"
    if text != text.strip():
        return "surrounding-whitespace"
    if re.fullmatch(r"-?0[0-9]+", text):
        return "leading-zeros"
    if text in ("true", "false"):
        return "boolean-word"
    if re.fullmatch(r"-?[0-9]+", text):
        return "integer"
    if re.fullmatch(r"[-+]?([0-9]*\.[0-9]+|[0-9]+\.?)([eE][-+]?[0-9]+)?", text):
        return "decimal-or-exponent"
    if text in ("INF", "-INF", "NaN"):
        return "special-double"
    return "other"


def acc_key(ident, v):
    from vlib.env import khash

    return khash([ident, repr(v)])


def run_unit(unit, tier, seed, acc):
    from vlib import env, introspect

    if unit.get("kind") == "suite":  # the repository's own tests as one more workload for this property's monitor
        from vlib import suite

        return suite.run_suite_unit(ID, acc)
    if unit["kind"] == "enums":
        return run_enums(acc)
    if unit["kind"] == "defaults":
        return run_defaults(acc)
    if unit["kind"] == "corpus":
        return run_corpus(unit, acc)
    if unit["kind"] == "api_lexical":
        return run_api_lexical(unit, seed, acc)
    if unit["kind"] == "corpus_lexical":
        return run_corpus_lexical(unit, seed, acc)
    if unit["kind"] == "online":
        from vlib import histories

        return histories.run_online_unit("C11", unit, tier, seed, acc)
    regs = introspect.registrations()
    tags = sorted(regs)
    for i, T in enumerate(tags):
        if i % unit["of"] != unit["shard"]:
            continue
        cls = regs[T]
        for d in introspect.attr_decls(cls):
            grid = value_grid(env.rng("C11", T, d["attr"]), unit["extra"])
            check_attr(T, cls, d, acc, grid)
            if len(acc.samples) < 3:
                acc.samples.append({"tag": T.split("}")[1], "attribute": d["attr"], "simple_type": d["simple_type"].__name__, "values_tried": len(grid), "first": [_short(v) for v, _ in grid[:6]]})


def _alternatives(el, name, text):
    """Other lexical forms of attribute `name` of `el` that the schema type of that attribute accepts and that stand for the same
    value: a universal measure for a whole number of EMU, a percent string, the other spelling of a boolean."""
    from vlib import instgen, xsdkit

    tname = instgen.declared_type(el)
    if tname is None:
        return []
    try:
        typ = xsdkit.model().attributes(tname).get(name, (None,))[0]
    except Exception:  # noqa
        return []
    if typ is None:
        return []
    out = []
    if re.fullmatch(r"-?[0-9]+", text):
        v = int(text)
        if v % 12700 == 0:
            out.append("%dpt" % (v // 12700))
        if v % 9144 == 0:
            out.append(("%.2f" % (v / 914400.0)).rstrip("0").rstrip(".") + "in")
        if v % 360 == 0:
            out.append(("%.3f" % (v / 36000.0)).rstrip("0").rstrip(".") + "mm")
        chart = el.tag.startswith("{http://schemas.openxmlformats.org/drawingml/2006/chart}")
        if chart:
            out.append("%d%%" % v)
        elif v % 1000 == 0:
            out.append("%d%%" % (v // 1000))
        out += {"1": ["true"], "0": ["false"]}.get(text, [])
        out.append(("-00" + text[1:]) if text.startswith("-") else "00" + text)  # leading zeros: the same number
    else:
        out += {"true": ["1"], "false": ["0"]}.get(text, [])
    # white space around the value, where the type collapses it (numbers, booleans, tokens, hexBinary colours - not strings, where
    # it is part of the value, and not unions, whose string members would make it one)
    try:
        base = xsdkit.model().facets(typ).get("base")
    except Exception:  # noqa
        base = None
    if base in ("token", "hexBinary", "boolean", "int", "unsignedInt", "long", "unsignedLong", "short", "unsignedShort", "byte", "unsignedByte", "integer", "double") and text == text.strip():
        out += [" %s " % text, "\n%s" % text]
    good = []
    for alt in out:
        try:
            if alt != text and xsdkit.type_valid(typ, alt)[0]:
                good.append(alt)
        except LookupError:
            pass
    return good


def _bounds(el, name):
    from vlib import instgen, xsdkit

    tname = instgen.declared_type(el)
    try:
        typ = xsdkit.model().attributes(tname).get(name, (None,))[0]
        fc = xsdkit.model().facets(typ)
    except Exception:  # noqa
        return []
    out = []
    for which in ("minInclusive", "maxInclusive"):
        b = fc.get(which)
        if b is not None and re.fullmatch(r"-?[0-9]+", b) and xsdkit.type_valid(typ, b)[0]:
            out.append(b)
    return out


def run_api_lexical(unit, seed, acc):
    """'Every schema-valid lexical form met in a document can be read' - through the API READERS, whatever route they take to the
    attribute (a declared attribute, a hand-written helper doing its own int(), an XPath): for each row of the C09 table an
    in-domain value is assigned through the API, the attribute(s) that assignment wrote are found by comparing the part before
    and after, each is re-spelt in an equivalent form valid for its schema type (5pt / 0.1in for EMU, 50% for thousandths,
    true for 1), and the API is read again: it must report what it reported for python-pptx's own spelling."""
    from props import c09
    from vlib import env, xsdkit

    t = c09.T()
    rows = [r for r in t.ROWS]
    for i, row in enumerate(rows):
        if i % unit["of"] != unit["shard"]:
            continue
        vals = [(v, c) for v, c in c09.ok_values(row) if v is not None][: unit["per_row"] * 3]
        rnd = env.rng("C11api", seed, row.id)
        rnd.shuffle(vals)
        prs = c09.new_deck()
        for k, (v, vcls) in enumerate(vals[: unit["per_row"]]):
            try:
                sl = c09.fresh_slide(prs, row, env.rng("C09", "fixture", row.id, k))
                roots = [prs._element] if row.path.startswith("prs") else [sl._element]
                if ".chart" in row.path:
                    roots.append(c09.resolve(row.path[: row.path.index(".chart") + 6], prs, sl)._chartSpace)
                # (taken before the object is resolved: reaching a point's format or label already writes its c:idx)
                before = {(ri, r_.getroottree().getpath(e), a): tx for ri, r_ in enumerate(roots) for e in r_.iter() if isinstance(e.tag, str) for a, tx in e.attrib.items()}
                obj = c09.resolve(row.path, prs, sl)
            except Exception:  # noqa
                acc.count("api_lexical:fixture_failed")
                continue
            try:
                row.set(obj, v)
            except Exception:  # noqa  (C09 judges whether an in-domain value may raise)
                continue
            r1 = c09.read(row, obj)
            if isinstance(r1, c09.Raises):
                continue
            wrote = [(e, a, tx) for ri, r_ in enumerate(roots) for e in r_.iter() if isinstance(e.tag, str) for a, tx in e.attrib.items() if before.get((ri, r_.getroottree().getpath(e), a)) != tx]
            acc.count("api_lexical:assignments")
            wrote.sort(key=lambda w_: w_[0].tag.rsplit("}", 1)[1] not in ("idx", "order"))  # indices first: lookups hang on them
            for e, a, tx in wrote[:6]:
                for alt in _alternatives(e, a, tx):
                    e.set(a, alt)
                    try:
                        try:
                            obj2 = c09.resolve(row.path, prs, sl)  # resolved anew: lookups by index happen on the way
                        except Exception as ex:  # noqa
                            r2 = c09.Raises(type(ex).__name__)
                        else:
                            r2 = c09.read(row, obj2)
                    finally:
                        e.set(a, tx)
                    acc.count("api_lexical:alternative_forms_read")
                    acc.hit("api-reader:" + row.id)
                    if not c09.same(row.cmp, r1, r2):
                        acc.violation(
                            "api-reader-lexical-alternative:%s:%s" % (row.id, xsdkit.pfx_tag(e.tag) + "/@" + a.rsplit("}", 1)[-1]),
                            "%s = %s wrote %s/@%s=%r and reads %s; with the equivalent form %r the API reads %s" % (row.id, c09.short(v), xsdkit.pfx_tag(e.tag), a, tx, c09.short(r1), alt, c09.short(r2)),
                            {"api_lexical": row.id, "value": c09.enc(v), "alt": alt, "seed": seed},
                        )
                # ... and the inclusive bounds of the attribute's schema type are forms a document may carry: the reader must
                # report something (what it reports is C09's business), not raise
                if e.tag.rsplit("}", 1)[1] in ("idx", "order", "ptCount") or not re.fullmatch(r"-?[0-9]+", tx):
                    continue
                for alt in _bounds(e, a):
                    if alt == tx:
                        continue
                    e.set(a, alt)
                    try:
                        r2 = c09.read(row, obj)
                    finally:
                        e.set(a, tx)
                    acc.count("api_lexical:schema_bounds_read")
                    if isinstance(r2, c09.Raises):
                        acc.violation(
                            "api-reader-raises-on-schema-bound:%s:%s" % (row.id, xsdkit.pfx_tag(e.tag) + "/@" + a.rsplit("}", 1)[-1]),
                            "%s: with %s/@%s=%r (a bound of the attribute's schema type) the API reader raises %s" % (row.id, xsdkit.pfx_tag(e.tag), a, alt, r2),
                            {"api_lexical": row.id, "value": c09.enc(v), "alt": alt, "seed": seed},
                        )
            acc.case(desc=("api_lexical", row.id, k), nontrivial=bool(wrote), cls="api-reader")


def respell_numbers(prs, rnd, share=0.6):
    """Every whole-number attribute (type decided by the schema: the padded spelling is valid, a letter in front is not) of the
    deck's slide-like and chart parts re-spelt with leading zeros, booleans as the other word: the same document for any reader
    that reads numbers.  -> number of attributes re-spelt."""
    from lxml import etree
    from vlib import instgen, xsdkit

    m, n = xsdkit.model(), 0
    numeric = {}
    stats = respell_numbers.stats
    for part in prs.part.package.iter_parts():
        root = getattr(part, "_element", None)
        if root is None or etree.QName(root).namespace not in (xsdkit.NS["p"], xsdkit.NS["c"]):
            continue
        chart = etree.QName(root).namespace == xsdkit.NS["c"]
        for el in root.iter():
            if not isinstance(el.tag, str) or not el.attrib:
                continue
            tname = instgen.declared_type(el)
            if tname is None:
                continue
            try:
                decl = m.attributes(tname)
            except Exception:  # noqa
                continue
            for a, tx in list(el.attrib.items()):
                typ = decl.get(a, (None,))[0]
                if typ is None or rnd.random() > share:
                    continue
                if re.fullmatch(r"-?[0-9]+", tx):
                    alt = ("-00" + tx[1:]) if tx.startswith("-") else "00" + tx
                    k = (typ, len(tx) > 6)
                    if k not in numeric:
                        try:
                            numeric[k] = xsdkit.type_valid(typ, alt)[0] and not xsdkit.type_valid(typ, "x" + tx)[0]
                        except LookupError:
                            numeric[k] = False
                    if numeric[k] and xsdkit.type_valid(typ, alt)[0]:
                        v = int(tx)
                        um = "%dpt" % (v // 12700) if v % 12700 == 0 else None
                        pc = None if chart or v % 1000 else "%d%%" % (v // 1000)
                        for other in (um, pc):  # a universal measure / a percent string where the type is such a union
                            if other is not None and rnd.random() < 0.5:
                                kk = (typ, other[-1])
                                if kk not in numeric:
                                    try:
                                        numeric[kk] = xsdkit.type_valid(typ, other)[0]
                                    except LookupError:
                                        numeric[kk] = False
                                if numeric[kk]:
                                    alt = other
                                    stats[other[-1]] = stats.get(other[-1], 0) + 1
                        el.set(a, alt)
                        n += 1
                elif tx in ("true", "false") and typ.endswith("}boolean"):
                    el.set(a, {"true": "1", "false": "0"}[tx])
                    n += 1
    return n


respell_numbers.stats = {}


def run_corpus_lexical(unit, seed, acc):
    """'Every schema-valid lexical form met in a document can be read', over everything the read-only traversal of C12 reads on
    every corpus deck: the deck as it is and the deck with its whole numbers zero-padded must read alike, accessor by accessor."""
    import io

    import pptx
    from props import c12
    from vlib import env

    decks = env.corpus_decks()
    for i, path in enumerate(decks):
        if i % unit["of"] != unit["shard"]:
            continue
        data = open(path, "rb").read()
        label = os.path.basename(path)
        for o in range(unit["orders"]):
            recs, raised = [], []
            for variant in (False, True):
                prs = pptx.Presentation(io.BytesIO(data))
                if variant:
                    n = respell_numbers(prs, env.rng("C11respell", label, seed, o))
                    acc.count("corpus_lexical:attributes_respelt", n)
                c12.RECORD = []
                try:
                    c12.traverse(prs, env.rng("C11trav", label, seed, o), ("basic", "format"))
                    raised.append(None)
                except Exception as e:  # noqa
                    raised.append(type(e).__name__)
                finally:
                    recs.append(c12.RECORD)
                    c12.RECORD = None
            if raised[0] is not None:
                acc.count("corpus_lexical:deck_not_traversable_as_it_is:%s" % raised[0])
                if raised[1] is None:
                    continue
            elif raised[1] is not None:
                acc.violation("api-reader-lexical-variant:traversal-raises:%s" % raised[1], "%s: the traversal completes on the deck as it is and raises %s after reading #%d when its whole numbers are zero-padded" % (label, raised[1], len(recs[1])), {"corpus_lexical": os.path.relpath(path, env.REPO), "order": o, "seed": seed})
                continue
            a, b = recs
            acc.count("corpus_lexical:readings_compared", min(len(a), len(b)))
            for k_, v_ in respell_numbers.stats.items():
                acc.count("corpus_lexical:respelt_as_%s" % {"t": "universal_measure", "%": "percent_string"}.get(k_, k_), v_)
            respell_numbers.stats.clear()
            acc.case(desc=("corpus_lexical", label, o), nontrivial=len(a) > 30, cls="corpus-reader")
            for k, (x, y) in enumerate(zip(a, b)):
                if x != y:
                    acc.violation(
                        "api-reader-lexical-variant:%s" % x[0],
                        "%s: reading #%d, %s, is %s on the deck as it is and %s (%s) when its whole numbers are zero-padded" % (label, k, x[0], x[1], y[1], y[0]),
                        {"corpus_lexical": os.path.relpath(path, env.REPO), "order": o, "seed": seed},
                    )
                    break
            else:
                if len(a) != len(b):
                    acc.violation("api-reader-lexical-variant:traversal-length", "%s: %d readings on the deck as it is, %d with zero-padded numbers" % (label, len(a), len(b)), {"corpus_lexical": os.path.relpath(path, env.REPO), "order": o, "seed": seed})


# Defaults the schema leaves to the prose of ECMA-376-1 (21.1.2.1.1 bodyPr: "If this attribute is omitted, a value of 91440 /
# 45720 ... is implied"; PowerPoint's own masters spell exactly these out, see docs/dev/analysis/placeholders/master-placeholders.rst)
PROSE_DEFAULTS = {("a:bodyPr", "lIns"): "91440", ("a:bodyPr", "tIns"): "45720", ("a:bodyPr", "rIns"): "91440", ("a:bodyPr", "bIns"): "45720"}


def run_defaults(acc):
    """'Reading the written form returns the value written' includes the form NOT written: a setter given the value a class
    declares as the attribute's default removes the attribute, and any other reader then takes the SCHEMA's default.  Where
    the schema (or, for the four text insets, the standard's prose) states a default and the class declares one, they must be
    one value - read through the class's own from_xml."""
    from vlib import introspect, xsdkit

    m = xsdkit.model()
    for T, cls in sorted(introspect.registrations().items()):
        for d in introspect.attr_decls(cls):
            if d["required"]:
                _required_but_defaulted(m, T, cls, d, acc)
                continue
            if d["default"] is None:
                continue
            sds = set()
            for tau in sorted({t for t in m.elem_decls.get(T, {}).values() if t and m.is_complex(t)}):
                a = m.attributes(tau).get(d["clark"])
                if a is not None:
                    sds.add(a[2])
            prose = PROSE_DEFAULTS.get((xsdkit.pfx_tag(T), d["attr"]))
            if prose is not None and sds <= {None}:
                sds = {prose}
                acc.count("defaults_from_the_standards_prose")
            sds.discard(None)
            if len(sds) != 1:
                acc.count("declared_defaults_the_schema_says_nothing_about" if not sds else "declared_defaults_with_several_schema_defaults")
                continue
            sd = sds.pop()
            st, dv = d["simple_type"], d["default"]
            ident = "%s/@%s" % (xsdkit.pfx_tag(T), d["attr"])
            acc.count("declared_defaults_compared_with_the_schema")
            acc.hit("default:" + st.__name__)
            acc.case(desc={"attr": ident, "schema_default": sd}, nontrivial=True, cls="default")
            try:
                want = st.from_xml(sd)
            except Exception as e:  # noqa
                acc.violation("schema-default-unreadable:%s" % ident, "%s: the schema default %r cannot be read: %r" % (ident, sd, e), {"T": T, "prop": d["prop"], "default": sd})
                continue
            same = want == dv if hasattr(st, "__members__") or isinstance(dv, (str, bool)) else close(st.__name__, dv, want)
            if not same:
                acc.violation("declared-default-differs-from-schema:%s" % ident, "%s: the class declares default %r, the schema %r (= %r): a value the setter drops as 'default' means something else to every other reader" % (ident, dv, sd, want), {"T": T, "prop": d["prop"], "default": sd})


def _required_but_defaulted(m, T, cls, d, acc):
    """An attribute the class declares REQUIRED and the schema declares optional WITH a default: the omitted form is a
    schema-valid form of that default ('<c:size/>' is marker size 5) and must read as it through the real element class."""
    from pptx.oxml import parse_xml
    from vlib import xsdkit

    uses = set()
    for tau in sorted({t for t in m.elem_decls.get(T, {}).values() if t and m.is_complex(t)}):
        a = m.attributes(tau).get(d["clark"])
        uses.add(None if a is None else (a[1], a[2]))
    if not uses or None in uses or len(uses) != 1:
        return
    use, sd = uses.pop()
    if use == "required" or sd is None:
        acc.count("required_attributes_the_schema_requires_too" if use == "required" else "required_attributes_optional_without_default_in_the_schema")
        return
    ident = "%s/@%s" % (xsdkit.pfx_tag(T), d["attr"])
    acc.count("required_attributes_the_schema_defaults")
    acc.case(desc={"attr": ident, "schema_default": sd, "form": "omitted"}, nontrivial=True, cls="default")
    q = etree_qname(T)
    el = parse_xml("<x:%s xmlns:x=%s/>" % (q[1], quoteattr(q[0])))
    st = d["simple_type"]
    try:
        want = st.from_xml(sd)
        got = getattr(el, d["prop"])
    except Exception as e:  # noqa
        acc.violation("omitted-defaulted-attribute-unreadable:%s" % ident, "%s omitted (schema: optional, default %r): reading raised %r" % (ident, sd, e), {"T": T, "prop": d["prop"], "default": sd})
        return
    same = want == got if hasattr(st, "__members__") or isinstance(got, (str, bool)) or got is None else close(st.__name__, got, want)
    if not same:
        acc.violation("omitted-defaulted-attribute-misread:%s" % ident, "%s omitted reads %r, the schema default is %r" % (ident, got, sd), {"T": T, "prop": d["prop"], "default": sd})


def etree_qname(T):
    from lxml import etree

    q = etree.QName(T)
    return q.namespace, q.localname


def run_corpus(unit, acc):
    """Every value of every declared attribute actually met in the repository's PowerPoint-authored
    decks is read through the real getter (the 'met in a document' half of the statement)."""
    import zipfile

    from lxml import etree
    from pptx.oxml import oxml_parser
    from vlib import env, introspect, xsdkit

    regs = introspect.registrations()
    decls = {}
    for T, cls in regs.items():
        for d in introspect.attr_decls(cls):
            decls[(T, d["clark"])] = d
    seen = {}
    decks = env.corpus_decks()
    for i, path in enumerate(decks):
        if i % unit["of"] != unit["shard"]:
            continue
        try:
            zf = zipfile.ZipFile(path)
        except Exception:
            continue
        acc.count("corpus_decks_scanned")
        for name in zf.namelist():
            if not (name.endswith(".xml") or name.endswith(".rels")):
                continue
            try:
                root = etree.fromstring(zf.read(name), xsdkit.PLAIN)
            except etree.XMLSyntaxError:
                continue
            for el in root.iter():
                if not isinstance(el.tag, str):
                    continue
                for k, v in el.attrib.items():
                    if (el.tag, k) in decls:
                        seen.setdefault((el.tag, k), set()).add(v)
    for (T, k), vals in sorted(seen.items()):
        d = decls[(T, k)]
        st = d["simple_type"]
        types = candidate_types(T, d)
        ident = "%s/@%s" % (xsdkit.pfx_tag(T), d["attr"])
        for text in sorted(vals)[:300]:
            if types and not valid_for_any(types, text)[0]:
                acc.count("corpus_values_not_schema_valid_skipped")
                continue
            el = oxml_parser.makeelement(T)
            el.set(k, text)
            acc.count("corpus_values_read")
            acc.hit("from_xml:" + st.__name__)
            acc.case(desc=None, nontrivial=False, cls="corpus-value")
            acc.keys.add(acc_key(ident, "corpus:" + text))
            try:
                getattr(el, d["prop"])
            except Exception as e:  # noqa
                key = ("unreadable-token:%s:%s" % (st.__name__, text)) if hasattr(st, "__members__") else ("unreadable-form:%s:%s" % (st.__name__, lex_class(text)))
                acc.violation(key, "%s=%r occurs in the corpus decks but the getter raises %s: %s" % (ident, text, type(e).__name__, e), {"T": T, "prop": d["prop"], "text": text})


def run_enums(acc):
    """to_xml(from_xml(t)) == t for every XML-mapped enumeration used as an attribute type."""
    from pptx.enum.base import BaseXmlEnum

    import pptx.enum.action, pptx.enum.chart, pptx.enum.dml, pptx.enum.lang, pptx.enum.shapes, pptx.enum.text  # noqa

    def subs(c):
        for s in c.__subclasses__():
            yield s
            yield from subs(s)

    for E in subs(BaseXmlEnum):
        for mbr in E:
            if not mbr.xml_value:
                continue
            acc.case(desc={"enum": E.__name__, "member": mbr.name}, nontrivial=True, cls="enum-member")
            try:
                back = E.to_xml(E.from_xml(mbr.xml_value))
            except Exception as e:  # noqa
                acc.violation("enum-roundtrip:%s" % E.__name__, "%s.%s: %r" % (E.__name__, mbr.name, e), {"enum": E.__name__, "member": mbr.name})
                continue
            if back != mbr.xml_value:
                acc.violation("enum-roundtrip:%s" % E.__name__, "%s token %r -> %r" % (E.__name__, mbr.xml_value, back), {"enum": E.__name__, "member": mbr.name})


def replay(w, acc):
    from pptx.oxml import oxml_parser

    if "suite_test" in w:
        from vlib import suite

        return suite.replay_suite(w, acc, ID)

    el = oxml_parser.makeelement(w["T"])
    if "text" in w:
        el.set(w["prop"] if False else [k for k in [w.get("clark")] if k][0] if w.get("clark") else w["prop"], w["text"])
    print("replay is informational: witness", w)


def finalize(acc, tier, seed):
    if not acc.counters.get("written_forms_validated"):
        acc.inconclusive.append("no written form was validated")
    if not acc.counters.get("schema_valid_forms_read"):
        acc.inconclusive.append("no schema-valid lexical form was read")
    if not acc.counters.get("M-ATTR:judged"):
        acc.inconclusive.append("online monitor M-ATTR never judged a to_xml call")
