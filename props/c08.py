"""C08 — the chart's cached values and its embedded workbook agree cell for cell.

Workload: C07's chart-data generator with the layout forced: category charts of depth 1-4 whose series
counts straddle the Z/AA, AZ/BA and ZZ/AAA column boundaries (25/26/27, 51/52/53, 701/702/703), XY and
bubble charts with series of unequal (also zero) lengths so that row offsets accumulate, labels from
separately classified string classes (formula-like '=..', URL-like kept, URL-like rewritten, empty), date
and datetime categories; then 0-2 replace_data calls, through the same Presentation (blob of the
existing workbook part replaced) or after re-opening a harness-made variant of the saved deck
(c:externalData removed -> a new workbook part is added; c:date1904 switched on); one round over the
corpus charts; and, exhaustively, CategoryWorkbookWriter._column_reference(1..16384).
Oracle: the SAVED package is read with vlib.opcx; c:externalData/@r:id is followed through the chart
part's relationships (type, target present, spreadsheet content type) to the workbook, read with
vlib.xlsxx; for every c:f: the A1 range (own parser) has c:ptCount cells (rows = leaves, columns =
levels for c:multiLvlStrRef) and every cached c:pt idx=i equals the cell at offset i; a missing point
<=> an empty cell. Column names are checked against the bijective base-26 model and XlsxWriter's own.
"""
from __future__ import annotations

import copy
import io
import json
import os
import re

from vlib import xlsxx

from . import c07

ID = "C08"
LEVEL = "exploration"
EXHAUSTIVE = False
RULE = (
    "case = (layout family category|xy|bubble, chart type, forced #series / category depth / length pattern, string mix, replace steps "
    "with mode same-presentation | variant-without-externalData | variant-date1904). quick: 4 depths x {25,26,27,51,52,53} series, "
    "{701,702,703} series once each, ~220 random category, ~110 xy, ~110 bubble charts, one corpus round; thorough 12 000 charts, 24 of "
    "them with 700+ series, 10 corpus rounds. Column references: all n in 1..16384 plus out-of-range values (exhaustive sub-space, counted "
    "separately). non-trivial: some reference has a column >= AA or starts below row 3 (accumulated offset). distinct: (family, #series, "
    "depth, sorted length pattern, string classes, replace modes and signatures)."
)
ASSUMPTIONS = [
    "vlib/xlsxx.py (zipfile + plain lxml) reads the workbook; ST_Xstring _xHHHH_ escapes are decoded as a spreadsheet application does",
    "numbers are equal when they agree to 15 significant digits (relative 1e-15): XlsxWriter writes %.16G, Excel itself keeps 15; exact-only matches are counted apart",
    "an empty-string label and an absent/empty cell are the same thing (a sheet cannot hold an empty string constant); a c:pt with empty c:v is accepted for it",
    "a reference written for zero points ($B$2:$B$1, bottom above top) is read as an empty range: no A1 range can hold zero cells; such references are counted, not reported",
    "date cells are compared as numbers with the cache: equal serials mean equal dates only when chart (c:date1904) and workbook (workbookPr/@date1904) use the same system",
]
WATCHDOG_S = {"quick": 900, "thorough": 3000}

R = "http://schemas.openxmlformats.org/officeDocument/2006/relationships"
CT_CHART = "application/vnd.openxmlformats-officedocument.drawingml.chart+xml"
RT_PACKAGE = R + "/package"
MIX8 = dict(c07.MIX, empty=3, **{"url-raises": 0.3})
CLEAN = {"plain": 50, "markup": 25, "space": 12, "lookalike": 12, "long": 1}
DATES8 = c07.DATES + ["2020-01-01T12:00:00", "1900-03-01T06:00:00", "2024-03-19T00:00:00.000500", "2011-11-11T23:59:59.999999", "2024-03-01T01:15:00+05:30", "2024-02-29T22:00:00-08:00"]  # datetimes, with and without microseconds, and time-zone-aware ones whose UTC day is another day
ROLE = {"tx": "series-name", "cat": "category"}
TYPES = {"category": ["BAR_CLUSTERED", "LINE_MARKERS", "AREA_STACKED", "PIE", "DOUGHNUT", "RADAR", "COLUMN_STACKED_100"], "xy": ["XY_SCATTER", "XY_SCATTER_SMOOTH"], "bubble": ["BUBBLE", "BUBBLE_THREE_D_EFFECT"]}
WRITER = {"category": "CategoryWorkbookWriter", "xy": "XyWorkbookWriter", "bubble": "BubbleWorkbookWriter"}


def close(a, b):
    return a == b or abs(a - b) <= 1e-15 * max(abs(a), abs(b))


# ------------------------------------------------------------------ oracle
class Ctx:
    """what one package check needs to know about the chart it looks at"""

    def __init__(self, j, wb, chart1904, dates, times):
        self.j, self.wb, self.chart1904, self.dates, self.times = j, wb, chart1904, dates, times
        self.max_col = self.max_row0 = 0


def cmp_number(cx, cached, cell, role, where):
    j = cx.j
    j.acc.count("cells_compared")
    if cell.formula is not None:
        return j.bad("cell-is-formula:%s" % role, "%s holds formula %r where the cache has %r" % (where, cell.formula, cached))
    if cached is None:
        if cell.kind != "empty":
            j.bad("missing-point-but-cell-filled:%s" % role, "%s holds %r, the cache has no point there" % (where, cell.value))
        return
    try:
        num = float(cached)
    except ValueError:
        return j.bad("cache-not-a-number:%s" % role, "%s: cached %r" % (where, cached))
    if cell.kind == "n" and close(num, cell.value):
        j.acc.count("number_cells_equal_only_to_15_digits") if num != cell.value else None
        if role == "category" and cx.dates and cx.chart1904 != cx.wb.date1904:
            j.bad("date-system-mismatch", "%s: serial %r equals the cache but chart date1904=%s and workbook date1904=%s read it as different dates" % (where, cell.value, cx.chart1904, cx.wb.date1904))
        return
    if role == "category" and cx.dates and cell.kind == "n":
        if cx.chart1904 != cx.wb.date1904 and 1461 <= abs(cell.value - num) < 1463:  # 1461 before the phantom 1900-02-29; < 1 more for a time of day
            return j.bad("date-system-mismatch", "%s: cell %r (workbook date1904=%s) vs cache %r (chart date1904=%s): same date, different serials" % (where, cell.value, cx.wb.date1904, num, cx.chart1904))
        if cx.times and 0 < abs(cell.value - num) < 1:
            return j.bad("datetime-category:time-of-day-in-cell-but-not-in-cache", "%s: cell %r, cache %r" % (where, cell.value, num))
    j.bad("cell-differs:%s:number" % role, "%s holds %s %r, the cache has %r" % (where, cell.kind, cell.value, cached))


def cmp_string(cx, cached, cell, role, where):
    j = cx.j
    j.acc.count("cells_compared")
    if cached in (None, ""):
        if cell.kind != "empty" and not (cell.kind == "s" and cell.value == "" and cell.formula is None):
            j.bad("empty-label-but-cell-filled:%s" % role, "%s holds %r / formula %r, the cache has nothing" % (where, cell.value, cell.formula))
        return
    if cell.formula is not None:
        key = "cell-is-formula:%s" % role if re.match(r"^(=|\{=.*\}$)", cached) else "cell-is-formula-unexpectedly:%s" % role
        return j.bad(key, "%s holds formula %r with value %r where the cache has the text %r" % (where, cell.formula, cell.value, cached))
    if cell.kind == "s" and cell.value == cached:
        j.acc.count("url_like_labels_found_equal") if re.match(r"^(https?|ftp)://", cached) else None
        return
    if cell.kind == "n" and isinstance(cell.value, float) and cell.value == int(cell.value) and cached == "%d" % int(cell.value):
        # a text cache over a numeric cell (a date label inside a category tree: the serial): the cache is what General shows
        j.acc.count("text_caches_equal_to_the_general_rendering_of_a_numeric_cell")
        return
    if cell.kind == "n" and re.fullmatch(r"-?[0-9]+", cached) and cx.chart1904 != cx.wb.date1904 and 1461 <= abs(cell.value - int(cached)) < 1463:
        # (the same date label under the open finding of the two date systems: the chart says 1904, the workbook is written 1900)
        return j.bad("date-system-mismatch", "%s: cell %r (workbook date1904=%s) vs text cache %r (chart date1904=%s): same date, different serials" % (where, cell.value, cx.wb.date1904, cached, cx.chart1904))
    if re.match(r"^(mailto:|internal:|external:|file://)", cached):
        return j.bad("cell-text-rewritten-by-hyperlink-conversion:%s" % role, "%s holds %r where the cache has %r" % (where, cell.value, cached))
    j.bad("cell-differs:%s:string" % role, "%s holds %s %r, the cache has %r" % (where, cell.kind, cell.value, cached))


def check_ref(cx, f):
    """one c:f and the cache next to it against the workbook"""
    j = cx.j
    parent = f.getparent()
    kind = xlsxx.local(parent)
    src = xlsxx.local(parent.getparent())
    role = ROLE.get(src, src)
    cache = xlsxx.read_cache(next((x for x in parent if xlsxx.local(x).endswith("Cache")), None))
    j.acc.count("cf_ranges_checked")
    try:
        ref = xlsxx.parse_ref(f.text or "")
    except ValueError as e:
        return j.bad("ref-unparsable:%s" % role, str(e))
    si = 0 if ref.sheet is None else cx.wb.sheet_index(ref.sheet)
    if si is None:
        return j.bad("ref-sheet-missing:%s" % role, "%r names a sheet the workbook lacks (%s)" % (f.text, cx.wb.sheet_names))
    cells = cx.wb.cells(si)
    cx.max_col, cx.max_row0 = max(cx.max_col, ref.c2), max(cx.max_row0, ref.r1)
    count = cache["count"]
    if kind == "multiLvlStrRef":
        lv = cache["levels"] or []
        if ref.rows != count or ref.cols != len(lv):
            return j.bad("range-size:%s:multi-level" % role, "%s is %d rows x %d columns for ptCount %r and %d levels" % (f.text, ref.rows, ref.cols, count, len(lv)))
        for k, pts in enumerate(lv):  # level 0 = leaves = rightmost column
            for i, name in enumerate(ref.column(ref.cols - 1 - k)):
                cmp_string(cx, pts.get(i), cells.get(name, xlsxx.EMPTY), role, "%s (level %d, offset %d)" % (name, k, i))
        return
    n = ref.rows * ref.cols
    if count == 0 and ref.inverted:
        return j.acc.count("zero_point_references_with_bottom_above_top")
    if n != count or min(ref.rows, ref.cols) > 1:
        return j.bad("range-size:%s" % role, "%s has %d x %d cells for ptCount %r" % (f.text, ref.rows, ref.cols, count))
    for i, name in enumerate(ref.cells()):
        (cmp_string if kind == "strRef" else cmp_number)(cx, cache["pts"].get(i), cells.get(name, xlsxx.EMPTY), role, "%s (offset %d of %s)" % (name, i, f.text))
    if any(i >= n for i in cache["pts"]):
        j.bad("cache-point-beyond-range:%s" % role, "%s: c:pt idx %s with %d cells" % (f.text, sorted(cache["pts"])[-3:], n))


def check_package(j, data, partname, desc):
    """follow chart part -> c:externalData -> relationship -> workbook part in the saved package, then every c:f. -> Ctx or None"""
    from vlib import opcx

    pkg = opcx.Pkg.from_bytes(data)
    if not pkg.has_part(partname) or pkg.ctype(partname) != CT_CHART:
        return j.bad("chart-part-missing-or-mistyped", "%s: present=%s type=%r" % (partname, pkg.has_part(partname), pkg.has_part(partname) and pkg.ctype(partname)))
    root = pkg.xml_root(partname)
    model = xlsxx.read_chart(root)
    rel = next((r for r in pkg.rels(partname) or [] if r.id == model["ext_rid"]), None)
    j.acc.count("externalData_links_followed")
    if model["ext_rid"] is None or rel is None or rel.external or not pkg.has_part(rel.target):
        return j.bad("externalData-relationship-broken", "%s: c:externalData r:id=%r resolves to %r" % (partname, model["ext_rid"], rel))
    if rel.type != RT_PACKAGE or pkg.ctype(rel.target) != xlsxx.CT_SHEET:
        j.bad("workbook-part-mistyped", "%s: relationship type %r, content type %r" % (rel.target, rel.type, pkg.ctype(rel.target)))
    try:
        wb = xlsxx.Workbook.from_bytes(pkg.blob(rel.target))
    except ValueError as e:
        return j.bad("workbook-unreadable", "%s: %s" % (rel.target, e))
    j.acc.count("workbooks_read")
    cats = desc.get("cats") or {}
    cx = Ctx(j, wb, model["date1904"], cats.get("kind") == "date", any("T" in x for x in cats.get("labels", ()) if isinstance(x, str)) and cats.get("kind") == "date")
    for f in root.iter(xlsxx.c("f")):
        check_ref(cx, f)
    for p in wb.problems:
        j.bad("workbook-malformed", p)
    return cx


def guarded(j, fn, entry):
    try:
        return fn(), True
    except Exception as e:  # noqa
        import traceback

        tb = traceback.extract_tb(e.__traceback__)
        if any("xlsxwriter" in fr.filename for fr in tb):
            j.bad("label-raises-in-workbook-writer:%s" % type(e).__name__, "%s: XlsxWriter's worksheet.write() treats a label as URL/formula and fails: %r" % (entry, e))
        else:
            j.bad("raises:%s:%s" % (entry, type(e).__name__), "%s raised %r" % (entry, e))
        return None, False


def save(prs):
    buf = io.BytesIO()
    prs.save(buf)
    return buf.getvalue()


def has_ext(chart):
    return chart.part._element.find(xlsxx.c("externalData")) is not None


# ------------------------------------------------------------------ cases
def make_desc(rnd, kind, force, mixname):
    return c07.gen_data(rnd, kind, force.get("shape", "few"), mix=MIX8 if mixname == "all" else CLEAN, dates=DATES8, force=dict({k: v for k, v in force.items() if k != "shape"}, nf=rnd.choice(c07.NF_PLAIN), cat_nf=False))


extend_in_place = c07.extend_in_place


def run_case(case, acc):
    """{family, ct, entry, force, mix, steps: [{force, mode}], seed}"""
    import pptx

    rnd = c07.rng("C08", *case["seed"])
    kind = case["family"]
    desc = make_desc(rnd, kind, case["force"], case["mix"])
    steps = [(None if s["mode"].startswith("reuse") else make_desc(rnd, kind, s["force"], case["mix"]), s["mode"]) for s in case["steps"]]
    sig = {"family": kind, "ct": case["ct"], "data": c07.signature(desc), "steps": [(m, c07.signature(d) if d else None) for d, m in steps]}
    j = c07.Judge(acc, case, "%s %s via %s, %s, steps %s" % (kind, case["ct"], case["entry"], json.dumps(sig["data"]), [m for _, m in steps]))
    cd = c07.build_data(desc)
    res, ok = guarded(j, lambda: c07.new_chart(case["entry"], case["ct"], cd), case["entry"])
    acc.count("charts_built")
    cxs = []
    if ok:
        prs, chart = res
        acc.hit(case["entry"])
        acc.hit("writer:" + WRITER[kind])
        acc.hit("update_from_xlsx_blob:new-part@create")
        partname = str(chart.part.partname)
        data = save(prs)
        cxs.append(check_package(j, data, partname, desc))
        for nd, mode in steps:
            if mode.startswith("reuse"):
                # the SAME chart-data object, grown since it was last used, is used again: for this chart or for a new one
                nd = desc = extend_in_place(rnd, cd, desc)
                acc.hit("replace-mode:" + mode)
                acc.count("chart_data_objects_reused_after_growing")
                if mode == "reuse-new-chart":
                    from pptx.enum.chart import XL_CHART_TYPE
                    from pptx.util import Emu

                    gf, ok = guarded(j, lambda: prs.slides[0].shapes.add_chart(
                        XL_CHART_TYPE[case["ct"]], Emu(0), Emu(0), Emu(3000000), Emu(2000000), cd), "add_chart")
                    if not ok:
                        break
                    chart, partname = gf.chart, str(gf.chart.part.partname)
                    acc.hit("add_chart")
                else:
                    _, ok = guarded(j, lambda: chart.replace_data(cd), "replace_data")
                    acc.count("replaces")
                    if not ok:
                        break
                    acc.hit("replace_data")
                data = save(prs)
                cxs.append(check_package(j, data, partname, nd))
                continue
            desc = nd
            if mode != "same":
                data = c07.variant_deck(data, date1904=mode == "date1904", drop_external=mode == "no-external")
                prs = pptx.Presentation(io.BytesIO(data))
                chart = next(ch for ch in c07.iter_charts(prs) if str(ch.part.partname) == partname)
            branch = "replace-blob" if has_ext(chart) else "new-part"
            cd = c07.build_data(nd)
            _, ok = guarded(j, lambda: chart.replace_data(cd), "replace_data")
            acc.count("replaces")
            if not ok:
                break
            acc.hit("replace_data")
            acc.hit("update_from_xlsx_blob:%s@replace_data" % branch)
            acc.hit("replace-mode:" + mode)
            data = save(prs)
            if not nd["series"]:
                acc.count("replaced_with_zero_series_nothing_to_compare")  # C07 reports what that does to the chart
            cxs.append(check_package(j, data, partname, nd))
    cxs = [x for x in cxs if x]
    wide, deep = max([x.max_col for x in cxs] or [0]), max([x.max_row0 for x in cxs] or [0])
    for name, lo in (("col-boundary:Z/AA", 27), ("col-boundary:AZ/BA", 53), ("col-boundary:ZZ/AAA", 703)):
        acc.hit(name) if wide >= lo else None
    d = sig["data"]
    acc.hit("category-depth:%d" % d["depth"]) if kind == "category" else None
    acc.case(desc=sig, nontrivial=wide >= 27 or deep > 3, cls="%s/%s" % (kind, "depth%d" % d["depth"] if kind == "category" else "lens%d" % len(d["lens"])), sample=sig)
    return j.n


def run_corpus(case, acc):
    """{deck, seed, mode}: every chart of the deck gets new data, the deck is saved once, every chart is checked"""
    import pptx
    from lxml import etree
    from vlib import env, xsdkit

    data = open(os.path.join(env.REPO, case["deck"]), "rb").read()
    if case["mode"] != "same":
        data = c07.variant_deck(data, date1904=case["mode"] == "date1904", drop_external=case["mode"] == "no-external")
    prs = pptx.Presentation(io.BytesIO(data))
    done = []
    for n, chart in enumerate(c07.iter_charts(prs)):
        rnd = c07.rng("C08c", n, *case["seed"])
        kind = c07.corpus_kind(etree.fromstring(chart.part.blob, xsdkit.PLAIN))
        if kind is None or chart.part._element.find(".//" + xlsxx.c("ser")) is None:
            acc.count("corpus_charts_without_series_skipped")  # replace_data cannot clone a series there: C07's finding
            continue
        force = {"cats": "date", "npts": 5} if case["mode"] == "date1904" and kind == "category" and n % 2 == 0 else {}
        if (n + case["seed"][-1]) % 2 == 0:
            force["nser"] = 1  # shrink: every surplus series, in whichever plot it sits, must go (a stale one keeps references into the new workbook)
            acc.hit("corpus-chart-shrunk-to-one-series")
        nd = c07.gen_data(rnd, kind, rnd.choice(["few", "random", "unequal", "multi3"]), min_series=1, mix=CLEAN, dates=c07.DATES, force=dict(force, nf="0.0", cat_nf=False))
        j = c07.Judge(acc, dict(case, chart=n), "%s %s (%s), replace with %s" % (case["deck"], chart.part.partname, case["mode"], json.dumps(c07.signature(nd))))
        branch = "replace-blob" if has_ext(chart) else "new-part"
        cd = c07.build_data(nd)
        _, ok = guarded(j, lambda: chart.replace_data(cd), "replace_data")
        acc.count("replaces")
        if ok:
            acc.hit("replace_data")
            acc.hit("update_from_xlsx_blob:%s@replace_data" % branch)
            acc.hit("corpus:" + case["mode"])
            done.append((j, str(chart.part.partname), nd))
    out = save(prs)
    for j, partname, nd in done:
        cx = check_package(j, out, partname, nd)
        sig = {"deck": case["deck"], "chart": partname, "mode": case["mode"], "data": c07.signature(nd)}
        acc.case(desc=sig, nontrivial=bool(cx) and (cx.max_col >= 27 or cx.max_row0 > 3), cls="corpus/" + case["mode"], sample=sig)


def run_colrefs(unit, acc):
    """CategoryWorkbookWriter._column_reference against two independent references, every n of the sheet's width"""
    from pptx.chart.xlsx import CategoryWorkbookWriter
    from xlsxwriter.utility import xl_col_to_name

    for n in range(unit["lo"], unit["hi"]):
        acc.evaluations += 1
        acc.nontrivial_count += 1
        try:
            got = CategoryWorkbookWriter._column_reference(n)
        except Exception as e:  # noqa
            got = repr(e)
        want = xlsxx.col_name(n)
        if xl_col_to_name(n - 1) != want:
            acc.inconclusive.append("the two column-name references disagree at %d: %r vs %r" % (n, want, xl_col_to_name(n - 1)))
        elif got != want:
            b = "Z/AA" if n <= 702 and n % 26 in (0, 1) else ("ZZ/AAA" if n in (702, 703) else "other")
            acc.violation("column-reference-wrong:%s" % b, "_column_reference(%d) = %r, column is %r" % (n, got, want), {"colref": n})
        acc.count("column_references_compared")
    acc.classes["column-reference"] = acc.classes.get("column-reference", 0) + unit["hi"] - unit["lo"]
    if unit["lo"] == 1:
        for n in (0, -1, -26, 16385, 16384 + 26, 10 ** 9):
            acc.evaluations += 1
            try:
                got = CategoryWorkbookWriter._column_reference(n)
            except ValueError:
                acc.count("out_of_range_column_numbers_rejected")
                continue
            except Exception as e:  # noqa
                got = repr(e)
            acc.violation("column-reference-out-of-range-accepted", "_column_reference(%d) -> %r, documented range is 1-16384 (ValueError)" % (n, got), {"colref": n})
    acc.hit("_column_reference")


# ------------------------------------------------------------------ plan / run / replay
def plan(tier, seed):
    quick = tier == "quick"
    cases = []

    def add(family, force, i, steps=None, mix=None):
        rnd = c07.rng("C08plan", seed, family, i)
        ct = TYPES[family][i % len(TYPES[family])]
        if ct == "PIE":
            force = dict(force, nser=1)
        if steps is None:
            steps = []
            for _ in range(rnd.choice([0, 1, 1, 2])):
                f = rnd_force(rnd, family)
                mode = rnd.choice(["same", "same", "no-external", "date1904", "reuse", "reuse-new-chart"])
                if mode == "date1904" and family == "category" and rnd.random() < 0.6:
                    f.update(cats="date")
                steps.append({"force": dict(f, nser=1) if ct == "PIE" else f, "mode": mode})
        cases.append({"family": family, "ct": ct, "entry": "insert_chart" if i % 5 == 0 else "add_chart", "force": force, "mix": mix or ("all" if i % 3 else "clean"), "steps": steps, "seed": [seed, family, i]})

    i = 0
    for rep in range(1 if quick else 12):
        for depth in (1, 2, 3, 4):
            for nser in (25, 26, 27, 51, 52, 53):
                i += 1
                add("category", {"nser": nser, "npts": 2 + i % 3, "cats": "multi" if depth > 1 else ["str", "num", "date"][i % 3], "depth": depth, "holes": 0.2}, i * 7 + 1, mix="clean" if i % 2 else "all")
    for k in range(3 if quick else 24):
        add("category", {"nser": 701 + k % 3, "npts": 1 + k % 2, "cats": "multi" if k % 4 else "str", "depth": 1 + k % 4}, 100000 + k * 7 + 1, steps=[{"force": {"nser": 703 - k % 3, "cats": "multi", "depth": 4 - k % 4, "npts": 2}, "mode": "same"}] if k % 2 == 0 else [], mix="clean")
    n_cat, n_xy = (220, 110) if quick else (6000, 2850)
    for fam, n in (("category", n_cat), ("xy", n_xy), ("bubble", n_xy)):
        for k in range(n):
            add(fam, rnd_force(c07.rng("C08force", seed, fam, k), fam), 200000 + k)
    nu = 24 if quick else 64
    units = [{"kind": "gen", "cases": cases[u::nu]} for u in range(nu)]
    decks = c07.chart_decks()
    cc = [{"deck": d, "seed": [seed, d, r], "mode": ["same", "date1904", "no-external"][(r + di) % 3]} for r in range(2 if quick else 10) for di, d in enumerate(decks)]
    units += [{"kind": "corpus", "cases": cc[u::8]} for u in range(8) if cc[u::8]]
    units += [{"kind": "colrefs", "lo": lo, "hi": min(16385, lo + 4096)} for lo in range(1, 16385, 4096)]
    return units


def rnd_force(rnd, family):
    if family == "category":
        cats = rnd.choice(["str", "str", "num", "date", "multi", "multi"])
        return {"shape": rnd.choice(["few", "random", "holes", "p0", "mismatch"]), "nser": rnd.choice([1, 2, 3, 5, 8, 24, 25, 26, 27, 30]), "cats": cats, "depth": rnd.choice([2, 3, 4]), "npts": rnd.choice([1, 2, 3, 7, 40])}
    n = rnd.choice([1, 2, 3, 4, 6, 12])
    return {"shape": rnd.choice(["few", "holes"]), "nser": n, "lens": [rnd.choice([0, 1, 2, 3, 5, 17]) for _ in range(n)]}


def run_unit(unit, tier, seed, acc):
    if unit["kind"] == "colrefs":
        return run_colrefs(unit, acc)
    for case in unit["cases"]:
        (run_case if unit["kind"] == "gen" else run_corpus)(case, acc)


def replay(w, acc):
    if "colref" in w:
        run_colrefs({"lo": max(1, w["colref"]), "hi": max(1, w["colref"]) + 1}, acc)
    else:
        w = {k: v for k, v in w.items() if k != "chart"}
        (run_corpus if "deck" in w else run_case)(w, acc)
    print("replayed %s" % json.dumps(w)[:300])


def finalize(acc, tier, seed):
    need = ["add_chart", "insert_chart", "replace_data", "update_from_xlsx_blob:new-part@create", "update_from_xlsx_blob:new-part@replace_data", "update_from_xlsx_blob:replace-blob@replace_data", "_column_reference"]
    need += ["writer:" + w for w in WRITER.values()] + ["category-depth:%d" % d for d in (1, 2, 3, 4)]
    need += ["col-boundary:Z/AA", "col-boundary:AZ/BA", "col-boundary:ZZ/AAA", "replace-mode:same", "replace-mode:no-external", "replace-mode:date1904", "corpus:same", "corpus:date1904"]
    for n in need:
        if not acc.reach.get(n):
            acc.inconclusive.append("never reached: " + n)
    for cnt in ("cells_compared", "cf_ranges_checked", "workbooks_read", "externalData_links_followed"):
        if not acc.counters.get(cnt):
            acc.inconclusive.append("deciding counter is zero: " + cnt)
    if acc.counters.get("column_references_compared", 0) != 16384:
        acc.inconclusive.append("column references compared: %d of 16384" % acc.counters.get("column_references_compared", 0))
