"""C02 — every saved file is a closed, self-consistent package, after any history.

Seeded histories of public-API operations (vlib/histories.py, profile 'pkg': every relationship-
creating and -dropping operation, rejected calls, read accesses) over the default template, corpus
decks and manufactured decks whose slide part names are gapped / out of presentation order, with a
save after every step.  At every save the bytes are read by the independent reader (vlib/opcx.py):
the five closure rules, judged against the problems already present in the opened input; every
in-memory part present under its name with the content type it was created/loaded with; then the
file is re-opened with python-pptx and a semantic snapshot (public readers only) compared with the
in-memory presentation.
"""
from __future__ import annotations

ID = "C02"
LEVEL = "exploration"
RULE = (
    "a case = one history: start state (default template 45% / manufactured out-of-order deck 15% / one of the 67 corpus decks "
    "40%) + 10 (quick) or 30 (thorough) operations drawn from profile 'pkg' with a save after every operation "
    "(save_every=1) plus explicit save/re-open-and-continue ops. Non-trivial when the history has >= 2 saves and >= 4 executed "
    "operations and was not abandoned. Distinct by the hash of (start, executed op list)."
)
ASSUMPTIONS = [
    "vlib/opcx.py closure rules; dangling references already in the opened input are baseline, not violations",
    "re-opened vs in-memory comparison uses python-pptx's public readers on both sides (that is what the statement asks: 'shows the same ... as the in-memory presentation did')",
    "an undocumented exception raised by an operation abandons the history (counted per op/exception in the evidence); >20% abandoned => inconclusive",
]
WATCHDOG_S = {"quick": 900, "thorough": 5400}


def plan(tier, seed):
    n = 416 if tier == "quick" else 4000
    per = 26 if tier == "quick" else 125
    nops = 12 if tier == "quick" else 30
    return [{"lo": lo, "hi": min(n, lo + per), "nops": nops} for lo in range(0, n, per)] + [{"kind": "extcase"}]


def run_extcase(seed, acc):
    """Directed: a loaded deck whose image / media members spell their extension in another case (image1.PNG, as other
    producers write them; one Default covers every case of an extension) x a further part of that extension in the usual
    spelling x save: the closure rules on the saved file, against the problems of the input."""
    import io
    from collections import Counter

    import pptx
    from vlib import env, gen, histories, opcx

    rnd = env.rng("C02", "extcase", seed)
    for fmt, ext, add in (("PNG", "png", "picture"), ("JPEG", "jpg", "picture"), ("PNG", "png", "placeholder"), (None, "mp4", "movie")):
        for spelled in (ext.upper(), ext.capitalize()):
            prs = pptx.Presentation()
            s = prs.slides.add_slide(prs.slide_layouts[6])
            if fmt:
                s.shapes.add_picture(io.BytesIO(gen.png_bytes(rnd, fmt=fmt)), 0, 0)
                old = "/ppt/media/image1.%s" % ext
            else:
                s.shapes.add_movie(io.BytesIO(b"movie one"), 0, 0, 914400, 914400, mime_type="video/mp4")
                old = "/ppt/media/media1.mp4"
            buf = io.BytesIO()
            prs.save(buf)
            data = histories.rename_members(buf.getvalue(), {old: old[: -len(ext)] + spelled})
            pin = opcx.Pkg.from_bytes(data)
            base = Counter(opcx.closure_problems(pin))
            wit = {"extcase": [fmt, spelled, add], "seed": seed}
            acc.case(key=env.khash(["extcase", fmt, spelled, add]), nontrivial=True, cls="start:extension-case")
            try:
                prs = pptx.Presentation(io.BytesIO(data))
                s = prs.slides[0]
                if add == "picture":
                    s.shapes.add_picture(io.BytesIO(gen.png_bytes(rnd, fmt=fmt)), 0, 0)
                elif add == "placeholder":
                    s2 = prs.slides.add_slide(prs.slide_layouts[8])
                    s2.placeholders[1].insert_picture(io.BytesIO(gen.png_bytes(rnd, fmt=fmt)))
                else:
                    s.shapes.add_movie(io.BytesIO(b"movie two"), 0, 0, 914400, 914400, mime_type="video/mp4")
                out = io.BytesIO()
                prs.save(out)
            except Exception as e:  # noqa
                acc.violation("extcase-raises:%s" % type(e).__name__, "deck with %s, then one more %s: %r" % (old[: -len(ext)] + spelled, add, e), wit)
                continue
            acc.count("saves_checked_for_closure")
            for (rule, det), n in (Counter(opcx.closure_problems(opcx.Pkg.from_bytes(out.getvalue()))) - base).items():
                acc.violation("closure:%s" % rule, "deck with %s, one more %s added: %s %s" % (old[: -len(ext)] + spelled, add, rule, det), wit)


def run_unit(unit, tier, seed, acc):
    from vlib import histories

    if unit.get("kind") == "extcase":
        return run_extcase(seed, acc)
    histories.run_histories("pkg", {"C02"}, unit, tier, seed, acc, save_every=1)


def replay(w, acc):
    from vlib import histories

    if "extcase" in w:
        run_extcase(w.get("seed", 0), acc)
        print([(v["key"], v["what"][:300]) for v in acc.violations])
        return
    w = dict(w, save_every=1)
    histories.replay_history(w, acc, {"C02"})
    print([(v["key"], v["what"][:300]) for v in acc.violations])


def finalize(acc, tier, seed):
    c = acc.counters
    if not c.get("saves_checked_for_closure"):
        acc.inconclusive.append("no save was checked")
    if not c.get("snapshots_compared"):
        acc.inconclusive.append("no re-opened snapshot was compared")
    ab = sum(v for k, v in c.items() if k.startswith("abandoned:"))
    total = sum(v for k, v in acc.classes.items() if k.startswith("start:"))
    if total and ab > 0.2 * total:
        acc.inconclusive.append("%d of %d histories abandoned on undocumented exceptions" % (ab, total))
