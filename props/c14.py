"""C14 — tables stay rectangular and merges consistent under any merge/split sequence.

A reference model (disjoint rectangles over an r x c grid + paragraph texts per cell + row/column
sizes, written from the property statement) is driven in lock-step with a real table.  After EVERY
operation the harness reads the XML itself (own XPath, raw attributes): every a:tr has c a:tc, the
four attributes gridSpan/rowSpan/hMerge/vMerge of every cell are what the model's regions require
(ECMA-376 21.1.3.16), the API readings is_merge_origin/is_spanned/span_height/span_width agree,
every cell holds the model's paragraphs, and the frame size equals the row/column sums.  Refused
calls (overlapping or cross-table merge, split of a non-origin) must raise ValueError and leave the
a:tbl C14N unchanged.  Bounded-exhaustive over small shapes, random on tables up to 12x12;
add_table/insert_table size arithmetic for all (rows, cols) <= 8x8; save/re-open spot checks.
"""
from __future__ import annotations

import copy
import io
import re
import zipfile
from collections import Counter

from lxml import etree

ID = "C14"
LEVEL = "exploration"
EXHAUSTIVE = False  # the bounded part is exhaustive (see RULE), the 12x12 part is random
RULE = (
    "exhaustive part: every table shape <=3x3 x every sequence of merge/split operations of length <=2 (quick) / <=3 "
    "(thorough), operations = every rectangle (1x1 included) with every distinct corner-pair orientation and receiver, "
    "plus split of every cell; thorough adds every shape with a side of 4 (<=4x4): length <=2 with all orientations and "
    "length 3 with one orientation sampled per rectangle (only the length-3 sequences of that run are counted). Cells are "
    "pre-filled (every 4th empty, every 4th with two paragraphs). Sequences are disjointly enumerated and counted; "
    "non-trivial = >=2 operations of which >=1 accepted merge of >=2 cells. Random part: shape uniform in 1..12 x 1..12, 30 "
    "operations drawn from an operation-mix profile (merge incl. targeted overlaps, split, text, row height, column width, "
    "cross-table merge); distinct by (shape, operation list). add_table: every (rows, cols) <= 8x8 x width = cols*k+j, "
    "height = rows*k+i for every remainder (k in 0, 1, 100003), non-trivial when a remainder is non-zero; insert_table on an "
    "injected table placeholder for every (rows, cols) <= 8x8; cross-table merge for every cell pair of two equal tables <=3x3."
)
ASSUMPTIONS = [
    "reference model in this file (regions, reading-order text migration, sizes) transcribes the statement, the merge()/split() "
    "docstrings and docs/user/table.rst: a cell whose only paragraph is empty contributes nothing, spanned cells are left "
    "with one empty paragraph, split keeps the text where merge put it",
    "expected span attributes follow ECMA-376 21.1.3.16 / PowerPoint output: origin gridSpan=w,rowSpan=h; rest of top row "
    "rowSpan=h+hMerge; rest of left column gridSpan=w+vMerge; interior hMerge+vMerge; absent attribute = default",
    "span_height/span_width are only compared on origin and unmerged cells (documented as misleading elsewhere)",
    "cells are read through Table.iter_cells() (documented reading order) and matched by element identity with the harness's "
    "own a:tr/a:tc grid; Table.cell(r, c) addressing is exercised by every operation",
    "individual initial column widths/row heights are adopted from the XML once their sums and evenness were checked",
    "lxml (XPath, C14N, deepcopy of the graphic frame for prefix sharing in the enumeration) and libxml2 XSD validation",
]
WATCHDOG_S = {"quick": 600, "thorough": 3600}

A = "http://schemas.openxmlformats.org/drawingml/2006/main"
P = "http://schemas.openxmlformats.org/presentationml/2006/main"


def _xp(expr):
    return etree.XPath(expr, namespaces={"a": A, "p": P})


X_TR, X_TC, X_P, X_COL = _xp("a:tr"), _xp("a:tc"), _xp("a:txBody/a:p"), _xp("a:tblGrid/a:gridCol")
X_EXT, X_OFF, X_TBL = _xp("p:xfrm/a:ext"), _xp("p:xfrm/a:off"), _xp("a:graphic/a:graphicData/a:tbl")
X_SPTREE, X_FRAMES = _xp("p:cSld/p:spTree"), _xp("p:cSld/p:spTree/p:graphicFrame")
X_ID = _xp("string(p:nvGraphicFramePr/p:cNvPr/@id)")
A_R, A_FLD, A_BR, A_T = ("{%s}%s" % (A, n) for n in ("r", "fld", "br", "t"))
FLAG_NAMES = ("gridSpan", "rowSpan", "hMerge", "vMerge")
ABORT = "abort"  # model and table may have diverged: stop this sequence (the violation is recorded)
NEED = ("merge", "split", "is_merge_origin", "is_spanned", "span_height", "span_width", "add_table", "insert_table",
        "height-setter", "width-setter", "overlap-attempted", "cross-table-attempted", "split-of-non-origin-attempted",
        "reopen-check")


# ---------------------------------------------------------------- reference model
class Model:
    """Disjoint merged rectangles over an r x c grid, paragraphs per cell, sizes."""

    def __init__(self, r, c):
        self.r, self.c = r, c
        self.region = {}  # cell -> (top, left, h, w), for every cell inside a merged region
        self.text = {(i, j): [""] for i in range(r) for j in range(c)}
        self.widths, self.heights, self.frame_w, self.frame_h = [], [], 0, 0

    def clone(self):
        m = Model.__new__(Model)
        m.r, m.c, m.region, m.text = self.r, self.c, dict(self.region), dict(self.text)
        m.widths, m.heights, m.frame_w, m.frame_h = list(self.widths), list(self.heights), self.frame_w, self.frame_h
        return m

    @staticmethod
    def cells(a, b):
        """Cells of the rectangle with opposite corners a, b in reading order (row-major)."""
        top, left, bottom, right = min(a[0], b[0]), min(a[1], b[1]), max(a[0], b[0]), max(a[1], b[1])
        return [(i, j) for i in range(top, bottom + 1) for j in range(left, right + 1)]

    def can_merge(self, a, b):
        return not any(x in self.region for x in self.cells(a, b))

    def merge(self, a, b):
        """Precondition can_merge.  -> True when a region (>= 2 cells) was created."""
        cells = self.cells(a, b)
        paras = [p for x in cells if self.text[x] != [""] for p in self.text[x]]
        for x in cells:
            self.text[x] = [""]
        self.text[cells[0]] = paras or [""]
        if len(cells) > 1:
            reg = cells[0] + (cells[-1][0] - cells[0][0] + 1, cells[-1][1] - cells[0][1] + 1)
            for x in cells:
                self.region[x] = reg
        return len(cells) > 1

    def is_origin(self, a):
        return a in self.region and self.region[a][:2] == a

    def split(self, a):
        top, left, h, w = self.region[a]
        for x in self.cells((top, left), (top + h - 1, left + w - 1)):
            del self.region[x]
        return False

    def expect(self, cell):
        """-> (role, (gridSpan, rowSpan, hMerge, vMerge)) of a grid cell."""
        reg = self.region.get(cell)
        if reg is None:
            return "free", (1, 1, False, False)
        top, left, h, w = reg
        if cell == (top, left):
            return "origin", (w, h, False, False)
        if cell[0] == top:
            return "top-row", (1, h, True, False)
        if cell[1] == left:
            return "left-col", (w, 1, False, True)
        return "interior", (1, 1, True, True)


# ---------------------------------------------------------------- observation (harness-side, raw XML)
def flags(tc):
    g = tc.get
    return (int(g("gridSpan", "1")), int(g("rowSpan", "1")), g("hMerge") in ("1", "true"), g("vMerge") in ("1", "true"))


def paras(tc):
    out = []
    for p in X_P(tc):
        s = []
        for ch in p:
            if ch.tag in (A_R, A_FLD):
                s.extend(t.text or "" for t in ch.iter(A_T))
            elif ch.tag == A_BR:
                s.append("\v")
        out.append("".join(s))
    return out


def c14n(el):
    return etree.tostring(el, method="c14n")


def sizes(frame_el):
    tbl, ext = X_TBL(frame_el)[0], X_EXT(frame_el)[0]
    return [int(g.get("w")) for g in X_COL(tbl)], [int(tr.get("h")) for tr in X_TR(tbl)], int(ext.get("cx")), int(ext.get("cy"))


class Env:
    """One presentation/slide per worker; tables come and go."""

    def __init__(self, acc):
        import pptx

        self.pptx, self.acc = pptx, acc
        self.prs = pptx.Presentation()
        self.slide = self.prs.slides.add_slide(self.prs.slide_layouts[6])
        self.sptree = X_SPTREE(self.slide.element)[0]
        self.n = Counter()  # reach counters, flushed into acc at the end of a unit
        self.other = None  # (table, frame_el, shape) of a second table for cross-table merges
        self.baseline = None  # validation messages of a slide with one untouched table

    def new_table(self, r, c, w, h):
        from pptx.util import Emu

        gf = self.slide.shapes.add_table(r, c, Emu(0), Emu(0), Emu(w), Emu(h))
        self.n["add_table"] += 1
        self.tables_made = getattr(self, "tables_made", 0) + 1
        if self.tables_made % 5 == 3:
            # the table as a hand-edited or generated deck may carry it: an XML comment in front of the cells of a row and of the
            # rows of the table (comments are no elements: cell and row positions are what they were)
            from lxml import etree

            tbl = gf.table._tbl
            for tr in tbl.tr_lst[:: 2]:
                tr.insert(0, etree.Comment(" row "))
            tbl.tr_lst[0].addprevious(etree.Comment(" rows "))
            self.n["tables-with-xml-comments-among-rows-and-cells"] += 1
        return gf.table, self.sptree[-1]

    def wrap(self, frame_el):
        from pptx.shapes.graphfrm import GraphicFrame

        return GraphicFrame(frame_el, self.slide.shapes).table

    def other_table(self, r=12, c=12):
        if self.other is None or self.other[2] != (r, c):
            if self.other is not None:
                self.sptree.remove(self.other[1])
            self.other = self.new_table(r, c, 1200000, 1200000) + ((r, c),)
        return self.other

    def flush(self):
        for k, v in self.n.items():
            self.acc.hit(k, v)
        self.n.clear()


def check_new(env, frame_el, r, c, w, h, wit, what="add_table"):
    """Rectangularity and size arithmetic of a freshly created table -> Model or None."""
    acc, ok = env.acc, True
    if not (isinstance(frame_el.tag, str) and frame_el.tag == "{%s}graphicFrame" % P and X_TBL(frame_el)):
        acc.violation("%s-not-appended" % what, "last spTree child after %s is not a table frame" % what, wit)
        return None
    lens = [len(X_TC(tr)) for tr in X_TR(X_TBL(frame_el)[0])]
    ws, hs, cx, cy = sizes(frame_el)
    if len(lens) != r or len(ws) != c:
        acc.violation("%s-shape" % what, "%s(%d,%d): %d a:tr, %d a:gridCol" % (what, r, c, len(lens), len(ws)), wit)
        ok = False
    if any(n != c for n in lens):
        acc.violation("row-length", "%s(%d,%d): a:tc per a:tr = %s" % (what, r, c, lens), wit)
        ok = False
    for axis, parts, total, frame, n in (("width", ws, w, cx, c), ("height", hs, h, cy, r)):
        head = "%s(%d,%d,%s=%d)" % (what, r, c, axis, total)
        if sum(parts) != total:
            acc.violation("%s-sum:%s" % (what, axis), "%s: parts %s sum to %d" % (head, parts, sum(parts)), wit)
            ok = False
        if frame != total:
            acc.violation("%s-frame:%s" % (what, axis), "%s: frame extent %d" % (head, frame), wit)
            ok = False
        if parts and max(abs(p * n - total) for p in parts) >= n * n:  # 'evenly distributed' up to the rounding remainder
            acc.violation("%s-uneven:%s" % (what, axis), "%s: parts %s" % (head, parts), wit)
    if not ok:
        return None
    m = Model(r, c)
    m.widths, m.heights, m.frame_w, m.frame_h = ws, hs, cx, cy
    return m


def compare(env, frame_el, table, m, wit, tag=""):
    """The real table against the model; returns False when a violation was recorded."""
    n, bad = env.n, []

    def v(key, what):
        bad.append(key)
        env.acc.violation(tag + key, what + " after ops %s on %dx%d" % (wit.get("ops", [])[-3:], m.r, m.c), wit)

    grid = [X_TC(tr) for tr in X_TR(X_TBL(frame_el)[0])]
    if len(grid) != m.r or any(len(row) != m.c for row in grid):
        v("row-length", "a:tc per a:tr = %s, expected %d rows of %d" % ([len(x) for x in grid], m.r, m.c))
        return False
    try:
        cells = list(table.iter_cells())
    except Exception as e:  # noqa
        cells = []
        v("reading-raises:%s" % type(e).__name__, "iter_cells raised %r" % e)
    if len(cells) != m.r * m.c:
        v("reading:iter_cells", "iter_cells gave %d cells" % len(cells))
        return False
    for i in range(m.r):
        for j in range(m.c):
            tc, cell = grid[i][j], cells[i * m.c + j]
            role, want = m.expect((i, j))
            where = "cell (%d,%d) [%s]" % (i, j, role)
            got = flags(tc)
            for k in range(4) if got != want else ():
                if got[k] != want[k]:
                    v("flags:%s:%s" % (role, FLAG_NAMES[k]), "%s has %s=%r, model %r" % (where, FLAG_NAMES[k], got[k], want[k]))
            txt = paras(tc)
            if txt != m.text[(i, j)]:
                key = "text-order" if sorted(txt) == sorted(m.text[(i, j)]) else "text:%s" % role
                v(key, "%s paragraphs %r, model %r" % (where, txt, m.text[(i, j)]))
            try:
                if getattr(cell, "_tc", tc) is not tc:
                    v("reading:iter_cells", "%s: iter_cells item %d is another a:tc" % (where, i * m.c + j))
                obs = [("is_merge_origin", cell.is_merge_origin, role == "origin"), ("is_spanned", cell.is_spanned, role not in ("origin", "free"))]
                if role in ("origin", "free"):
                    obs += [("span_height", cell.span_height, want[1]), ("span_width", cell.span_width, want[0])]
                    n["span_height"] += 1
                    n["span_width"] += 1
            except Exception as e:  # noqa
                v("reading-raises:%s" % type(e).__name__, "reading %s raised %r" % (where, e))
                continue
            for name, g, w_ in obs:
                if g != w_:
                    v("reading:%s" % name, "%s %s is %r, model %r" % (where, name, g, w_))
    n["is_merge_origin"] += m.r * m.c
    n["is_spanned"] += m.r * m.c
    # the same readings through the _Cell proxies obtained at an EARLIER state of this table (a caller who keeps `cell = table.cell(..)`
    # across merges and splits): they wrap the same a:tc elements, so they must report the present state
    cache = env.__dict__.setdefault("cell_proxies", {})
    old = cache.get(id(frame_el))
    if old is not None and old[0] is frame_el and len(old[1]) == len(cells):
        for k, cell in enumerate(old[1]):
            i, j = divmod(k, m.c)
            role, want = m.expect((i, j))
            try:
                got = (cell.is_merge_origin, cell.is_spanned) + ((cell.span_height, cell.span_width) if role in ("origin", "free") else ())
            except Exception as e:  # noqa
                v("reading-raises:%s" % type(e).__name__, "reading cell (%d,%d) through a proxy obtained earlier raised %r" % (i, j, e))
                continue
            exp = (role == "origin", role not in ("origin", "free")) + ((want[1], want[0]) if role in ("origin", "free") else ())
            n["readings_through_earlier_proxies"] += 1
            if got != exp:
                v("reading:stale-proxy", "cell (%d,%d) [%s] read through a proxy obtained earlier: %r, model %r" % (i, j, role, got, exp))
    cache.clear()  # one slot: the table looked at last (the exhaustive part walks millions of tables)
    cache[id(frame_el)] = (frame_el, cells)
    ws, hs, cx, cy = sizes(frame_el)
    for key, got, want in (("col-width", ws, m.widths), ("row-height", hs, m.heights), ("frame-size:width", cx, m.frame_w), ("frame-size:height", cy, m.frame_h)):
        if got != want:
            v(key, "observed %r, model %r (sum of columns %d, of rows %d)" % (got, want, sum(ws), sum(hs)))
    return not bad


# ---------------------------------------------------------------- operations
def call(fn):
    try:
        fn()
    except ValueError:
        return "ValueError"
    except Exception as e:  # noqa
        return type(e).__name__
    return None


def apply_op(env, table, frame_el, m, op, wit):
    """Run one operation on table and model.  -> True (accepted region-creating merge) / False / ABORT."""
    from pptx.util import Emu

    acc, n, kind = env.acc, env.n, op[0]
    tbl = X_TBL(frame_el)[0]
    if kind in ("merge", "xmerge", "split"):
        a, snaps = (op[1], op[2]), [tbl]
        if kind == "split":
            what, allowed, fn, commit = "split-of-non-origin", m.is_origin(a), lambda: table.cell(*a).split(), lambda: m.split(a)
        elif kind == "merge":
            b = (op[3], op[4])
            what, allowed, fn, commit = "overlap", m.can_merge(a, b), lambda: table.cell(*a).merge(table.cell(*b)), lambda: m.merge(a, b)
        else:
            otab, oel, _ = env.other_table()
            snaps.append(X_TBL(oel)[0])
            what, allowed, fn = "cross-table", False, lambda: table.cell(*a).merge(otab.cell(op[3], op[4]))
        n["split" if kind == "split" else "merge"] += 1
        if allowed:
            raised = call(fn)
            if raised:
                acc.violation("%s-wrongly-refused" % kind if raised == "ValueError" else "%s-raises:%s" % (kind, raised), "%s on a valid target raised %s" % (op, raised), wit)
                return ABORT
            return commit()
        # a call the model refuses: documented ValueError, nothing may change
        n[what + "-attempted"] += 1
        before = [c14n(x) for x in snaps]
        raised = call(fn)
        if raised is None:
            acc.violation("%s-not-refused" % what, "%s %s was accepted" % (what, op), wit)
            return ABORT
        if raised != "ValueError":
            acc.violation("%s-wrong-exception:%s" % (what, raised), "%s %s raised %s, documented ValueError" % (what, op, raised), wit)
        if [c14n(x) for x in snaps] != before:
            acc.violation("refused-%s-changed-xml" % ("split" if kind == "split" else "merge"), "refused %s %s changed the a:tbl" % (what, op), wit)
            return ABORT
        return False
    if kind == "text":
        m.text[(op[1], op[2])] = op[3].split("\n")
        raised = call(lambda: setattr(table.cell(op[1], op[2]), "text", op[3]))
    elif kind == "fld":
        from pptx.oxml import parse_xml

        m.text[(op[1], op[2])] = [op[3]]
        n["field-only-cells"] += 1

        def put_field():
            txBody = table.cell(op[1], op[2]).text_frame._txBody
            for p in txBody.findall("{%s}p" % A):
                txBody.remove(p)
            txBody.append(parse_xml('<a:p xmlns:a="%s"><a:fld id="{B6F15528-21DE-4FAA-801E-634DDDAF4B2B}" type="slidenum"><a:rPr lang="en-US"/>'
                                    '<a:t>%s</a:t></a:fld><a:endParaRPr lang="en-US"/></a:p>' % (A, op[3])))

        raised = call(put_field)
    elif kind == "rowh":
        m.heights[op[1]] = op[2]
        m.frame_h = sum(m.heights)
        n["height-setter"] += 1
        raised = call(lambda: setattr(table.rows[op[1]], "height", Emu(op[2])))
    elif kind == "colw":
        m.widths[op[1]] = op[2]
        m.frame_w = sum(m.widths)
        n["width-setter"] += 1
        raised = call(lambda: setattr(table.columns[op[1]], "width", Emu(op[2])))
    elif kind in ("frameh", "framew"):
        from pptx.shapes.graphfrm import GraphicFrame

        gf = GraphicFrame(frame_el, env.slide.shapes)
        if kind == "frameh":
            m.frame_h = op[1]
        else:
            m.frame_w = op[1]
        n["frame-resized-directly"] += 1
        raised = call(lambda: setattr(gf, "height" if kind == "frameh" else "width", Emu(op[1])))
    else:
        raise ValueError("unknown op %r" % (op,))
    if raised:
        acc.violation("%s-raises:%s" % (kind, raised), "%s raised %s" % (op, raised), wit)
        return ABORT
    return False


def prefill_ops(r, c):
    """Every 4th cell stays empty, every 4th holds two paragraphs; of the rest some hold only a line break or only a field."""
    out = []
    for k in range(r * c):
        if k % 4 == 1:
            continue
        if k % 8 == 6:
            out.append(["text", k // c, k % c, "\v"])
        elif k % 8 == 2:
            out.append(["fld", k // c, k % c, "k%d" % k])
        else:
            out.append(["text", k // c, k % c, "k%da\nk%db" % (k, k) if k % 4 == 3 else "k%d" % k])
    return out


def orientations(t, l, b, g):
    """The distinct (receiver, other) corner pairs naming rectangle rows t..b x columns l..g."""
    out = []
    for pair in (((t, l), (b, g)), ((b, g), (t, l)), ((t, g), (b, l)), ((b, l), (t, g))):
        if pair not in out:
            out.append(pair)
    return out


_OPS = {}


def all_ops(r, c, full, rnd=None):
    """Every rectangle as a merge (all distinct orientations, or one sampled) + split of every cell."""
    if full and (r, c) in _OPS:
        return _OPS[(r, c)]
    out = []
    for t, l, b, g in ((t, l, b, g) for t in range(r) for l in range(c) for b in range(t, r) for g in range(l, c)):
        o = orientations(t, l, b, g)
        out += [["merge", x[0], x[1], y[0], y[1]] for x, y in (o if full else [rnd.choice(o)])]
    out += [["split", i, j] for i in range(r) for j in range(c)]
    if full:
        _OPS[(r, c)] = out
    return out


# ---------------------------------------------------------------- save / re-open spot check
def slide_errors(buf):
    from vlib import xsdkit

    with zipfile.ZipFile(buf) as z:
        names = [x for x in z.namelist() if re.fullmatch(r"ppt/slides/slide\d+\.xml", x)]
        errs, why = xsdkit.validate_part(z.read(names[0]))
    if errs is None:
        raise RuntimeError("slide part cannot be validated: %s" % why)
    return errs


def save_check(env, frame_el, m, wit):
    """Save, validate the slide part, re-open and compare the table with the model again."""
    acc = env.acc
    if env.baseline is None:
        el = env.new_table(2, 2, 20001, 20001)[1]
        buf = io.BytesIO()
        env.prs.save(buf)
        env.sptree.remove(el)
        env.baseline = slide_errors(buf)
    attached = frame_el.getparent() is not None
    if not attached:
        env.sptree.append(frame_el)
    buf = io.BytesIO()
    env.prs.save(buf)
    if not attached:
        env.sptree.remove(frame_el)
    wit = dict(wit, reopen=True)
    for msg in slide_errors(buf):
        if msg not in env.baseline:
            acc.violation("invalid-xml:" + re.sub(r"\d+", "N", msg)[:140], "saved slide invalid: %s" % msg, wit)
    slide2 = env.pptx.Presentation(io.BytesIO(buf.getvalue())).slides[0]
    sid = X_ID(frame_el)
    els = [f for f in X_FRAMES(slide2.element) if X_ID(f) == sid]
    shapes = [s for s in slide2.shapes if str(s.shape_id) == sid and getattr(s, "has_table", False)]
    if len(els) != 1 or len(shapes) != 1:
        acc.violation("reopen:table-lost", "table frame id %s: %d elements, %d shapes after re-open" % (sid, len(els), len(shapes)), wit)
        return
    compare(env, els[0], shapes[0].table, m, wit, tag="reopen:")
    env.n["reopen-check"] += 1


# ---------------------------------------------------------------- exhaustive part
def start(env, r, c, wit, prefill=True):
    """Fresh table + model (pre-filled through the API), compared once."""
    w, h = 100003 * c + (c - 1), 70001 * r + (r - 1)
    wit.update(kind="seq", rows=r, cols=c, width=w, height=h, prefill=prefill, ops=[])
    table, el = env.new_table(r, c, w, h)
    m = check_new(env, el, r, c, w, h, wit)
    if m is None:
        return None
    for op in prefill_ops(r, c) if prefill else []:
        apply_op(env, table, el, m, op, dict(wit, ops=[op]))
    return (table, el, m) if compare(env, el, table, m, wit) else None


def dfs(env, el, m, path, merges, unit, st):
    depth, count_from = unit["depth"], unit.get("count_from", 1)
    for idx, op in enumerate(all_ops(m.r, m.c, unit["full"], st["rnd"])):
        if not path and idx % unit["of"] != unit["shard"]:
            continue
        el2, m2, seq = copy.deepcopy(el), m.clone(), path + [op]
        table = env.wrap(el2)
        wit = dict(st["wit"], ops=seq)
        res = apply_op(env, table, el2, m2, op, wit)
        ok = res is not ABORT and compare(env, el2, table, m2, wit)
        merges2 = merges + (res is True)
        if len(seq) >= count_from:
            env.acc.evaluations += 1
            env.acc.nontrivial_count += len(seq) >= 2 and merges2 > 0
            st["n"] += 1
            if ok and st["n"] % st["every"] == 0:
                save_check(env, el2, m2, wit)
            if st["n"] % 100003 == 1 and len(env.acc.samples) < 3:
                env.acc.samples.append({"rows": m.r, "cols": m.c, "ops": seq, "regions": sorted(set(m2.region.values()))})
        if ok and len(seq) < depth:
            dfs(env, el2, m2, seq, merges2, unit, st)


def run_exh(env, unit):
    from vlib import env as venv

    r, c, wit = unit["r"], unit["c"], {}
    s = start(env, r, c, wit)
    if s is None:
        return
    st = {"wit": wit, "n": 0, "every": unit.get("every", 2000), "rnd": venv.rng(ID, "exh", r, c, unit["shard"])}
    env.sptree.remove(s[1])  # the enumeration works on detached copies of the frame
    dfs(env, s[1], s[2], [], 0, unit, st)
    cls = "exh-%dx%d-d%d%s" % (r, c, unit["depth"], "" if unit["full"] else "-sampled")
    env.acc.classes[cls] = env.acc.classes.get(cls, 0) + st["n"]


# ---------------------------------------------------------------- random part
PROFILES = {  # weights of merge, split, text, rowh, colw, xmerge
    "merge-heavy": (55, 15, 15, 5, 5, 5),
    "split-heavy": (35, 40, 15, 4, 4, 2),
    "text-heavy": (30, 15, 45, 4, 4, 2),
    "resize-heavy": (30, 15, 10, 20, 20, 5),
}


def random_op(rnd, m, profile, step):
    kind = rnd.choices(("merge", "split", "text", "rowh", "colw", "xmerge"), PROFILES[profile])[0]
    r, c = m.r, m.c
    cell = (rnd.randrange(r), rnd.randrange(c))
    if kind == "merge":
        if m.region and rnd.random() < 0.25:  # aim at an existing region
            cell = rnd.choice(sorted(m.region))
        h = min(rnd.choice((1, 1, 2, 2, 3, r)), r - cell[0])
        w = min(rnd.choice((1, 1, 2, 2, 3, c)), c - cell[1])
        x, y = rnd.choice(orientations(cell[0], cell[1], cell[0] + h - 1, cell[1] + w - 1))
        return ["merge", x[0], x[1], y[0], y[1]]
    if kind == "xmerge":
        return ["xmerge", cell[0], cell[1], rnd.randrange(r), rnd.randrange(c)]
    if kind == "split":
        origins = sorted(set(reg[:2] for reg in m.region.values()))
        if origins and rnd.random() < 0.6:
            cell = rnd.choice(origins)
        return ["split", cell[0], cell[1]]
    if kind == "text":
        t = "t%d" % step
        if rnd.random() < 0.12:  # text held by a field only (slide number, date), as PowerPoint authors it: no a:r in the paragraph
            return ["fld", cell[0], cell[1], t]
        return ["text", cell[0], cell[1], rnd.choice(("", t, t, t + "a\n" + t + "b", t + "a\n\n" + t + "b", "\n", t + "\vbr", "ü" + t, "\v", "\v\v"))]
    size = rnd.choice((0, 1, rnd.randrange(5000000), rnd.randrange(5000000)))
    if rnd.random() < 0.2:  # the graphic frame itself resized (as PowerPoint does when text wraps): frame and rows/columns now disagree
        return ["frameh" if kind == "rowh" else "framew", size]
    return ["rowh", cell[0], size] if kind == "rowh" else ["colw", cell[1], size]


def run_random(env, unit):
    from vlib import env as venv

    acc = env.acc
    for k in range(unit["first"], unit["first"] + unit["count"]):
        rnd = venv.rng(ID, "random", k)
        r, c = rnd.randint(1, 12), rnd.randint(1, 12)
        w, h = rnd.randrange(c, 9000000), rnd.randrange(r, 6000000)
        profile = rnd.choice(sorted(PROFILES))
        ops = []
        wit = dict(kind="seq", rows=r, cols=c, width=w, height=h, prefill=False, ops=ops)
        table, el = env.new_table(r, c, w, h)
        m = check_new(env, el, r, c, w, h, wit)
        merges, ok = 0, m is not None
        while ok and len(ops) < unit["ops"]:
            ops.append(random_op(rnd, m, profile, len(ops)))
            now = dict(wit, ops=list(ops))
            res = apply_op(env, table, el, m, ops[-1], now)
            ok = res is not ABORT and compare(env, el, table, m, now)
            merges += res is True
        if ok and k % unit["every"] == 0:
            save_check(env, el, m, wit)
        acc.case(key=venv.khash([r, c, ops]), nontrivial=len(ops) >= 2 and merges > 0, cls="random-" + profile,
                 sample={"rows": r, "cols": c, "profile": profile, "accepted_merges": merges, "ops": ops[:6]} if k % 97 == 0 else None)
        acc.count("random_accepted_merges", merges)
        env.sptree.remove(el)


# ---------------------------------------------------------------- add_table / insert_table / cross-table
def run_add_table(env, unit):
    r = unit["rows"]
    for c, k in ((c, k) for c in range(1, 9) for k in (0, 1, 100003)):
        for j, i in ((j, i) for j in range(c) for i in range(r)):
            w, h = c * k + j, r * k + i
            wit = dict(kind="add_table", rows=r, cols=c, width=w, height=h)
            table, el = env.new_table(r, c, w, h)
            m = check_new(env, el, r, c, w, h, wit)
            if m is not None and (i + j) % 3 == 0:
                compare(env, el, table, m, wit)
            env.acc.case(nontrivial=bool(i or j), cls="add_table")
            env.sptree.remove(el)


PH_SP = (
    '<p:sp xmlns:p="%s" xmlns:a="%s"><p:nvSpPr><p:cNvPr id="%%d" name="Table Placeholder"/><p:cNvSpPr><a:spLocks noGrp="1"/>'
    '</p:cNvSpPr><p:nvPr><p:ph type="tbl" idx="13"/></p:nvPr></p:nvSpPr><p:spPr><a:xfrm><a:off x="101" y="202"/>'
    '<a:ext cx="%%d" cy="500000"/></a:xfrm></p:spPr></p:sp>' % (P, A)
)


def run_insert_table(env, only=None):
    """insert_table on an injected table placeholder: documented = placeholder's position and width, height = rows * k."""
    from pptx.oxml import parse_xml

    acc, ratios = env.acc, set()
    for r, c in [only] if only else [(r, c) for r in range(1, 9) for c in range(1, 9)]:
        phw = 1000003 + 7 * r + c
        env.sptree.append(parse_xml(PH_SP % (900 + r * 8 + c, phw)))
        wit = dict(kind="insert_table", rows=r, cols=c)
        phs = [p for p in env.slide.placeholders if hasattr(p, "insert_table")]
        if len(phs) != 1:
            raise RuntimeError("injected table placeholder not offered by slide.placeholders")
        gf = phs[0].insert_table(r, c)
        env.n["insert_table"] += 1
        el = env.sptree[-1]
        cy = sizes(el)[3] if X_TBL(el) else 0
        m = check_new(env, el, r, c, phw, cy, wit, what="insert_table")
        if m is not None:
            off = X_OFF(el)[0]
            if (off.get("x"), off.get("y")) != ("101", "202"):
                acc.violation("insert_table-position", "frame at (%s,%s), placeholder at (101,202)" % (off.get("x"), off.get("y")), wit)
            compare(env, el, gf.table, m, wit)
            # the table made from a placeholder is a table like any other: a few sizes, merges and splits on it
            from vlib import env as venv

            rnd = venv.rng(ID, "insert_table", r, c)
            ops = []
            wit2 = dict(wit, ops=ops)
            for step in range(5):
                ops.append(random_op(rnd, m, "resize-heavy", step))
                res = apply_op(env, gf.table, el, m, ops[-1], dict(wit2, ops=list(ops)))
                if res is ABORT or not compare(env, el, gf.table, m, dict(wit2, ops=list(ops)), tag="placeholder-table:"):
                    break
            env.n["ops_on_tables_made_by_insert_table"] += len(ops)
            ratios.add(cy / r)
            if cy % r or len(ratios) > 1:
                acc.violation("insert_table-height-not-proportional", "frame height %d for %d rows (height/rows seen: %s)" % (cy, r, sorted(ratios)), wit)
        acc.case(nontrivial=phw % c != 0, cls="insert_table")
        env.sptree.remove(el)


def run_cross(env):
    for r, c in ((r, c) for r in range(1, 4) for c in range(1, 4)):
        wit = {}
        s = start(env, r, c, wit)
        env.other_table(r, c)
        if s is None:
            continue
        table, el, m = s
        every = Model.cells((0, 0), (r - 1, c - 1))
        for a, b in ((a, b) for a in every for b in every):
            op = ["xmerge", a[0], a[1], b[0], b[1]]
            w2 = dict(wit, ops=[op], other=[r, c])
            if apply_op(env, table, el, m, op, w2) is not ABORT:
                compare(env, el, table, m, w2)
            env.acc.case(nontrivial=False, cls="cross-table")
        env.sptree.remove(el)


# ---------------------------------------------------------------- contract
def plan(tier, seed):
    units = []

    def exh(shapes, depth, full, target, **kw):
        for r, c in shapes:
            nops = len(all_ops(r, c, True)) if full else (r * (r + 1) // 2) * (c * (c + 1) // 2) + r * c
            of = max(1, min(nops, -(-(nops ** depth) // target)))
            of = nops if of * 2 > nops else of  # whole first operations per unit keep the units even
            units.extend(dict(kind="exh", r=r, c=c, depth=depth, full=full, shard=s, of=of, cost=nops ** depth / of, **kw) for s in range(of))

    small = [(r, c) for r in range(1, 4) for c in range(1, 4)]
    if tier == "quick":
        exh(small, 2, True, 700, every=300)
        nrand, per, every = 300, 10, 50
    else:
        side4 = [(r, c) for r in range(1, 5) for c in range(1, 5) if max(r, c) == 4]
        exh(small, 3, True, 15000)
        exh(side4, 2, True, 15000)
        exh(side4, 3, False, 15000, count_from=3)
        nrand, per, every = 20000, 250, 200
    for first in range(0, nrand, per):
        units.append(dict(kind="random", first=first, count=min(per, nrand - first), ops=30, every=every, cost=per * 50))
    units += [dict(kind="add_table", rows=r, cost=3000) for r in range(1, 9)]
    units += [dict(kind="insert_table", cost=500), dict(kind="cross", cost=500)]
    units.sort(key=lambda u: -u["cost"])  # round-robin over the workers then balances
    return units


_ENV = []


def run_unit(unit, tier, seed, acc):
    if not _ENV or _ENV[0].acc is not acc:  # one presentation per worker process
        _ENV[:] = [Env(acc)]
    env = _ENV[0]
    try:
        kind = unit["kind"]
        if kind == "exh":
            run_exh(env, unit)
        elif kind == "random":
            run_random(env, unit)
        elif kind == "add_table":
            run_add_table(env, unit)
        elif kind == "insert_table":
            run_insert_table(env)
        elif kind == "cross":
            run_cross(env)
    finally:
        env.flush()


def show(frame_el, m):
    for tr in X_TR(X_TBL(frame_el)[0]):
        print("   ", "  ".join("%d,%d,%d,%d %-14r" % (flags(tc) + ("|".join(paras(tc))[:12],)) for tc in X_TC(tr)))
    print("    sizes (widths, heights, cx, cy)", sizes(frame_el), "model regions (top,left,h,w)", sorted(set(m.region.values())))


def replay(w, acc):
    env = Env(acc)
    r, c = w["rows"], w["cols"]
    if w.get("kind") == "insert_table":
        return run_insert_table(env, only=(r, c))
    table, el = env.new_table(r, c, w["width"], w["height"])
    print("add_table(%d,%d,width=%d,height=%d) ->" % (r, c, w["width"], w["height"]), sizes(el))
    m = check_new(env, el, r, c, w["width"], w["height"], w)
    if m is None or w.get("kind") == "add_table":
        return
    if w.get("other"):
        env.other_table(*w["other"])
    print("cells below: gridSpan,rowSpan,hMerge,vMerge 'paragraphs'")
    for op in (prefill_ops(r, c) if w.get("prefill") else []) + w["ops"]:
        res = apply_op(env, table, el, m, op, w)
        print("op", op, "->", {True: "accepted merge", False: "done / refused as expected", ABORT: "VIOLATION"}[res])
        if op[0] != "text" or res is ABORT:
            show(el, m)
        if res is ABORT or not compare(env, el, table, m, w):
            return
    if w.get("reopen"):
        save_check(env, el, m, w)


def finalize(acc, tier, seed):
    for need in NEED:
        if not acc.reach.get(need):
            acc.inconclusive.append("never reached: " + need)
