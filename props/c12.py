"""C12 — inspecting a presentation does not change it.

Every corpus deck (and decks produced by short generated histories) is opened twice: one copy is
saved straight away, the other is traversed with the read-only accessors the statement lists, in
seeded order and repetition, with saves in between, and saved.  vlib.opcx reads both files
independently and compares the canonical part graphs (parts identified by relationship path from
the root, so the documented slide rename is not a difference) with XML equivalence after removing
void formatting containers (the tolerated class spelled out in DESIGN.md C12).
"""
from __future__ import annotations

import io
import os

ID = "C12"
LEVEL = "exploration"
RULE = (
    "decks = the 67 corpus decks + generated decks (default template + seeded history of additions); a case = (deck, "
    "traversal order seed, passes, number of intermediate saves). Pass 'basic' = the accessors listed in the statement; pass "
    "'format' adds formatting readers (font/paragraph/fill/line/axis readers); unit 'creating' applies each accessor documented "
    "as creating content (notes_slide, notes_master, chart_title, its text_frame, axis_title, background.fill, core_properties, "
    "text_frame) alone on each deck: its documented effect is the only change allowed. Non-trivial when the deck has >= 1 slide and "
    "the traversal called >= 30 distinct accessors. Distinct by (deck, order seed, passes)."
)
ASSUMPTIONS = [
    "vlib/opcx.py independent reader; parts matched by relationship path (type + position among same-type relationships) from the package root",
    "tolerated class: attribute-less, text-less, childless elements from the void-container list below are ignored; an empty text body equals an absent one; p:sldIdLst etc. empty = absent (DESIGN.md C12 'reading of the statement')",
]

P = "http://schemas.openxmlformats.org/presentationml/2006/main"
A = "http://schemas.openxmlformats.org/drawingml/2006/main"
C = "http://schemas.openxmlformats.org/drawingml/2006/chart"
VOID = {
    "{%s}%s" % (A, n) for n in ("pPr", "rPr", "defRPr", "endParaRPr", "tcPr", "ln", "lstStyle", "bodyPr", "avLst", "spPr")
} | {"{%s}%s" % (P, n) for n in ("spPr", "sldIdLst", "sldMasterIdLst", "sldLayoutIdLst", "notesMasterIdLst")} | {
    "{%s}%s" % (C, n) for n in ("spPr", "txPr")
}
ACCESSORS = set()


RECORD = None  # a list while some caller wants the readings themselves (props/c11.py unit corpus_lexical)


def _plain(v):
    if v is None or isinstance(v, (bool, int, float, str, bytes)):
        return repr(v)
    if isinstance(v, (list, tuple)):
        return "%s[%d]" % (type(v).__name__, len(v))
    name = getattr(v, "name", None)
    return "%s%s" % (type(v).__name__, ":" + name if isinstance(name, str) and hasattr(type(v), "__members__") else "")


def _r(name, fn):
    """Call one reader; count which accessor ran; documented limitations are caught and counted."""
    ACCESSORS.add(name)
    try:
        res = fn()
        if RECORD is not None:
            RECORD.append((name, _plain(res)))
        return res
    except (NotImplementedError, KeyError, ValueError, AttributeError, IndexError, TypeError) as e:
        LIMITS[name + ":" + type(e).__name__] = LIMITS.get(name + ":" + type(e).__name__, 0) + 1
        if RECORD is not None:
            RECORD.append((name, "raises " + type(e).__name__))
        return None


LIMITS = {}


def read_text_frame(tf, rnd, fmt):
    n = 0
    _r("TextFrame.text", lambda: tf.text)
    for p in _r("TextFrame.paragraphs", lambda: list(tf.paragraphs)) or []:
        n += 1
        _r("_Paragraph.text", lambda: p.text)
        _r("_Paragraph.level", lambda: p.level)
        for r in _r("_Paragraph.runs", lambda: list(p.runs)) or []:
            _r("_Run.text", lambda: r.text)
            if fmt:
                f = r.font
                _r("Font.bold", lambda: f.bold)
                _r("Font.italic", lambda: f.italic)
                _r("Font.size", lambda: f.size)
                _r("Font.name", lambda: f.name)
                _r("Font.underline", lambda: f.underline)
                _r("Font.language_id", lambda: f.language_id)
                _r("_Run.hyperlink.address", lambda: r.hyperlink.address)
        if fmt:
            _r("_Paragraph.alignment", lambda: p.alignment)
            _r("_Paragraph.line_spacing", lambda: p.line_spacing)
            _r("_Paragraph.space_before", lambda: p.space_before)
            _r("_Paragraph.space_after", lambda: p.space_after)
    if fmt:
        _r("TextFrame.word_wrap", lambda: tf.word_wrap)
        _r("TextFrame.auto_size", lambda: tf.auto_size)
        _r("TextFrame.vertical_anchor", lambda: tf.vertical_anchor)
        _r("TextFrame.margin_left", lambda: tf.margin_left)
        _r("TextFrame.margin_top", lambda: tf.margin_top)
    return n


def read_chart(ch, fmt):
    _r("Chart.chart_type", lambda: ch.chart_type)
    _r("Chart.has_legend", lambda: ch.has_legend)
    _r("Chart.has_title", lambda: ch.has_title)
    _r("Chart.chart_style", lambda: ch.chart_style)
    if _r("Chart.has_title(2)", lambda: ch.has_title):
        # the documented guard: text_frame creates a rich-text body unless has_text_frame says there is one already
        if _r("ChartTitle.has_text_frame", lambda: ch.chart_title.has_text_frame):
            _r("ChartTitle.text_frame.text (guarded by has_text_frame)", lambda: ch.chart_title.text_frame.text)
    for pl in _r("Chart.plots", lambda: list(ch.plots)) or []:
        _r("Plot.categories", lambda: list(pl.categories))
        _r("Plot.categories.flattened_labels", lambda: pl.categories.flattened_labels)
        _r("Plot.categories.levels", lambda: [list(lv) for lv in pl.categories.levels])
        _r("Plot.categories.depth", lambda: pl.categories.depth)
        if _r("Plot.has_data_labels", lambda: pl.has_data_labels):
            dls = pl.data_labels
            _r("DataLabels.number_format", lambda: dls.number_format)
            _r("DataLabels.number_format_is_linked", lambda: dls.number_format_is_linked)
            _r("DataLabels.position", lambda: dls.position)
            _r("DataLabels.show_value", lambda: dls.show_value)
            _r("DataLabels.show_category_name", lambda: dls.show_category_name)
            _r("DataLabels.show_series_name", lambda: dls.show_series_name)
            _r("DataLabels.show_percentage", lambda: dls.show_percentage)
            _r("DataLabels.show_legend_key", lambda: dls.show_legend_key)
        _r("Plot.vary_by_categories", lambda: pl.vary_by_categories)
        for se in _r("Plot.series", lambda: list(pl.series)) or []:
            _r("Series.name", lambda: se.name)
            _r("Series.values", lambda: tuple(se.values))
            _r("Series.index", lambda: se.index)
            pts = _r("Series.points", lambda: se.points)
            npts = _r("Series.points.__len__", lambda: len(pts)) if pts is not None else 0
            for i in range(min(npts or 0, 3)):
                pt = _r("Series.points[i]", lambda: pts[i])
                if pt is not None:
                    dl = _r("Point.data_label", lambda: pt.data_label)
                    if dl is not None:
                        if _r("DataLabel.has_text_frame", lambda: dl.has_text_frame):
                            _r("DataLabel.text_frame.text (guarded by has_text_frame)", lambda: dl.text_frame.text)
                        _r("DataLabel.position", lambda: dl.position)
            if fmt:
                _r("Series.format.fill.type", lambda: se.format.fill.type)
                _r("Series.format.line.width", lambda: se.format.line.width)
                if hasattr(se, "smooth"):
                    _r("Series.smooth", lambda: se.smooth)
                if hasattr(se, "invert_if_negative"):
                    _r("Series.invert_if_negative", lambda: se.invert_if_negative)
        if fmt:
            if hasattr(pl, "gap_width"):
                _r("Plot.gap_width", lambda: pl.gap_width)
                _r("Plot.overlap", lambda: pl.overlap)
            if hasattr(pl, "bubble_scale"):
                _r("BubblePlot.bubble_scale", lambda: pl.bubble_scale)
    _r("Chart.series", lambda: [s.name for s in ch.series])
    if fmt:
        for axn in ("category_axis", "value_axis"):
            ax = _r("Chart." + axn, lambda: getattr(ch, axn))
            if ax is not None:
                _r("Axis.has_major_gridlines", lambda: ax.has_major_gridlines)
                _r("Axis.has_minor_gridlines", lambda: ax.has_minor_gridlines)
                if _r("Axis.has_title", lambda: ax.has_title):
                    _r("AxisTitle.has_text_frame", lambda: ax.axis_title.has_text_frame)
                if hasattr(ax, "category_type"):
                    _r("Axis.category_type", lambda: ax.category_type)
                if hasattr(ax, "crosses"):
                    _r("ValueAxis.crosses", lambda: ax.crosses)
                    _r("ValueAxis.crosses_at", lambda: ax.crosses_at)
                _r("Axis.major_tick_mark", lambda: ax.major_tick_mark)
                _r("Axis.minor_tick_mark", lambda: ax.minor_tick_mark)
                _r("Axis.maximum_scale", lambda: ax.maximum_scale)
                _r("Axis.minimum_scale", lambda: ax.minimum_scale)
                _r("Axis.tick_label_position", lambda: ax.tick_label_position)
                _r("Axis.visible", lambda: ax.visible)
                _r("Axis.reverse_order", lambda: ax.reverse_order)
                _r("Axis.tick_labels.number_format", lambda: ax.tick_labels.number_format)
                _r("Axis.tick_labels.number_format_is_linked", lambda: ax.tick_labels.number_format_is_linked)
                _r("Axis.tick_labels.offset", lambda: ax.tick_labels.offset)
        if _r("Chart.has_legend", lambda: ch.has_legend):
            lg = ch.legend
            _r("Legend.position", lambda: lg.position)
            _r("Legend.include_in_layout", lambda: lg.include_in_layout)
            _r("Legend.horz_offset", lambda: lg.horz_offset)


def read_shape(sh, rnd, fmt, depth=0):
    n = 1
    _r("shape.shape_id", lambda: sh.shape_id)
    _r("shape.name", lambda: sh.name)
    _r("shape.shape_type", lambda: sh.shape_type)
    _r("shape.left", lambda: sh.left)
    _r("shape.top", lambda: sh.top)
    _r("shape.width", lambda: sh.width)
    _r("shape.height", lambda: sh.height)
    if hasattr(sh, "rotation"):
        _r("shape.rotation", lambda: sh.rotation)
    _r("shape.is_placeholder", lambda: sh.is_placeholder)
    _r("shape.has_text_frame", lambda: sh.has_text_frame)
    _r("shape.has_chart", lambda: sh.has_chart)
    _r("shape.has_table", lambda: sh.has_table)
    if sh.is_placeholder:
        pf = _r("shape.placeholder_format", lambda: sh.placeholder_format)
        if pf is not None:
            _r("placeholder_format.type", lambda: pf.type)
            _r("placeholder_format.idx", lambda: pf.idx)
        if hasattr(sh, "sz"):
            _r("placeholder.idx", lambda: sh.idx)
            _r("placeholder.orient", lambda: sh.orient)
            _r("placeholder.sz", lambda: sh.sz)
    cname = sh.__class__.__name__
    has_body = sh._element.find("{%s}txBody" % P) is not None
    if getattr(sh, "has_text_frame", False) and has_body:
        n += read_text_frame(sh.text_frame, rnd, fmt)
        _r("shape.text", lambda: sh.text)
    if cname in ("Picture", "PlaceholderPicture"):
        img = _r("Picture.image", lambda: sh.image)
        if img is not None:
            _r("Image.blob", lambda: len(img.blob))
            _r("Image.sha1", lambda: img.sha1)
            _r("Image.size", lambda: img.size)
            _r("Image.content_type", lambda: img.content_type)
            _r("Image.ext", lambda: img.ext)
            _r("Image.dpi", lambda: img.dpi)
        _r("Picture.crop_left", lambda: sh.crop_left)
        _r("Picture.crop_top", lambda: sh.crop_top)
        _r("Picture.auto_shape_type", lambda: sh.auto_shape_type)
    if cname == "Shape":
        _r("Shape.auto_shape_type", lambda: sh.auto_shape_type)
        _r("Shape.adjustments", lambda: [a for a in sh.adjustments])
        if fmt:
            _r("Shape.fill.type", lambda: sh.fill.type)
            if _r("Shape.fill.type(2)", lambda: sh.fill.type) is not None and str(sh.fill.type).startswith("SOLID"):
                _r("ColorFormat.type", lambda: sh.fill.fore_color.type)
            _r("Shape.line.width", lambda: sh.line.width)
            _r("Shape.line.dash_style", lambda: sh.line.dash_style)
            _r("Shape.line.fill.type", lambda: sh.line.fill.type)
            _r("Shape.shadow.inherit", lambda: sh.shadow.inherit)
    if cname == "Connector":
        _r("Connector.begin_x", lambda: sh.begin_x)
        _r("Connector.begin_y", lambda: sh.begin_y)
        _r("Connector.end_x", lambda: sh.end_x)
        _r("Connector.end_y", lambda: sh.end_y)
        if fmt:
            _r("Connector.line.width", lambda: sh.line.width)
    if cname == "Movie":
        _r("Movie.media_type", lambda: sh.media_type)
        mf = _r("Movie.media_format", lambda: sh.media_format)
        _r("Movie.poster_frame", lambda: sh.poster_frame.sha1 if sh.poster_frame is not None else None)
    if cname == "GraphicFrame" and _r("GraphicFrame.has_chart", lambda: sh.has_chart) is False and not getattr(sh, "has_table", False):
        of = _r("GraphicFrame.ole_format", lambda: sh.ole_format)
        if of is not None:
            _r("_OleFormat.prog_id", lambda: of.prog_id)
            _r("_OleFormat.show_as_icon", lambda: of.show_as_icon)
            _r("_OleFormat.blob", lambda: len(of.blob))
    if getattr(sh, "has_chart", False):
        ch = _r("GraphicFrame.chart", lambda: sh.chart)
        if ch is not None:
            read_chart(ch, fmt)
    if getattr(sh, "has_table", False):
        t = sh.table
        _r("Table.first_row", lambda: t.first_row)
        _r("Table.horz_banding", lambda: t.horz_banding)
        _r("Table.first_col", lambda: t.first_col)
        _r("Table.last_row", lambda: t.last_row)
        _r("Table.last_col", lambda: t.last_col)
        _r("Table.vert_banding", lambda: t.vert_banding)
        _r("Table.iter_cells", lambda: sum(1 for _ in t.iter_cells()))
        for row in t.rows:
            _r("_Row.height", lambda: row.height)
            for cell in row.cells:
                _r("_Cell.text", lambda: cell.text)
                _r("_Cell.is_merge_origin", lambda: cell.is_merge_origin)
                _r("_Cell.is_spanned", lambda: cell.is_spanned)
                _r("_Cell.span_height", lambda: cell.span_height)
                _r("_Cell.span_width", lambda: cell.span_width)
                if fmt:
                    _r("_Cell.margin_left", lambda: cell.margin_left)
                    _r("_Cell.vertical_anchor", lambda: cell.vertical_anchor)
                    _r("_Cell.fill.type", lambda: cell.fill.type)
                n += 1
        for col in t.columns:
            _r("_Column.width", lambda: col.width)
    if cname == "GroupShape":
        for sub in _r("GroupShape.shapes", lambda: list(sh.shapes)) or []:
            n += read_shape(sub, rnd, fmt, depth + 1)
    if cname != "GroupShape" and hasattr(sh, "click_action"):
        ca = _r("shape.click_action", lambda: sh.click_action)
        if ca is not None:
            _r("ActionSetting.action", lambda: ca.action)
            _r("ActionSetting.hyperlink.address", lambda: ca.hyperlink.address)
            tgt = _r("ActionSetting.target_slide", lambda: ca.target_slide)
            if tgt is not None:
                _r("Slide.slide_id(of a jump target)", lambda: tgt.slide_id)
                _r("Slide.name(of a jump target)", lambda: tgt.name)
    return n


def traverse(prs, rnd, passes=("basic",)):
    """Read-only traversal in seeded order; returns the number of objects visited."""
    fmt = "format" in passes
    n = 0
    _r("Presentation.slide_width", lambda: prs.slide_width)
    _r("Presentation.slide_height", lambda: prs.slide_height)
    jobs = []
    slides = _r("Presentation.slides", lambda: list(prs.slides)) or []
    for s in slides:
        jobs.append(("slide", s))
    for m in _r("Presentation.slide_masters", lambda: list(prs.slide_masters)) or []:
        jobs.append(("master", m))
        for lay in _r("SlideMaster.slide_layouts", lambda: list(m.slide_layouts)) or []:
            jobs.append(("layout", lay))
    lays = _r("Presentation.slide_layouts", lambda: list(prs.slide_layouts)) or []
    if lays:
        _r("SlideLayouts.get_by_name", lambda: prs.slide_layouts.get_by_name(lays[0].name))
        _r("SlideLayouts.index", lambda: prs.slide_layouts.index(lays[-1]))
    _r("Presentation.slide_master", lambda: prs.slide_master.name)
    rnd.shuffle(jobs)
    if rnd.random() < 0.5:
        jobs = jobs + jobs[: max(1, len(jobs) // 3)]  # repetition
    for kind, obj in jobs:
        _r(kind + ".name", lambda: obj.name)
        shapes = _r(kind + ".shapes", lambda: list(obj.shapes)) or []
        if kind == "slide":
            _r("SlideShapes.title", lambda: obj.shapes.title)
            _r("SlideShapes.placeholders", lambda: len(list(obj.shapes.placeholders)))
            if shapes:
                _r("shapes.index", lambda: obj.shapes.index(shapes[0]))
        if rnd.random() < 0.5:
            shapes = list(reversed(shapes))
        for sh in shapes:
            n += read_shape(sh, rnd, fmt)
        for ph in _r(kind + ".placeholders", lambda: list(obj.placeholders)) or []:
            _r("placeholder.placeholder_format.type", lambda: ph.placeholder_format.type)
            n += 1
        # obtaining the background object is documented as safe (only its .fill creates): slide, layout and master alike
        _r(kind + ".background", lambda: obj.background)
        if kind == "slide":
            _r("Slide.follow_master_background:before", lambda: obj.follow_master_background)
            _r("Slide.slide_id", lambda: obj.slide_id)
            _r("Slide.slide_layout", lambda: obj.slide_layout.name)
            _r("Slide.has_notes_slide", lambda: obj.has_notes_slide)
            _r("Slide.follow_master_background", lambda: obj.follow_master_background)
            if obj.has_notes_slide:
                ns = obj.notes_slide  # exists already: reading it creates nothing
                _r("NotesSlide.notes_text_frame", lambda: ns.notes_text_frame.text if ns.notes_text_frame is not None else None)
                for sh in _r("NotesSlide.shapes", lambda: list(ns.shapes)) or []:
                    n += read_shape(sh, rnd, fmt)
            if slides:
                _r("Slides.index", lambda: prs.slides.index(obj))
                _r("Slides.get", lambda: prs.slides.get(obj.slide_id))
        if kind == "layout":
            _r("SlideLayout.used_by_slides", lambda: obj.used_by_slides)
            _r("SlideLayout.slide_master", lambda: obj.slide_master.name)
    has_core = any(r.reltype.endswith("/core-properties") for r in prs.part.package._rels.values())
    if has_core:
        cp = prs.core_properties
        for a in ("author", "title", "subject", "keywords", "comments", "category", "created", "modified", "last_modified_by", "revision", "language", "version", "identifier", "content_status", "last_printed"):
            _r("CoreProperties." + a, lambda: getattr(cp, a))
    return n


def orphan_jump_target(prs):
    """Pre-state: a slide that is the target of a slide jump is taken out of the slide list (the usual
    'delete a slide' recipe: remove its p:sldId and drop the presentation's relationship); it stays in the
    package, reachable only through the jump."""
    slides = list(prs.slides)
    if len(slides) < 2:
        slides.append(prs.slides.add_slide(prs.slide_layouts[6]))
        slides = list(prs.slides)
    src, tgt = slides[0], slides[-1]
    sp = src.shapes.add_shape(1, 0, 0, 914400, 914400)
    sp.click_action.target_slide = tgt
    lst = prs.part._element.find("{%s}sldIdLst" % P)
    for sld in list(lst):
        if prs.part.related_part(sld.get("{http://schemas.openxmlformats.org/officeDocument/2006/relationships}id")) is tgt.part:
            rid = sld.get("{http://schemas.openxmlformats.org/officeDocument/2006/relationships}id")
            lst.remove(sld)
            prs.part.drop_rel(rid)


def link_chart_titles(prs):
    """Pre-state: every chart's title is linked to a worksheet cell (c:title/c:tx/c:strRef, PowerPoint's "title from a
    cell"), i.e. a title exists but holds no rich-text body."""
    from pptx.oxml import parse_xml

    C = "http://schemas.openxmlformats.org/drawingml/2006/chart"
    n = 0
    for ch in _charts(prs):
        chart_el = ch._chartSpace.find("{%s}chart" % C)
        if chart_el is None:
            continue
        for t in chart_el.findall("{%s}title" % C):
            chart_el.remove(t)
        for t in chart_el.findall("{%s}autoTitleDeleted" % C):
            chart_el.remove(t)
        chart_el.insert(0, parse_xml(
            '<c:title xmlns:c="%s"><c:tx><c:strRef><c:f>Sheet1!$B$1</c:f><c:strCache><c:ptCount val="1"/><c:pt idx="0"><c:v>Linked title</c:v></c:pt>'
            '</c:strCache></c:strRef></c:tx><c:overlay val="0"/></c:title>' % C))
        n += 1
    return n


def partial_xfrms(prs, rnd):
    """Pre-state: some shapes keep only half of their a:xfrm (a:off without a:ext, or a:ext without a:off - both children are
    optional in the schema; python-pptx itself leaves such halves behind on placeholders whose position alone was set)."""
    n = 0
    for s in prs.slides:
        for xf in s._element.xpath(".//p:spPr/a:xfrm | .//p:xfrm | .//p:grpSpPr/a:xfrm"):
            if rnd.random() < 0.5:
                continue
            kids = [c for c in xf if c.tag.endswith("}off") or c.tag.endswith("}ext")]
            if len(kids) == 2:
                xf.remove(rnd.choice(kids))
                n += 1
    return n


def foreign_guides(prs, rnd):
    """Pre-state: preset shapes whose a:avLst carries a guide the preset does not define (left over from a change of preset, or
    written by another producer: any number of a:gd is schema-valid there).  Reading shape.adjustments must leave them alone."""
    from lxml import etree

    A = "http://schemas.openxmlformats.org/drawingml/2006/main"
    n = 0
    for s in prs.slides:
        for geom in s._element.xpath(".//p:sp/p:spPr/a:prstGeom"):
            if rnd.random() < 0.4:
                continue
            av = geom.find("{%s}avLst" % A)
            if av is None:
                av = etree.SubElement(geom, "{%s}avLst" % A)
            gd = etree.SubElement(av, "{%s}gd" % A)
            gd.set("name", rnd.choice(["hf", "adj", "adj9", "vf"]))
            gd.set("fmla", "val %d" % rnd.choice([0, 25000, 50000]))
            n += 1
    return n


def thin_data_labels(prs, rnd):
    """Pre-state: plot-level c:dLbls as a frugal producer writes them - some of the optional c:showXxx switches left out, or
    (what PowerPoint writes for labels that were deleted) nothing but <c:delete val="1"/>.  Every member of the group is
    optional; a part that validated before must validate after, else the change is undone.  -> number of c:dLbls thinned."""
    import copy

    from vlib import xsdkit

    C = "{http://schemas.openxmlformats.org/drawingml/2006/chart}"
    n = 0
    for ch in _charts(prs):
        root = ch._chartSpace
        before = xsdkit.validate_part(ch.part.blob)[0]
        for dl in root.iter(C + "dLbls"):
            if not dl.getparent().tag.endswith("Chart"):
                continue
            saved = [copy.deepcopy(c) for c in dl]
            if rnd.random() < 0.35:
                for c in list(dl):
                    dl.remove(c)
                d = dl.makeelement(C + "delete", {"val": "1"})
                dl.append(d)
            else:
                shows = [c for c in dl if isinstance(c.tag, str) and c.tag[len(C):].startswith("show")]
                for c in rnd.sample(shows, rnd.randint(1, len(shows))) if shows else ():
                    dl.remove(c)
            after = xsdkit.validate_part(ch.part.blob)[0]
            if before is not None and after is not None and xsdkit.new_errors(before, after):
                for c in list(dl):
                    dl.remove(c)
                for c in saved:
                    dl.append(c)
            else:
                n += 1
    return n


def strip_optional_attributes(prs, rnd):
    """Pre-state: the deck as a frugal producer writes it - optional attributes (those the schema gives a default or none at
    all) dropped from a random half of the elements python-pptx has classes for.  Each part must validate as well as before,
    else its change is undone.  A reading accessor that 'writes the default back' shows on such a deck only."""
    from lxml import etree
    from pptx.oxml.xmlchemy import BaseOxmlElement
    from vlib import instgen, xsdkit

    m, n = xsdkit.model(), 0
    for part in prs.part.package.iter_parts():
        root = getattr(part, "_element", None)
        if root is None or etree.QName(root).namespace not in (xsdkit.NS["p"], xsdkit.NS["c"]):
            continue
        before = xsdkit.validate_part(etree.tostring(root))[0]
        undo = []
        for el in root.iter():
            if not isinstance(el, BaseOxmlElement) or not el.attrib or rnd.random() < 0.3:
                continue
            t = instgen.declared_type(el)
            if t is None or not m.is_complex(t):
                continue
            decl = m.attributes(t)
            for name in list(el.attrib):
                d = decl.get(name)
                if d is not None and d[1] != "required" and not name.startswith("{") and name not in ("id", "idx", "type", "name") and rnd.random() < 0.7:
                    undo.append((el, name, el.get(name)))
                    del el.attrib[name]
        if undo and xsdkit.validate_part(etree.tostring(root))[0] != before:
            for el, name, val in undo:
                el.set(name, val)
        else:
            n += len(undo)
    return n


def blank_hyperlink_targets(data):
    """Pre-state (on package bytes): the first hyperlink relationship of each slide keeps its id but has Target="" (a link
    'cleared' by another producer; the run still refers to it).  -> bytes or None when the deck has no hyperlink."""
    import zipfile

    from lxml import etree

    zin = zipfile.ZipFile(io.BytesIO(data))
    out, hit = io.BytesIO(), 0
    with zipfile.ZipFile(out, "w", zipfile.ZIP_DEFLATED) as zout:
        for n in zin.namelist():
            blob = zin.read(n)
            if n.startswith("ppt/slides/_rels/") and b"/hyperlink\"" in blob:
                root = etree.fromstring(blob)
                for rel in root:
                    if rel.get("Type", "").endswith("/hyperlink") and rel.get("TargetMode") == "External":
                        rel.set("Target", "")
                        hit += 1
                        break
                blob = etree.tostring(root, xml_declaration=True, encoding="UTF-8", standalone=True)
            zout.writestr(n, blob)
    return out.getvalue() if hit else None


def strip_notes_master_ref(data):
    """Pre-state (on package bytes): the presentation part no longer refers to the notes master (relationship and
    p:notesMasterIdLst removed); the master stays reachable from the notes slides only.  -> bytes, or None when the deck has
    no notes slide."""
    import zipfile

    from lxml import etree

    zin = zipfile.ZipFile(io.BytesIO(data))
    names = zin.namelist()
    if not any(n.startswith("ppt/notesSlides/") for n in names) or "ppt/_rels/presentation.xml.rels" not in names:
        return None
    out = io.BytesIO()
    with zipfile.ZipFile(out, "w", zipfile.ZIP_DEFLATED) as zout:
        for n in names:
            blob = zin.read(n)
            if n == "ppt/_rels/presentation.xml.rels":
                root = etree.fromstring(blob)
                for rel in list(root):
                    if rel.get("Type", "").endswith("/notesMaster"):
                        root.remove(rel)
                blob = etree.tostring(root, xml_declaration=True, encoding="UTF-8", standalone=True)
            elif n == "ppt/presentation.xml":
                root = etree.fromstring(blob)
                for el in root.findall("{%s}notesMasterIdLst" % P):
                    root.remove(el)
                blob = etree.tostring(root, xml_declaration=True, encoding="UTF-8", standalone=True)
            zout.writestr(n, blob)
    return out.getvalue()


# ------------------------------------------------------------------ canonical graph
def normalise(root):
    """Remove, bottom-up, void formatting containers; treat an empty text body as absent."""
    from lxml import etree

    changed = True
    while changed:
        changed = False
        for el in list(root.iter()):
            if not isinstance(el.tag, str) or el.getparent() is None:
                continue
            if len(el) or el.attrib or (el.text and el.text.strip()):
                continue
            if el.tag in VOID:
                el.getparent().remove(el)
                changed = True
        for tb in list(root.iter("{%s}txBody" % P)):
            kids = [k.tag for k in tb]
            ps = [k for k in tb if k.tag == "{%s}p" % A]
            if all(k == "{%s}p" % A for k in kids) and len(ps) <= 1 and all(len(p) == 0 and not p.attrib for p in ps) and tb.getparent() is not None:
                tb.getparent().remove(tb)
                changed = True
    return root


def canon_part(blob):
    from lxml import etree
    from vlib import opcx

    try:
        root = etree.fromstring(blob, opcx.PLAIN)
    except etree.XMLSyntaxError:
        return blob
    return opcx.canonical(normalise(root))


class Graph(dict):
    """{relationship path: value} plus `reach`: {part name: [paths reaching it]} (part names are per-package and legitimately
    differ between two saves; only the PATHS sets are compared)."""

    reach = None

    def shared_with(self, path):
        """The other paths that reach the part `path` reaches (empty for external / cut entries)."""
        for paths in self.reach.values():
            if path in paths:
                return [q for q in paths if q != path]
        return []


def graph(pkg):
    """{relationship path: (content type, canonical payload) | ('external', target) | ('ref', path of the ancestor)};
    path = tuple of (reltype, ordinal among the source's same-type relationships in document order).  EVERY path is expanded
    down to the point where it would re-enter a part it is already inside (a cycle, recorded as 'ref' to that ancestor), so a
    part's entry does not depend on which of several routes happens to come first in document order (a new notes slide on an
    earlier slide used to move the notes master's 'first' route); which paths share one part is kept in `.reach`."""
    out = Graph()
    out.reach = {}
    payloads = {}

    def walk(src, path, stack):
        by_type = {}
        for r in pkg.rels(src) or []:
            k = by_type.get(r.type, 0)
            by_type[r.type] = k + 1
            if r.external:
                out[path + ((r.type, k, "ext"),)] = ("external", r.raw)
                continue
            if not pkg.has_part(r.target):
                continue
            p2 = path + ((r.type, k),)
            if r.target in stack:
                out[p2] = ("ref", stack[r.target])
                continue
            if r.target not in payloads:
                payloads[r.target] = (pkg.ctype(r.target), canon_part(pkg.blob(r.target)))
            out.reach.setdefault(r.target, []).append(p2)
            out[p2] = payloads[r.target]
            stack[r.target] = p2
            walk(r.target, p2, stack)
            del stack[r.target]

    walk("/", (), {})
    return out


def compare_graphs(ga, gb):
    diffs = []
    for k in sorted(set(ga) | set(gb), key=repr):
        if k not in ga:
            diffs.append(("part-appeared", k, None))
        elif k not in gb:
            diffs.append(("part-disappeared", k, None))
        elif ga[k] != gb[k]:
            diffs.append(("part-changed", k, (ga[k], gb[k])))
    # two routes that led to ONE part must still do so (and two that led to different parts must not have been merged)
    common = set(ga) & set(gb)
    cls_a = {q: frozenset(x for x in paths if x in common) for paths in ga.reach.values() for q in paths if q in common}
    cls_b = {q: frozenset(x for x in paths if x in common) for paths in gb.reach.values() for q in paths if q in common}
    for q in sorted(set(cls_a) & set(cls_b), key=repr):
        if cls_a[q] != cls_b[q]:
            diffs.append(("sharing-changed", q, None))
            break
    return diffs


def describe_change(a, b):
    """Name of the first differing element between two canonical payloads (mechanism key)."""
    from lxml import etree
    from vlib import xsdkit

    try:
        ra, rb = etree.fromstring(a[1]), etree.fromstring(b[1])
    except Exception:
        return "binary-or-type"

    def walk(x, y):
        if x.tag != y.tag:
            return "%s-vs-%s" % (xsdkit.pfx_tag(x.tag), xsdkit.pfx_tag(y.tag))
        if dict(x.attrib) != dict(y.attrib):
            ks = sorted(set(x.attrib) ^ set(y.attrib)) or sorted(k for k in x.attrib if x.attrib[k] != y.attrib.get(k))
            return "%s/@%s" % (xsdkit.pfx_tag(x.tag), xsdkit.pfx_tag(ks[0]) if ks[0].startswith("{") else ks[0])
        if (x.text or "") != (y.text or ""):
            return "%s/text()" % xsdkit.pfx_tag(x.tag)
        if len(x) != len(y):
            tx, ty = [c.tag for c in x], [c.tag for c in y]
            extra = [t for t in ty if t not in tx] or [t for t in tx if t not in ty] or ty
            return "%s>%s:%s" % (xsdkit.pfx_tag(x.tag), xsdkit.pfx_tag(extra[0]), "added" if len(y) > len(x) else "removed")
        for cx, cy in zip(x, y):
            r = walk(cx, cy)
            if r:
                return r
        return None

    return walk(ra, rb) or "?"


# ------------------------------------------------------------------ accessors documented as creating content
# accessor -> (function(prs, rnd) -> number of objects it was applied to, allowed difference keys (regex))
def _cr_notes_slide(prs, rnd):
    n = 0
    for s in prs.slides:
        if not s.has_notes_slide:
            _ = s.notes_slide
            n += 1
            break
    return n


def _cr_notes_master(prs, rnd):
    _ = prs.notes_master
    return 1


def _charts(prs):
    for s in prs.slides:
        for sh in s.shapes:
            if getattr(sh, "has_chart", False):
                try:
                    yield sh.chart
                except Exception:  # noqa
                    continue


def _cr_chart_title(prs, rnd):
    n = 0
    for ch in _charts(prs):
        if not ch.has_title:
            _ = ch.chart_title
            n += 1
    return n


def _cr_chart_title_tf(prs, rnd):
    n = 0
    for ch in _charts(prs):
        if ch.has_title and not ch.chart_title.has_text_frame:
            _ = ch.chart_title.text_frame
            n += 1
    return n


def _cr_axis_title(prs, rnd):
    n = 0
    for ch in _charts(prs):
        for axn in ("category_axis", "value_axis"):
            try:
                ax = getattr(ch, axn)
            except ValueError:
                continue
            if not ax.has_title:
                _ = ax.axis_title
                n += 1
    return n


def _cr_background_fill(prs, rnd):
    n = 0
    for s in list(prs.slides)[:2]:
        _ = s.background.fill
        n += 1
    return n


def _cr_core_properties(prs, rnd):
    if any(r.reltype.endswith("/core-properties") for r in prs.part.package._rels.values()):
        return 0
    _ = prs.core_properties
    return 1


def _cr_text_frame(prs, rnd):
    n = 0
    for s in prs.slides:
        for sh in s.shapes:
            if sh.__class__.__name__ == "Shape" and sh._element.find("{%s}txBody" % P) is None:
                _ = sh.text_frame
                n += 1
    return n


CREATING = {
    "Slide.notes_slide": (_cr_notes_slide, r"part-appeared:(notesSlide|notesMaster|theme)$|reference-appeared:(slide|notesMaster|theme)$|part-changed:p:presentation>p:notesMasterIdLst:added$"),
    "Presentation.notes_master": (_cr_notes_master, r"part-appeared:(notesMaster|theme)$|part-changed:p:presentation>p:notesMasterIdLst:added$"),
    "Chart.chart_title": (_cr_chart_title, r"part-changed:c:chart>c:title:added$"),
    "ChartTitle.text_frame": (_cr_chart_title_tf, r"part-changed:c:title>c:tx:added$"),
    "_BaseAxis.axis_title": (_cr_axis_title, r"part-changed:c:(catAx|valAx|dateAx)>c:title:added$"),
    "_Background.fill": (_cr_background_fill, r"part-changed:p:cSld>p:bg:added$|part-changed:p:bg>p:bgPr:added$|part-changed:p:bgRef-vs-p:bgPr$"),
    "Presentation.core_properties": (_cr_core_properties, r"part-appeared:core-properties$"),
    "Shape.text_frame": (_cr_text_frame, r"$^"),  # an empty text body equals an absent one: no difference may remain at all
}


_STRAIGHT = [None, None]


def _straight_save(data):
    """Pkg of open(data) -> save with nothing in between (one-slot cache: the same deck is used for every creating accessor)."""
    import pptx
    from vlib import opcx

    if _STRAIGHT[0] != data:
        b = io.BytesIO()
        pptx.Presentation(io.BytesIO(data)).save(b)
        _STRAIGHT[:] = [data, opcx.Pkg.from_bytes(b.getvalue())]
    return _STRAIGHT[1]


def creating_case(data, label, accessor, acc, witness):
    """One documented-as-creating accessor applied alone: the documented effect is the only change allowed."""
    import re

    import pptx
    from vlib import env, opcx

    fn, allowed = CREATING[accessor]
    base = pptx.Presentation(io.BytesIO(data))
    traverse(base, env.rng("C12cr", label), ("basic",))  # same tolerated side effects on both sides
    b0 = io.BytesIO()
    base.save(b0)
    prs = pptx.Presentation(io.BytesIO(data))
    traverse(prs, env.rng("C12cr", label), ("basic",))
    try:
        n = fn(prs, None)
    except (NotImplementedError, KeyError, ValueError, AttributeError) as e:
        acc.count("documented_limitation:%s:%s" % (accessor, type(e).__name__))
        return
    if not n:
        acc.count("creating_accessor_not_applicable:" + accessor)
        return
    b1 = io.BytesIO()
    prs.save(b1)
    pa, pb = opcx.Pkg.from_bytes(b0.getvalue()), opcx.Pkg.from_bytes(b1.getvalue())
    ga, gb = graph(pa), graph(pb)
    # "saving never changes the meaning of any part": what XML equivalence cannot see - a prefix named by a markup-compatibility
    # attribute must still be declared after saving, when it was in the deck as opened
    pin = opcx.Pkg.from_bytes(data)
    # ... and an external relationship carries the same target string after saving as in the deck opened (part XML equal and
    # the rels item re-spelt is a changed meaning too); compared by (source part, rId) on the straight save, where no part was renamed
    ext_in = {(src, r.id): r.raw for src in ["/"] + [n for n in pin.part_names()] for r in (pin.rels(src) or []) if r.external}
    if ext_in:
        pa = _straight_save(data)  # (b0 was traversed, which legitimately renames slide parts of a deck whose names are out of order)
        ext_out = {(src, r.id): r.raw for src in ["/"] + [n for n in pa.part_names()] for r in (pa.rels(src) or []) if r.external}
        acc.count("external_targets_compared", len(ext_in))
        for key_, tgt in sorted(ext_in.items()):
            if key_ in ext_out and ext_out[key_] != tgt:
                acc.violation("external-target-changed-by-saving", "%s: %s %s targets %r in the deck opened and %r after a straight save" % (label, key_[0], key_[1], tgt, ext_out[key_]), witness)
                break
            if key_ not in ext_out and pa.has_part(key_[0]):
                acc.violation("external-relationship-lost-by-saving", "%s: %s %s (-> %r) is not in the straight save although its source part is" % (label, key_[0], key_[1], tgt), witness)
                break
    was = undeclared_mc_prefixes(pin)
    acc.count("saved_packages_checked_for_mc_prefix_declarations", 2)
    for tag_, pk in (("straight save", pa), ("save after traversal", pb)):
        for name, pfx in sorted(undeclared_mc_prefixes(pk) - was)[:2]:
            acc.violation("mc-prefix-undeclared-after-save", "%s: %s of %s names prefix %r in a markup-compatibility attribute but no longer declares it" % (label, tag_, name, pfx), witness)
    acc.hit("creating:" + accessor)
    acc.count("creating_accessor_applications", n)
    seen_documented = False
    for kind, path, pair in compare_graphs(ga, gb):
        if kind == "part-changed":
            if pair[0][0] in ("external", "ref") or pair[1][0] in ("external", "ref"):
                key = "relationship-changed"
            else:
                key = "part-changed:" + describe_change(pair[0], pair[1])
        elif kind == "sharing-changed":
            key = kind + ":" + path[-1][0].rsplit("/", 1)[-1]
        else:
            g1, g2 = (gb, ga) if kind == "part-appeared" else (ga, gb)
            val = g1.get(path)
            # a further route to a part the other package has too is a reference that (dis)appeared, not a part
            is_ref = val is not None and (val[0] in ("ref", "external") or any(q in g2 for q in g1.shared_with(path)))
            key = ("reference" + kind[4:] if is_ref else kind) + ":" + path[-1][0].rsplit("/", 1)[-1]
        if re.search(allowed, key):
            seen_documented = True
            continue
        acc.violation(
            "creating:%s:%s" % (accessor, key),
            "%s: %s (documented as creating content) also caused: %s at %s" % (label, accessor, key, path[-1][0].rsplit("/", 1)[-1]),
            witness,
        )
    acc.count("creating_effect_observed" if seen_documented else "creating_effect_not_visible_in_saved_file")
    acc.case(desc=witness, nontrivial=True, cls="creating:" + accessor)


# ------------------------------------------------------------------ the check
def plan(tier, seed):
    from vlib import env

    decks = [os.path.relpath(p, env.REPO) for p in env.corpus_decks()] + ["manufactured:%d" % k for k in range(8)]  # + decks with irregular part names / ids
    orders = 1 if tier == "quick" else 30
    units = []
    for i in range(16):
        units.append({"kind": "corpus", "decks": decks[i::16], "orders": orders})
    for i in range(8):
        units.append({"kind": "creating", "decks": decks[i::8]})
    ngen = 48 if tier == "quick" else 2000
    per = 3 if tier == "quick" else 125
    for lo in range(0, ngen, per):
        units.append({"kind": "generated", "lo": lo, "hi": lo + per})
    return units


MC_NS = "http://schemas.openxmlformats.org/markup-compatibility/2006"


def undeclared_mc_prefixes(pkg):
    """{(part, prefix)}: namespace prefixes that markup-compatibility attributes name (mc:Ignorable="p14", mc:Choice
    Requires="v", ...) without a declaration in scope.  Such a prefix is used only inside attribute VALUES, so XML equivalence
    of the element tree does not see its declaration go; the part's meaning does (the reader no longer knows what to ignore)."""
    from lxml import etree
    from vlib.xsdkit import PLAIN

    out = set()
    for name, blob in pkg.members.items():
        if not (name.endswith(".xml") or name.endswith(".rels")) or b"markup-compatibility" not in blob:
            continue
        try:
            root = etree.fromstring(blob, PLAIN)
        except etree.XMLSyntaxError:
            continue
        for el in root.iter():
            if not isinstance(el.tag, str):
                continue
            for k, v in el.attrib.items():
                if k.startswith("{%s}" % MC_NS) or (k == "Requires" and el.tag == "{%s}Choice" % MC_NS):
                    for pfx in v.split():
                        if pfx.split(":")[0] not in el.nsmap:
                            out.add((name, pfx.split(":")[0]))
    return out


def one_case(data, label, rnd, passes, nsaves, acc, witness):
    import pptx
    from vlib import opcx

    base = pptx.Presentation(io.BytesIO(data))
    b0 = io.BytesIO()
    base.save(b0)
    prs = pptx.Presentation(io.BytesIO(data))
    ACCESSORS.clear()
    if nsaves:
        prs.save(io.BytesIO())  # "saving it any number of times": also once before anything was read
        acc.count("saves_before_the_first_read")
    for i in range(nsaves):
        traverse(prs, rnd, passes)
        prs.save(io.BytesIO())
        acc.count("intermediate_saves")
    n = traverse(prs, rnd, passes)
    b1 = io.BytesIO()
    prs.save(b1)
    acc.hit("Presentation.save")
    ga = graph(opcx.Pkg.from_bytes(b0.getvalue()))
    gb = graph(opcx.Pkg.from_bytes(b1.getvalue()))
    acc.count("parts_compared", len(ga))
    acc.count("objects_visited", n)
    for a in ACCESSORS:
        acc.reach[a] = acc.reach.get(a, 0) + 1
    for kind, path, pair in compare_graphs(ga, gb)[:6]:
        if kind == "part-changed":
            if pair[0][0] in ("external", "ref") or pair[1][0] in ("external", "ref"):
                key = "relationship-changed"
                what = "%s" % (path[-1],)
            else:
                key = "part-changed:" + describe_change(pair[0], pair[1])
                what = "part at %s changed" % (path[-1][0].rsplit("/", 1)[-1],)
        else:
            key = kind + ":" + path[-1][0].rsplit("/", 1)[-1]
            what = "%s %s" % (kind, path[-1][0])
        acc.violation(key, "%s: traversal (%s, %d intermediate saves) -> %s [%s]" % (label, "+".join(passes), nsaves, what, key), witness)
    nslides = len(prs.slides)
    acc.case(desc=witness, nontrivial=nslides >= 1 and len(ACCESSORS) >= 30, cls="+".join(passes))


def load_deck(d):
    """Bytes of corpus deck `d` (path relative to the repository) or of 'manufactured:<k>' (slide / notes-slide / image part
    names and relationship ids as producers other than PowerPoint write them; numbering done by the harness at zip level)."""
    from vlib import env

    if d.startswith("manufactured:"):
        from vlib import histories

        return histories.manufactured_deck(env.rng("manufactured", "C12", int(d.split(":")[1])), 3)[0]
    return open(os.path.join(env.REPO, d), "rb").read()


def run_unit(unit, tier, seed, acc):
    from vlib import env

    if unit["kind"] == "creating":
        for d in unit["decks"]:
            data = load_deck(d)
            for accessor in CREATING:
                w = {"deck": d, "creating": accessor}
                try:
                    creating_case(data, os.path.basename(d), accessor, acc, w)
                except Exception as e:  # noqa
                    acc.count("deck_not_traversable:%s" % type(e).__name__)
    elif unit["kind"] == "corpus":
        for d in unit["decks"]:
            data = load_deck(d)
            for o in range(unit["orders"]):
                for passes in (("basic",), ("basic", "format")):
                    rnd = env.rng("C12", d, seed, o, passes)
                    w = {"deck": d, "order": o, "passes": list(passes), "nsaves": o % 3}
                    try:
                        one_case(data, os.path.basename(d), rnd, passes, o % 3, acc, w)
                    except Exception as e:  # noqa
                        acc.count("deck_not_traversable:%s" % type(e).__name__)
                        acc.note("%s: %s: %s" % (d, type(e).__name__, str(e)[:100]))
            stripped = strip_notes_master_ref(data)
            if stripped is not None:  # the same deck with the presentation part no longer referring to its notes master
                rnd = env.rng("C12", d, seed, "stripped")
                w = {"deck": d, "order": 0, "passes": ["basic", "format"], "nsaves": 1, "stripped_notes_master_ref": True}
                try:
                    one_case(stripped, os.path.basename(d) + " (notes master referred to by notes slides only)", rnd, ("basic", "format"), 1, acc, w)
                    acc.count("corpus_decks_with_stripped_notes_master_reference")
                except Exception as e:  # noqa
                    acc.count("deck_not_traversable:%s" % type(e).__name__)
    else:
        from vlib import histories
        from vlib.acc import Acc

        with env.Scratch("c12") as tmp:
            for i in range(unit["lo"], unit["hi"]):
                scratch = Acc()
                run = histories.Run("ids", {"kind": "default"}, ("c12gen", seed, i), 10, scratch, set(), tmp)
                run.observe = ()
                run.id_state = None
                try:
                    run.run()
                    if i % 3 == 0:
                        orphan_jump_target(run.prs)
                    if i % 4 == 0 and len(run.prs.slides):  # a run hyperlink, so that the blank-target pre-state applies
                        tb_ = run.prs.slides[0].shapes.add_textbox(0, 0, 914400, 914400)
                        rn_ = tb_.text_frame.paragraphs[0].add_run()
                        rn_.text = "link"
                        rn_.hyperlink.address = "http://to-be-blanked.example/%d" % i
                    if i % 4 == 2 and len(run.prs.slides):  # a notes slide with text, so that the stripped-reference pre-state applies
                        run.prs.slides[0].notes_slide.notes_text_frame.text = "notes of generated deck %d" % i
                    if i % 5 == 3:
                        from props import c11

                        if c11.respell_numbers(run.prs, env.rng("C12n", seed, i)):  # zero-padded numbers, 5pt, 50%: a reader must not 'tidy' them
                            acc.count("generated_decks_with_numbers_in_other_lexical_forms")
                    if i % 5 == 2 and foreign_guides(run.prs, env.rng("C12g", seed, i)):
                        acc.count("generated_decks_with_foreign_adjustment_guides")
                    if i % 4 == 3 and partial_xfrms(run.prs, env.rng("C12x", seed, i)):
                        acc.count("generated_decks_with_half_transforms")
                    if (i % 5 == 4 or i % 4 == 1) and not any(True for _ in _charts(run.prs)):
                        # these two pre-states are about charts: the deck gets one (with legend, title and data labels) if it has none
                        from pptx.chart.data import CategoryChartData
                        from pptx.enum.chart import XL_CHART_TYPE

                        cd = CategoryChartData()
                        cd.categories = ["a", "b", "c"]
                        cd.add_series("S1", (1, 2, 3))
                        sl = run.prs.slides[0] if len(run.prs.slides) else run.prs.slides.add_slide(run.prs.slide_layouts[6])
                        ch = sl.shapes.add_chart([XL_CHART_TYPE.COLUMN_CLUSTERED, XL_CHART_TYPE.LINE_MARKERS, XL_CHART_TYPE.PIE][i % 3], 0, 0, 4000000, 3000000, cd).chart
                        ch.has_legend, ch.has_title = True, True
                        ch.plots[0].has_data_labels = True
                        ch.plots[0].data_labels.number_format = "0.00"
                        if i % 3 != 2:  # (a pie has no axes)
                            ch.value_axis.tick_labels.number_format = "0.0"
                            ch.category_axis.tick_labels.offset = 50
                    if i % 5 == 4 and strip_optional_attributes(run.prs, env.rng("C12a", seed, i)):
                        acc.count("generated_decks_with_optional_attributes_stripped")
                    if i % 4 == 1 and thin_data_labels(run.prs, env.rng("C12d", seed, i)):
                        acc.count("generated_decks_with_thinned_data_labels")
                    if i % 4 == 1 and link_chart_titles(run.prs):
                        acc.count("generated_decks_with_cell_linked_chart_titles")
                    buf = io.BytesIO()
                    run.prs.save(buf)
                    if i % 4 == 0:
                        blanked = blank_hyperlink_targets(buf.getvalue())
                        if blanked is not None:
                            buf = io.BytesIO(blanked)
                            acc.count("generated_decks_with_a_blank_hyperlink_target")
                    if i % 4 == 2:
                        stripped = strip_notes_master_ref(buf.getvalue())
                        if stripped is not None:
                            buf = io.BytesIO(stripped)
                            acc.count("generated_decks_whose_presentation_does_not_refer_to_the_notes_master")
                except Exception as e:  # noqa
                    acc.count("generated_deck_failed:%s" % type(e).__name__)
                    continue
                for passes in (("basic",), ("basic", "format")):
                    rnd = env.rng("C12g", seed, i, passes)
                    w = {"generated": i, "passes": list(passes), "nsaves": i % 3, "seed": seed}
                    one_case(buf.getvalue(), "generated#%d" % i, rnd, passes, i % 3, acc, w)
    for k, v in LIMITS.items():
        acc.counters["documented_limitation:" + k] = acc.counters.get("documented_limitation:" + k, 0) + v
    LIMITS.clear()


def replay(w, acc):
    from vlib import env

    if "creating" in w:
        data = load_deck(w["deck"])
        creating_case(data, w["deck"], w["creating"], acc, w)
    elif "deck" in w:
        data = load_deck(w["deck"])
        rnd = env.rng("C12", w["deck"], env.seed(), w["order"], tuple(w["passes"]))
        if w.get("stripped_notes_master_ref"):
            data, rnd = strip_notes_master_ref(data), env.rng("C12", w["deck"], env.seed(), "stripped")
        one_case(data, w["deck"], rnd, tuple(w["passes"]), w["nsaves"], acc, w)
    else:
        run_unit({"kind": "generated", "lo": w["generated"], "hi": w["generated"] + 1}, "quick", w.get("seed", 0), acc)
    print([(v["key"], v["what"][:200]) for v in acc.violations])


def finalize(acc, tier, seed):
    if not acc.counters.get("parts_compared"):
        acc.inconclusive.append("no part graph was compared")
    if len(acc.reach) < 60:
        acc.inconclusive.append("only %d distinct accessors were exercised" % len(acc.reach))
