"""C19 — part-name arithmetic is exact.

Bounded-exhaustive: every part name over a segment alphabet to a directory depth, all
ordered pairs (P, Q); every accessor against a reference written from OPC part-name rules /
RFC 3986 5.2 (second reference for resolution: urllib.parse.urljoin)."""
from __future__ import annotations

import itertools
import re
from urllib.parse import urljoin

ID = "C19"
LEVEL = "exploration"
EXHAUSTIVE = True
RULE = (
    "all part names = (dirs over {ppt,slides,slidesX,a.b,_rels,UP})^d x leaf over {slide1.xml,slide21.xml,"
    "a.b.c,noext,IMAGE7.PNG,[x].xml,slide.xml}, d<=2 (quick) / d<=3 (thorough), plus '/'; all ordered pairs "
    "(P,Q) for the round trip; dotted/root-absolute references generated from the same alphabet. A pair is "
    "non-trivial when P and Q are in different directories (the reference then contains '..' or a "
    "sub-directory); distinct pairs are disjointly enumerated and counted."
)
ASSUMPTIONS = [
    "reference model (vlib-free, in this file) transcribes OPC part-name grammar and RFC 3986 5.2.4",
    "urllib.parse.urljoin as second resolver",
    "idx only constrained for leaf names of the form letters+digits(.ext)",
]

DIRS = ["ppt", "slides", "slidesX", "a.b", "_rels", "UP"]
LEAVES = ["slide1.xml", "slide21.xml", "a.b.c", "noext", "IMAGE7.PNG", "[x].xml", "slide.xml", ".rels"]


# further leaf names for the accessor table only (index 0, zero-padded and multi-digit indices, index without extension)
IDX_LEAVES = ["image0.png", "slide01.xml", "chart007.xml", "slide10.xml", "slide100.xml", "noext5", "media00.mp4"]


def names(depth, leaves=None):
    out = []
    for d in range(depth + 1):
        for combo in itertools.product(DIRS, repeat=d):
            for leaf in leaves or LEAVES:
                out.append("/" + "/".join(combo + (leaf,)))
    return out


# ---------------------------------------------------------------- reference model
def ref_base(p):
    if p == "/":
        return "/"
    head = p.rsplit("/", 1)[0]
    return head or "/"


def ref_filename(p):
    return p.rsplit("/", 1)[1]


def ref_ext(p):
    fn = ref_filename(p)
    i = fn.rfind(".")
    return fn[i + 1:] if i >= 0 else ""  # (also for a leaf that starts with the period: '/_rels/.rels' is declared by Default Extension="rels")


def ref_idx(p):
    fn = ref_filename(p)
    stem = fn[: fn.rfind(".")] if fn.rfind(".") > 0 else fn
    m = re.fullmatch(r"([A-Za-z]+)([0-9]+)?", stem)
    if not m:
        return "unconstrained"
    return int(m.group(2)) if m.group(2) else None


def ref_rels(p):
    b = ref_base(p)
    return (b if b != "/" else "") + "/_rels/" + ref_filename(p) + ".rels"


def remove_dot_segments(path):
    out = []
    for seg in path.split("/")[1:]:
        if seg == ".":
            continue
        if seg == "..":
            if out:
                out.pop()
            continue
        out.append(seg)
    return "/" + "/".join(out)


def ref_resolve(base_dir, ref):
    """RFC 3986 5.2 for path-only references against the directory base_dir."""
    if ref.startswith("/"):
        return remove_dot_segments(ref)
    merged = (base_dir if base_dir.endswith("/") else base_dir + "/") + ref
    r = remove_dot_segments(merged)
    return r


def urljoin_resolve(base_dir, ref):
    b = "http://h" + (base_dir if base_dir.endswith("/") else base_dir + "/")
    r = urljoin(b, ref)[len("http://h"):]
    return r


# ---------------------------------------------------------------- work
def plan(tier, seed):
    depth = 2 if tier == "quick" else 3
    n = 16
    return [{"kind": "pairs", "depth": depth, "shard": i, "of": n} for i in range(n)] + [
        {"kind": "accessors", "depth": depth},
        {"kind": "refs", "depth": 1 if tier == "quick" else 2},
        {"kind": "reject"},
        {"kind": "suite"},
    ] + [{"kind": "online", "n": 25 if tier == "quick" else 300, "shard": i} for i in range(4 if tier == "quick" else 16)]


def check_pair(PackURI, P, Q, acc, stats):
    base = PackURI(P).baseURI
    try:
        rel = PackURI(Q).relative_ref(base)
        back = PackURI.from_rel_ref(base, rel)
    except Exception as e:  # noqa
        acc.violation("roundtrip-raises", "relative_ref/from_rel_ref raised %r for P=%s Q=%s" % (e, P, Q), {"P": P, "Q": Q})
        return
    if str(back) != Q:
        acc.violation(
            "roundtrip-mismatch",
            "from_rel_ref(%r, relative_ref)=%r != Q=%r (rel=%r)" % (base, str(back), Q, rel),
            {"P": P, "Q": Q},
        )
    # independent resolution of the reference python-pptx produced
    mine = ref_resolve(ref_base(P), rel)
    if mine != Q:
        acc.violation(
            "relative-ref-wrong",
            "reference %r from %r resolves (RFC 3986) to %r, not %r" % (rel, ref_base(P), mine, Q),
            {"P": P, "Q": Q},
        )
    if rel.startswith("/") or rel == "":
        acc.violation("relative-ref-not-relative", "relative_ref gave %r for P=%s Q=%s" % (rel, P, Q), {"P": P, "Q": Q})
    stats["with_up"] += rel.startswith("..")
    stats["with_sub"] += ("/" in rel and not rel.startswith(".."))


def run_unit(unit, tier, seed, acc):
    from pptx.opc.packuri import PackURI

    if unit.get("kind") == "suite":  # the repository's own tests as one more workload for this property's monitor
        from vlib import suite

        return suite.run_suite_unit(ID, acc)
    kind = unit["kind"]
    if kind == "online":
        from vlib import histories

        return histories.run_online_unit("C19", unit, tier, seed, acc)
    acc.hit("PackURI.__new__")
    if kind == "pairs":
        ns = names(unit["depth"]) + ["/"]
        stats = {"with_up": 0, "with_sub": 0}
        k = 0
        for i, P in enumerate(ns):
            if i % unit["of"] != unit["shard"]:
                continue
            for Q in ns:
                if Q == "/":
                    continue  # '/' is a source only (package pseudo-part), never a target
                check_pair(PackURI, P, Q, acc, stats)
                nontriv = ref_base(P) != ref_base(Q)
                acc.evaluations += 1
                if nontriv:
                    acc.nontrivial_count += 1
                k += 1
                if k % 20011 == 1 and len(acc.samples) < 4:
                    acc.samples.append({"P": P, "Q": Q, "relative_ref": PackURI(Q).relative_ref(PackURI(P).baseURI)})
        acc.hit("PackURI.relative_ref", k)
        acc.hit("PackURI.from_rel_ref", k)
        acc.count("pairs", k)
        acc.count("refs_starting_with_dotdot", stats["with_up"])
        acc.count("refs_into_subdirectory", stats["with_sub"])
        acc.classes["pair"] = acc.classes.get("pair", 0) + k
    elif kind == "accessors":
        ns = names(unit["depth"], LEAVES + IDX_LEAVES) + ["/"]
        # a leaf whose text is also (part of) one of its folder names: only the LAST segment is the leaf
        ns += ["/ppt/ppt", "/slides/slide", "/ppt/layout/layout", "/a/a", "/slide1.xml/slide1.xml", "/x.xml/y/x.xml", "/noext/noext", "/UP/UP.xml", "/_rels/_rels", "/a.b/a.b/a.b"]
        for P in ns:
            u = PackURI(P)
            exp = {
                "baseURI": ref_base(P),
                "filename": "" if P == "/" else ref_filename(P),
                "ext": "" if P == "/" else ref_ext(P),
                "membername": P[1:],
                "rels_uri": "/_rels/.rels" if P == "/" else ref_rels(P),
                "idx": None if P == "/" else ref_idx(P),
            }
            for name, want in exp.items():
                try:
                    got = getattr(u, name)
                except Exception as e:  # noqa
                    acc.violation("accessor-raises:" + name, "%s of %r raised %r" % (name, P, e), {"P": P})
                    continue
                if want == "unconstrained":
                    acc.count("idx_unconstrained")
                    continue
                g = got if got is None or isinstance(got, int) and not isinstance(got, bool) else str(got)
                if g != want:
                    acc.violation("accessor-wrong:" + name, "%s of %r is %r, OPC says %r" % (name, P, g, want), {"P": P})
                acc.hit("PackURI." + name)
            if not isinstance(u.rels_uri, PackURI):
                acc.violation("accessor-wrong:rels_uri-type", "rels_uri of %r is not a PackURI" % P, {"P": P})
            acc.case(desc={"accessors": P}, nontrivial=P.count("/") > 1, cls="accessors")
    elif kind == "refs":
        # references with '.', '..', root-absolute forms, resolved against every directory
        ns = names(unit["depth"])
        bases = sorted({ref_base(n) for n in ns})
        refs = set()
        for n in ns:
            rel = n[1:]
            segs = rel.split("/")
            refs.add(n)  # root-absolute
            refs.add("./" + rel)
            refs.add("../" + rel)
            refs.add("../../" + rel)
            refs.add(rel)
            if len(segs) > 1:
                refs.add(segs[0] + "/../" + rel)
                refs.add(segs[0] + "/./" + "/".join(segs[1:]))
                refs.add("/" + segs[0] + "/../" + rel)
        refs = sorted(refs)
        n = 0
        for b in bases:
            for r in refs:
                want = ref_resolve(b, r)
                want2 = urljoin_resolve(b, r)
                if want != want2:
                    acc.count("reference_models_disagree")  # never blamed on python-pptx
                    continue
                try:
                    got = str(PackURI.from_rel_ref(b, r))
                except Exception as e:  # noqa
                    acc.violation("resolve-raises", "from_rel_ref(%r,%r) raised %r" % (b, r, e), {"base": b, "ref": r})
                    continue
                if got != want:
                    acc.violation(
                        "resolve-wrong", "from_rel_ref(%r,%r)=%r, RFC 3986 gives %r" % (b, r, got, want), {"base": b, "ref": r}
                    )
                n += 1
                acc.case(
                    desc=None,
                    key=None,
                    nontrivial=(".." in r or r.startswith("/") or "./" in r),
                    cls="dotted-ref",
                    sample={"base": b, "ref": r, "resolved": got} if n % 5003 == 1 else None,
                )
        acc.hit("PackURI.from_rel_ref", n)
    elif kind == "reject":
        bad = ["ppt/slides/slide1.xml", "slide1.xml", "./a", "../a", "a", " /a", "\\a", "ppt/", "[Content_Types].xml", "x/"]
        for s in bad:
            try:
                PackURI(s)
            except ValueError:
                acc.count("rejected_with_ValueError")
            except Exception as e:  # noqa
                acc.violation("reject-wrong-exception", "PackURI(%r) raised %r, not ValueError" % (s, e), {"name": s})
            else:
                acc.violation("not-rejected", "PackURI(%r) was accepted" % s, {"name": s})
            acc.case(desc={"reject": s}, nontrivial=True, cls="reject")
        # the empty string: rejected too (IndexError on the unchanged tree; any exception = rejected)
        try:
            PackURI("")
        except Exception as e:  # noqa
            acc.count("empty_rejected_with_" + type(e).__name__)
        else:
            acc.violation("not-rejected", "PackURI('') was accepted", {"name": ""})
        acc.case(desc={"reject": ""}, nontrivial=True, cls="reject")


def replay(w, acc):
    from pptx.opc.packuri import PackURI

    if "suite_test" in w:
        from vlib import suite

        return suite.replay_suite(w, acc, ID)

    if "Q" in w:
        check_pair(PackURI, w["P"], w["Q"], acc, {"with_up": 0, "with_sub": 0})
    elif "ref" in w:
        got = str(PackURI.from_rel_ref(w["base"], w["ref"]))
        want = ref_resolve(w["base"], w["ref"])
        print("from_rel_ref ->", got, "expected", want)
        if got != want:
            acc.violation("resolve-wrong", "%r != %r" % (got, want), w)
    else:
        run_unit({"kind": "accessors", "depth": 2}, "quick", 0, acc)


def finalize(acc, tier, seed):
    for need in ("PackURI.relative_ref", "PackURI.from_rel_ref", "PackURI.rels_uri", "PackURI.idx"):
        if not acc.reach.get(need):
            acc.inconclusive.append("monitor never reached: " + need)
