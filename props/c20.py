"""C20 — enumerations and the preset-shape table agree with the standard.

Exhaustive: every member of every XML-mapped enumeration (token distinct, round trip, token in the
schema enumeration of the attribute type the enumeration is declared on — found through the real
attribute declarations), every auto-shape type against presetShapeDefinitions.xml and added to a
real slide, saved, re-opened and read back; every chart type the writer accepts added and read back.
"""
from __future__ import annotations

import os

import io

ID = "C20"
LEVEL = "exploration"
EXHAUSTIVE = True
RULE = (
    "every member (and alias) of every BaseXmlEnum subclass; every MSO_AUTO_SHAPE_TYPE member against the standard's "
    "presetShapeDefinitions.xml and through add_shape -> save -> re-open -> auto_shape_type/adjustments; every XL_CHART_TYPE "
    "member through add_chart -> save -> re-open -> chart_type (members the writer documents as not implemented are counted). "
    "A case = one (enumeration, member) or one (shape type) or one (chart type); all are non-trivial (each compares against "
    "an independent source); distinct by construction."
)
ASSUMPTIONS = [
    "schema enumerations come from the shipped ISO 29500-4 XSDs; presetShapeDefinitions.xml from /repo/spec",
    "the attribute type an enumeration belongs to is found through the real attribute declarations (C11 index); MSO_CONNECTOR_TYPE, used without a declaration, is mapped to a:ST_ShapeType by hand",
]

FALLBACK_TYPE = {"MSO_CONNECTOR_TYPE": "a:ST_ShapeType"}


def plan(tier, seed):
    return [{"kind": "enums"}, {"kind": "presets"}] + [{"kind": "shapes", "shard": i, "of": 6} for i in range(6)] + [
        {"kind": "charts", "shard": i, "of": 6} for i in range(6)
    ]


def all_xml_enums():
    from pptx.enum.base import BaseXmlEnum

    import pptx.enum.action, pptx.enum.chart, pptx.enum.dml, pptx.enum.lang, pptx.enum.shapes, pptx.enum.text  # noqa

    out = []

    def subs(c):
        for s in c.__subclasses__():
            if s not in out:
                out.append(s)
            subs(s)

    subs(BaseXmlEnum)
    return sorted(out, key=lambda c: c.__name__)


def enum_types():
    """{enum class name: set of XSD simple types of the attributes declared with it}"""
    from vlib import introspect, xsdkit

    from . import c11

    regs = introspect.registrations()
    out = {}
    for T, cls in regs.items():
        for d in introspect.attr_decls(cls):
            st = d["simple_type"]
            if hasattr(st, "__members__"):
                for t in c11.candidate_types(T, d):
                    out.setdefault(st.__name__, set()).add(t)
    return out


def run_enums(acc):
    from vlib import xsdkit

    m = xsdkit.model()
    etypes = enum_types()
    per_enum = {}
    for E in all_xml_enums():
        name = E.__name__
        types = set(etypes.get(name, ()))
        if not types and name in FALLBACK_TYPE:
            types = {xsdkit.clark(FALLBACK_TYPE[name])}
            acc.count("enums_typed_by_fallback_table")
        if not types:
            acc.count("enums_without_declared_attribute")
            acc.note("%s is not the type of any declared attribute: tokens not compared with a schema type" % name)
        by_token = {}
        n = 0
        for alias, mbr in E.__members__.items():
            acc.hit("enum-member")
            tok = mbr.xml_value
            acc.case(desc={"enum": name, "member": alias, "token": tok}, nontrivial=bool(tok), cls="member" if alias == mbr.name else "alias")
            if not tok:
                # return-value-only member: to_xml must refuse it
                try:
                    E.to_xml(mbr)
                except ValueError:
                    acc.count("valueless_members_refused")
                except Exception as e:  # noqa
                    acc.violation("no-token-wrong-exception:%s" % name, "%s.%s.to_xml raised %r" % (name, alias, e), {"enum": name, "member": alias})
                else:
                    acc.violation("no-token-accepted:%s" % name, "%s.%s has no XML value but to_xml returned one" % (name, alias), {"enum": name, "member": alias})
                continue
            n += 1
            other = by_token.setdefault(tok, mbr)
            if other is not mbr:
                acc.violation(
                    "duplicate-token:%s:%s:%s" % (name, tok, mbr.name),
                    "%s members %s and %s share XML token %r" % (name, other.name, mbr.name, tok),
                    {"enum": name, "members": [other.name, mbr.name]},
                )
            try:
                back = E.from_xml(E.to_xml(mbr))
            except Exception as e:  # noqa
                acc.violation("roundtrip-raises:%s" % name, "%s.%s: %r" % (name, alias, e), {"enum": name, "member": alias})
                continue
            if back is not mbr and type(back) is E and back.xml_value == tok:
                acc.count("roundtrip_differs_as_consequence_of_duplicate_token")  # reported once, under duplicate-token
            elif back is not mbr:
                acc.violation(
                    "roundtrip:%s:%s" % (name, tok), "%s: from_xml(to_xml(%s)) is %s.%s" % (name, mbr.name, type(back).__name__, getattr(back, "name", back)), {"enum": name, "member": alias}
                )
            if E.to_xml(mbr) != tok:
                acc.violation("to_xml:%s:%s" % (name, tok), "%s.to_xml(%s) != its xml_value" % (name, mbr.name), {"enum": name, "member": alias})
            if types:
                ok = False
                msg = ""
                for t in types:
                    good, msg = xsdkit.type_valid(t, tok)
                    if good:
                        ok = True
                acc.count("tokens_validated_against_schema")
                if not ok:
                    acc.violation(
                        "token-not-in-schema:%s:%s" % (name, tok),
                        "%s.%s token %r is not in %s: %s" % (name, mbr.name, tok, sorted(xsdkit.pfx_tag(t) for t in types), msg),
                        {"enum": name, "member": alias, "token": tok},
                    )
        per_enum[name] = n
    acc.extra["member_token_pairs_per_enum"] = per_enum
    run_aliases(acc)
    run_documented_names(acc)


def run_documented_names(acc):
    """Every member name the published reference page of an enumeration lists (docs/api/enum/<Name>.rst: a line of capitals
    followed by an indented description) is a member of that enumeration - `MSO_PATTERN.PERCENT_40` must exist if the page says so."""
    import glob
    import importlib
    import re

    from vlib import env

    mods = [importlib.import_module("pptx.enum." + m) for m in ("action", "chart", "dml", "lang", "shapes", "text")]
    pages = sorted(glob.glob(os.path.join(env.REPO, "docs", "api", "enum", "*.rst")))
    for page in pages:
        text = open(page, encoding="utf-8").read()
        m = re.search(r"^``([A-Z_]+)``\n=+", text, re.M)
        if not m:
            continue
        E = next((getattr(mod, m.group(1)) for mod in mods if hasattr(mod, m.group(1))), None)
        if E is None or not hasattr(E, "__members__"):
            acc.count("enum_pages_without_a_class")
            continue
        names = re.findall(r"^([A-Z][A-Z0-9_]+)\n {4}\S", text.split("----", 1)[-1], re.M)
        acc.count("documented_member_names_checked", len(names))
        acc.hit("enum-doc-page")
        acc.case(desc={"page": os.path.basename(page), "names": len(names)}, nontrivial=bool(names), cls="doc-page")
        for n in names:
            if n not in E.__members__:
                acc.violation("documented-member-missing:%s:%s" % (E.__name__, n), "%s lists %s, which %s does not have" % (os.path.basename(page), n, E.__name__), {"enum": E.__name__, "member": n})


def run_aliases(acc):
    """'...the enumerations and their aliases': a module-level name of pptx.enum.* bound to an enumeration under another name
    (MSO_SHAPE, PP_ALIGN, XL_LABEL_POSITION...) must be the name its OWN documentation gives it - the class docstring's
    'Alias: ``X``' line or the import line of its example - and every name a docstring gives that way must be bound to that class."""
    import enum
    import re

    import pptx.enum.action, pptx.enum.chart, pptx.enum.dml, pptx.enum.lang, pptx.enum.shapes, pptx.enum.text  # noqa

    for mod in (pptx.enum.action, pptx.enum.chart, pptx.enum.dml, pptx.enum.lang, pptx.enum.shapes, pptx.enum.text):
        classes = {n: c for n, c in vars(mod).items() if isinstance(c, type) and issubclass(c, enum.Enum) and c.__module__ == mod.__name__}
        documented = {}
        for n, c in classes.items():
            if n != c.__name__:
                continue
            doc = c.__doc__ or ""
            names = set(re.findall(r"Alias:\s*`+([A-Z_]+)`+", doc))
            for imp in re.findall(r"from %s import ([A-Z_, ]+)" % re.escape(mod.__name__), doc):
                names.update(x.strip() for x in imp.split(","))
            for a in names - {n}:
                if a in classes and classes[a].__name__ == a:
                    continue  # the example imports another enumeration as well
                documented.setdefault(a, []).append(c)
        for a, c in classes.items():
            if a == c.__name__:
                continue
            acc.count("enum_aliases_judged")
            acc.case(desc={"alias": a, "class": c.__name__}, nontrivial=True, cls="module-alias")
            owners = documented.get(a, [])
            if owners and c not in owners:
                acc.violation("alias-bound-to-another-enumeration:%s" % a, "%s.%s is %s, but it is %s whose documentation names it" % (mod.__name__, a, c.__name__, owners[0].__name__), {"alias": a})
            elif not owners:
                acc.count("enum_aliases_not_named_in_any_docstring")
                acc.note("%s.%s = %s is not named in any class docstring" % (mod.__name__, a, c.__name__))
        for a, owners in documented.items():
            if a not in vars(mod):
                acc.violation("documented-alias-missing:%s" % a, "%s documents the name %s, which %s does not define" % (owners[0].__name__, a, mod.__name__), {"alias": a})


def preset_defs():
    import os

    from lxml import etree
    from vlib import env, xsdkit

    path = os.path.join(env.SPEC, "ISO-IEC-29500-1", "schemas", "dml-geometries", "OfficeOpenXML-DrawingMLGeometries", "presetShapeDefinitions.xml")
    root = etree.parse(path, xsdkit.PLAIN).getroot()
    A = xsdkit.NS["a"]
    out = {}
    for sh in root:
        if not isinstance(sh.tag, str):
            continue
        av = sh.find("{%s}avLst" % A)
        gds = []
        if av is not None:
            for gd in av.findall("{%s}gd" % A):
                gds.append((gd.get("name"), gd.get("fmla")))
        if sh.tag in out and out[sh.tag] != gds:
            out[sh.tag + "#conflicting-duplicate"] = gds
        elif sh.tag in out:
            DUP_DEFS.append(sh.tag)
        out[sh.tag] = gds
    return out


DUP_DEFS = []


def run_presets(acc):
    from pptx.enum.shapes import MSO_AUTO_SHAPE_TYPE
    from pptx.spec import autoshape_types

    defs = preset_defs()
    acc.extra["preset_definitions_in_standard"] = len(defs)
    acc.extra["names_defined_twice_in_standard"] = sorted(set(DUP_DEFS))
    n = 0
    for mbr in MSO_AUTO_SHAPE_TYPE:
        prst = mbr.xml_value
        acc.hit("autoshape_types-entry")
        acc.case(desc={"shape": mbr.name, "prst": prst}, nontrivial=True, cls="preset-table")
        if not prst:
            acc.count("shape_members_without_xml_value")
            continue
        if prst not in defs:
            acc.violation("prst-not-in-standard:%s" % prst, "%s -> prst %r has no definition in presetShapeDefinitions.xml" % (mbr.name, prst), {"member": mbr.name})
            continue
        spec = autoshape_types.get(mbr)
        if spec is None:
            acc.violation("no-spec-entry:%s" % prst, "%s has no entry in pptx.spec.autoshape_types" % mbr.name, {"member": mbr.name})
            continue
        want = []
        bad_fmla = False
        for name, fmla in defs[prst]:
            parts = (fmla or "").split()
            if len(parts) == 2 and parts[0] == "val":
                want.append((name, int(parts[1])))
            else:
                bad_fmla = True
        if bad_fmla:
            acc.count("definitions_with_non_val_formula_skipped")
            continue
        got = [(a, int(b)) for a, b in spec["avLst"]]
        n += 1
        if got != want:
            acc.violation(
                "adjustments-differ:%s" % prst,
                "%s: spec.py avLst %s, standard %s" % (mbr.name, got, want),
                {"member": mbr.name},
            )
    acc.count("adjustment_tables_compared", n)


def run_shapes(unit, acc):
    import pptx
    from pptx.enum.shapes import MSO_AUTO_SHAPE_TYPE
    from pptx.util import Emu

    defs = preset_defs()
    members = [m for m in MSO_AUTO_SHAPE_TYPE if m.xml_value]
    mine = [m for i, m in enumerate(members) if i % unit["of"] == unit["shard"]]
    prs = pptx.Presentation()
    slide = prs.slides.add_slide(prs.slide_layouts[6])
    added = []
    for mbr in mine:
        acc.case(desc={"add_shape": mbr.name}, nontrivial=True, cls="add-shape")
        try:
            sp = slide.shapes.add_shape(mbr, Emu(100), Emu(200), Emu(300000), Emu(400000))
        except Exception as e:  # noqa
            acc.violation("add-shape-raises:%s" % mbr.xml_value, "add_shape(%s) raised %r" % (mbr.name, e), {"member": mbr.name})
            continue
        acc.hit("add_shape")
        added.append((mbr, sp.shape_id))
        # default values as the API reports them on a new shape - also on a SECOND shape of the type added after the first one's
        # adjustments were changed (defaults must not be shared between shapes)
        want = defs.get(mbr.xml_value)
        vals = [int(f.split()[1]) / 100000.0 for _, f in want] if want and all(len((f or "").split()) == 2 and f.split()[0] == "val" for _, f in want) else None
        if vals:
            try:
                got = [a for a in sp.adjustments]
                if len(got) == len(vals) and any(abs(g - w) > 1e-9 for g, w in zip(got, vals)):
                    acc.violation("adjustment-default:%s" % mbr.xml_value, "%s: new shape reports adjustments %s, standard defaults %s" % (mbr.name, got, vals), {"member": mbr.name})
                for i in range(len(got)):
                    sp.adjustments[i] = 0.0625 + i / 16.0
                sp2 = slide.shapes.add_shape(mbr, Emu(100), Emu(200), Emu(300000), Emu(400000))
                got2 = [a for a in sp2.adjustments]
                acc.count("second_shapes_of_a_type_read_after_the_first_was_adjusted")
                if len(got2) == len(vals) and any(abs(g - w) > 1e-9 for g, w in zip(got2, vals)):
                    acc.violation("adjustment-default-shared:%s" % mbr.xml_value, "%s: a second shape, added after the first one's adjustments were set to %s, reports %s; standard defaults %s" % (mbr.name, [a for a in sp.adjustments], got2, vals), {"member": mbr.name})
                sp2._element.getparent().remove(sp2._element)
                for i, w in enumerate(vals):  # back to the defaults: the read-back part below compares counts only
                    sp.adjustments[i] = w
            except Exception as e:  # noqa
                acc.violation("adjustments-raise:%s" % mbr.xml_value, "%s: reading/setting adjustments raised %r" % (mbr.name, e), {"member": mbr.name})
    buf = io.BytesIO()
    prs.save(buf)
    prs2 = pptx.Presentation(io.BytesIO(buf.getvalue()))
    by_id = {s.shape_id: s for s in prs2.slides[0].shapes}
    for mbr, sid in added:
        sp = by_id.get(sid)
        if sp is None:
            acc.violation("shape-lost:%s" % mbr.xml_value, "%s not found after re-open" % mbr.name, {"member": mbr.name})
            continue
        try:
            got = sp.auto_shape_type
        except Exception as e:  # noqa
            acc.violation("auto_shape_type-raises:%s" % mbr.xml_value, "%s: %r" % (mbr.name, e), {"member": mbr.name})
            continue
        acc.hit("auto_shape_type")
        if got is not mbr and getattr(got, "xml_value", None) == mbr.xml_value:
            # same mechanism as the enumeration-level duplicate: report under the same key
            acc.violation(
                "duplicate-token:MSO_AUTO_SHAPE_TYPE:%s:%s" % (mbr.xml_value, mbr.name),
                "added %s, re-opened shape reads back as %s (both map to prst %r)" % (mbr.name, got.name, mbr.xml_value),
                {"member": mbr.name},
            )
        elif got is not mbr:
            acc.violation("auto_shape_type-differs:%s" % mbr.xml_value, "added %s, read back %s" % (mbr.name, got), {"member": mbr.name})
        want = defs.get(mbr.xml_value)
        if want is not None and len(sp.adjustments) != len(want):
            acc.violation(
                "adjustment-count:%s" % mbr.xml_value,
                "%s has %d adjustments, standard defines %d" % (mbr.name, len(sp.adjustments), len(want)),
                {"member": mbr.name},
            )
        acc.count("shapes_read_back")


def chart_data_for(ct):
    from pptx.chart.data import BubbleChartData, CategoryChartData, XyChartData

    n = ct.name
    if n.startswith("BUBBLE"):
        cd = BubbleChartData()
        for s in ("S1", "S2"):
            ser = cd.add_series(s)
            ser.add_data_point(1, 2, 3)
            ser.add_data_point(2, 3, 4)
        return cd
    if n.startswith("XY_"):
        cd = XyChartData()
        for s in ("S1", "S2"):
            ser = cd.add_series(s)
            ser.add_data_point(1, 2)
            ser.add_data_point(2, 3)
        return cd
    cd = CategoryChartData()
    cd.categories = ["a", "b", "c"]
    cd.add_series("S1", (1, 2, 3))
    cd.add_series("S2", (4, 5, 6))
    return cd


def run_charts(unit, acc):
    import pptx
    from pptx.enum.chart import XL_CHART_TYPE
    from pptx.util import Emu

    members = list(XL_CHART_TYPE)
    mine = [m for i, m in enumerate(members) if i % unit["of"] == unit["shard"]]
    prs = pptx.Presentation()
    slide = prs.slides.add_slide(prs.slide_layouts[6])
    added = []
    for ct in mine:
        acc.case(desc={"add_chart": ct.name}, nontrivial=True, cls="add-chart")
        try:
            gf = slide.shapes.add_chart(ct, Emu(0), Emu(0), Emu(3000000), Emu(2000000), chart_data_for(ct))
        except NotImplementedError:
            acc.count("chart_types_documented_not_implemented")
            continue
        except Exception as e:  # noqa
            acc.violation("add-chart-raises:%s" % ct.name, "add_chart(%s) raised %r" % (ct.name, e), {"chart_type": ct.name})
            continue
        acc.hit("add_chart")
        added.append((ct, gf.shape_id))
    buf = io.BytesIO()
    prs.save(buf)
    prs2 = pptx.Presentation(io.BytesIO(buf.getvalue()))
    by_id = {s.shape_id: s for s in prs2.slides[0].shapes}
    for ct, sid in added:
        gf = by_id.get(sid)
        try:
            got = gf.chart.chart_type
        except Exception as e:  # noqa
            acc.violation("chart_type-raises:%s" % ct.name, "%s: %r" % (ct.name, e), {"chart_type": ct.name})
            continue
        acc.hit("chart_type")
        acc.count("charts_read_back")
        if got is not ct:
            acc.violation("chart_type-differs:%s" % ct.name, "added %s, read back %s" % (ct.name, got), {"chart_type": ct.name})


def run_unit(unit, tier, seed, acc):
    k = unit["kind"]
    if k == "enums":
        run_enums(acc)
    elif k == "presets":
        run_presets(acc)
    elif k == "shapes":
        run_shapes(unit, acc)
    elif k == "charts":
        run_charts(unit, acc)


def replay(w, acc):
    run_unit({"kind": "enums"}, "quick", 0, acc)
    run_unit({"kind": "presets"}, "quick", 0, acc)


def finalize(acc, tier, seed):
    for need in ("enum-member", "autoshape_types-entry", "add_shape", "auto_shape_type", "add_chart", "chart_type"):
        if not acc.reach.get(need):
            acc.inconclusive.append("never reached: " + need)
