# usage: proc_seed.sh C06 x e
p=$1; k=$2; id=$1-$3
cd /verif
python3 tools/seedverify.py /tmp/seed/$p-out/$k $id --property $p --worktree /tmp/seed/$p > /tmp/seed/verify-$id.log 2>&1
grep -q '"confirmed": true' /tmp/seed/verify-$id.log && echo "$id confirmed" || { echo "$id NOT CONFIRMED"; tail -5 /tmp/seed/verify-$id.log; }
