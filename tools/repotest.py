#!/usr/bin/env python3
"""Run the repository's pinned suite (guard off) and compare with /root/.vp/BASELINE.json;
optionally the extended upstream run (-W ignore::DeprecationWarning). Used after every fix: commit."""
import json, os, subprocess, sys, tempfile, xml.etree.ElementTree as ET
base = json.load(open("/root/.vp/BASELINE.json"))
stable = set(base["stable_pass"])
with tempfile.TemporaryDirectory() as d:
    jx = os.path.join(d, "j.xml")
    env = {k: v for k, v in os.environ.items() if k != "PPTX_VERIF_MONITORS"}
    subprocess.run(["/venv/bin/python", "-m", "pytest", "-q", "-p", "no:cacheprovider", "--timeout=900", "--continue-on-collection-errors", "--junitxml=" + jx], cwd="/repo", env=env, capture_output=True, text=True)
    passed = set()
    for tc in ET.parse(jx).getroot().iter("testcase"):
        if not any(ch.tag in ("failure", "error", "skipped") for ch in tc):
            passed.add("%s::%s" % (tc.get("classname"), tc.get("name")))
    missing = sorted(stable - passed)
    print("pinned: %d passed, %d of %d baseline tests missing" % (len(passed), len(missing), len(stable)))
    for m in missing[:20]:
        print("  MISSING", m)
    rc = 1 if missing else 0
    if "--extended" in sys.argv:
        p = subprocess.run(["/venv/bin/python", "-m", "pytest", "-q", "-p", "no:cacheprovider", "-W", "ignore::DeprecationWarning", "-x"], cwd="/repo", env=env, capture_output=True, text=True)
        print("extended:", p.stdout.strip().splitlines()[-1] if p.stdout.strip() else p.stderr[-300:])
        if p.returncode != 0:
            print(p.stdout[-3000:])
            rc = 1
sys.exit(rc)
