#!/venv/bin/python
"""Self-test of the monitors: apply one small realistic break to a scratch copy of
/repo/src (outside /repo and /verif), run the named checks on it, expect a VIOLATION.

  tools/mutcheck.py                 # all mutants, quick tier
  tools/mutcheck.py m19a m01c       # selected
  tools/mutcheck.py --patch f.diff --expect C02,C06   # a unified diff against /repo (seeded/*)

Mutants are string replacements (file, old, new) listed in mutants/mutants.py; the scratch
copy is removed straight after each run.  Never touches /repo.
"""
from __future__ import annotations

import argparse
import json
import os
import shutil
import subprocess
import sys
import tempfile
import time

HERE = os.path.dirname(os.path.dirname(os.path.abspath(__file__)))
sys.path.insert(0, HERE)
REPO = "/repo"


def scratch_src():
    d = tempfile.mkdtemp(prefix="pptx-mut-")
    shutil.copytree(os.path.join(REPO, "src"), os.path.join(d, "src"), ignore=shutil.ignore_patterns("__pycache__", "*.egg-info"))
    return d


def run_check(pid, src, tier, seed="0"):
    env = dict(os.environ, VERIF_PPTX_SRC=src, VERIF_SEED=seed, VERIF_EVIDENCE_DIR=os.path.join(src, "..", "evidence"))
    t = time.time()
    p = subprocess.run([os.path.join(HERE, "check"), pid, "--tier", tier], capture_output=True, text=True, env=env, timeout=7200)
    return p.returncode, p.stdout + p.stderr, time.time() - t


def main():
    ap = argparse.ArgumentParser()
    ap.add_argument("ids", nargs="*")
    ap.add_argument("--tier", default="quick")
    ap.add_argument("--patch")
    ap.add_argument("--expect")
    ap.add_argument("--verbose", "-v", action="store_true")
    ap.add_argument("--json")
    a = ap.parse_args()
    jobs = []
    if a.patch:
        jobs.append({"id": os.path.basename(os.path.dirname(os.path.abspath(a.patch))) or a.patch, "patch": os.path.abspath(a.patch), "expect": a.expect.split(",")})
    else:
        from mutants.mutants import MUTANTS

        for m in MUTANTS:
            if not a.ids or m["id"] in a.ids:
                jobs.append(m)
    results = []
    bad = 0
    for m in jobs:
        d = scratch_src()
        try:
            if "patch" in m:
                p = subprocess.run(["patch", "-p1", "-d", d, "-i", m["patch"]], capture_output=True, text=True)
                if p.returncode != 0:
                    print("%s: patch does not apply: %s" % (m["id"], p.stdout + p.stderr))
                    bad += 1
                    continue
            else:
                edits = m.get("edits") or [(m["file"], m["old"], m["new"])]
                ok = True
                for f, old, new in edits:
                    path = os.path.join(d, "src", "pptx", f)
                    s = open(path).read()
                    if s.count(old) != 1:
                        print("%s: anchor occurs %d times in %s" % (m["id"], s.count(old), f))
                        ok = False
                        break
                    open(path, "w").write(s.replace(old, new))
                if not ok:
                    bad += 1
                    continue
            for pid in m["expect"]:
                rc, out, dt = run_check(pid, os.path.join(d, "src"), a.tier)
                caught = rc == 1 and ("VIOLATION property=%s" % pid) in out
                results.append({"mutant": m["id"], "check": pid, "caught": caught, "rc": rc, "s": round(dt, 1)})
                line = [l for l in out.splitlines() if l.strip().startswith("what:")][:2]
                print("%-8s %-4s %s rc=%d %.0fs %s" % (m["id"], pid, "CAUGHT" if caught else "MISSED", rc, dt, (line[0].strip()[:150] if line else "")))
                if a.verbose or not caught:
                    print("\n".join(out.splitlines()[-12:]))
                if not caught:
                    bad += 1
        finally:
            shutil.rmtree(d, ignore_errors=True)
    if a.json:
        json.dump(results, open(a.json, "w"), indent=1)
    sys.exit(1 if bad else 0)


if __name__ == "__main__":
    main()
