#!/bin/sh
# tools/sweep.sh <tier> <seeds...> : run every claimed check for each seed, print one line per run, list non-zero exits at the end.
cd "$(dirname "$0")/.." || exit 2
tier=$1; shift
export VERIF_EVIDENCE_DIR="${VERIF_EVIDENCE_DIR:-$(mktemp -d)}"
bad=""
for c in $(python3 -c "import json;print(' '.join(x['property_id'] for x in json.load(open('MANIFEST.json'))['checks']))"); do
  for s in "$@"; do
    out=$(VERIF_SEED=$s ./check $c --tier $tier 2>&1); rc=$?
    echo "$c seed=$s rc=$rc $(echo "$out" | grep "^C[0-9][0-9] tier" | tail -1)"
    if [ $rc -ne 0 ]; then bad="$bad $c:$s"; echo "$out" | grep -v "^KNOWN" | tail -6; fi
  done
done
echo "NONZERO:$bad"
