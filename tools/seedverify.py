#!/usr/bin/env python3
"""Confirm an independently written breaking change before it is kept under /verif/seeded/:
  1. the patch applies to a scratch worktree of /repo,
  2. the package imports and the pinned suite passes the same tests as BASELINE.json,
  3. the demonstration passes on the unchanged tree and fails with the change,
then copy patch.diff, demo.py, notes.md into /verif/seeded/<id>/ and write meta.json.

  tools/seedverify.py /tmp/seed/C01-out/a C01-a --property C01 [--worktree /tmp/seed/C01]
The worktree is left clean.  Running the /verif checks against the change is tools/mutcheck.py --patch.
"""
import argparse
import json
import os
import shutil
import subprocess
import sys
import tempfile
import xml.etree.ElementTree as ET

HERE = os.path.dirname(os.path.dirname(os.path.abspath(__file__)))


def run(cmd, **kw):
    return subprocess.run(cmd, capture_output=True, text=True, **kw)


def pass_set(worktree):
    with tempfile.TemporaryDirectory() as d:
        jx = os.path.join(d, "j.xml")
        env = dict(os.environ, PYTHONPATH=os.path.join(worktree, "src"))
        env.pop("PPTX_VERIF_MONITORS", None)
        run(["/venv/bin/python", "-m", "pytest", "-q", "-p", "no:cacheprovider", "--timeout=900", "--continue-on-collection-errors", "--junitxml=" + jx], cwd=worktree, env=env)
        ok = set()
        for tc in ET.parse(jx).getroot().iter("testcase"):
            if not any(ch.tag in ("failure", "error", "skipped") for ch in tc):
                ok.add("%s::%s" % (tc.get("classname"), tc.get("name")))
        return ok


def demo(worktree, demo_py):
    env = dict(os.environ, PYTHONPATH=os.path.join(worktree, "src"), CHECKOUT=worktree)
    env.pop("PPTX_VERIF_MONITORS", None)
    p = run(["/venv/bin/python", demo_py], env=env, cwd=tempfile.gettempdir(), timeout=600)
    return p.returncode, (p.stdout + p.stderr).strip().splitlines()[-3:]


def main():
    ap = argparse.ArgumentParser()
    ap.add_argument("src_dir")
    ap.add_argument("seed_id")
    ap.add_argument("--property", required=True)
    ap.add_argument("--worktree")
    a = ap.parse_args()
    patch = os.path.join(a.src_dir, "patch.diff")
    demo_py = os.path.join(a.src_dir, "demo.py")
    wt = a.worktree
    made = False
    if not wt:
        wt = tempfile.mkdtemp(prefix="pptx-seedverify-")
        os.rmdir(wt)
        assert run(["git", "-C", "/repo", "worktree", "add", "--detach", wt, "HEAD"]).returncode == 0
        made = True
    result = {"property": a.property, "seed_id": a.seed_id}
    try:
        run(["git", "-C", wt, "checkout", "--", "."])
        stable = set(json.load(open("/root/.vp/BASELINE.json"))["stable_pass"])
        rc0, out0 = demo(wt, demo_py)
        result["demo_on_unchanged_tree"] = {"rc": rc0, "tail": out0}
        ap_ = run(["git", "-C", wt, "apply", patch])
        result["patch_applies"] = ap_.returncode == 0
        if ap_.returncode != 0:
            print("patch does not apply:", ap_.stderr[:400])
            return 1
        imp = run(["/venv/bin/python", "-c", "import pptx; print(pptx.__file__)"], env=dict(os.environ, PYTHONPATH=os.path.join(wt, "src")))
        result["imports"] = imp.returncode == 0 and wt in imp.stdout
        passed = pass_set(wt)
        missing = sorted(stable - passed)
        result["pinned_suite"] = {"passed": len(passed), "baseline_missing": missing[:10]}
        rc1, out1 = demo(wt, demo_py)
        result["demo_with_change"] = {"rc": rc1, "tail": out1}
        ok = result["imports"] and not missing and rc0 == 0 and rc1 != 0
        result["confirmed"] = ok
        print(json.dumps(result, indent=1))
        if ok:
            dst = os.path.join(HERE, "seeded", a.seed_id)
            os.makedirs(dst, exist_ok=True)
            for fn in ("patch.diff", "demo.py", "notes.md"):
                if os.path.exists(os.path.join(a.src_dir, fn)):
                    shutil.copy(os.path.join(a.src_dir, fn), os.path.join(dst, fn))
            meta_path = os.path.join(dst, "meta.json")
            meta = json.load(open(meta_path)) if os.path.exists(meta_path) else {}
            meta.update(
                {
                    "property": a.property,
                    "written_by": "independent sub-agent given only the property text and a scratch worktree",
                    "base_commit": run(["git", "-C", "/repo", "rev-parse", "HEAD"]).stdout.strip(),
                    "confirmed": result,
                    "what_i_ran": [
                        "git apply patch.diff in a scratch worktree of /repo",
                        "pinned pytest command with PYTHONPATH=<worktree>/src: all %d baseline tests still pass" % len(stable),
                        "demo.py on the unchanged tree (rc 0) and with the change (rc %d)" % rc1,
                    ],
                }
            )
            json.dump(meta, open(meta_path, "w"), indent=1)
        return 0 if ok else 1
    finally:
        run(["git", "-C", wt, "checkout", "--", "."])
        if made:
            run(["git", "-C", "/repo", "worktree", "remove", "--force", wt])


if __name__ == "__main__":
    sys.exit(main())
