"""Which functions of src/pptx does NO quick check execute?  Runs every check's quick tier with whole-library M-REACH
(VERIF_REACH_ALL) into a scratch evidence directory and lists the functions never entered, per file.
A map of what the monitors cannot have observed - never a verdict.  usage: /venv/bin/python tools/reachmap.py [Cnn ...]"""
import os, subprocess, sys, tempfile, shutil, json
from concurrent.futures import ThreadPoolExecutor

HERE = os.path.dirname(os.path.dirname(os.path.abspath(__file__)))
sys.path.insert(0, HERE)
from vlib import env  # noqa


def universe():
    out = set()
    for d, _, files in os.walk(env.SRC):
        for f in files:
            if not f.endswith(".py"):
                continue
            path = os.path.join(d, f)
            code = compile(open(path, encoding="utf-8").read(), path, "exec")
            stack = [code]
            while stack:
                c = stack.pop()
                for k in c.co_consts:
                    if hasattr(k, "co_code"):
                        stack.append(k)
                        is_class_body = "__qualname__" in k.co_names and "__module__" in k.co_names
                        if not k.co_name.startswith("<") and not is_class_body:
                            out.add((os.path.relpath(path, env.SRC), k.co_qualname))
    return out


def main():
    ids = sys.argv[1:] or ["C%02d" % i for i in range(1, 21)]
    tmp = tempfile.mkdtemp(prefix="reachmap-")
    try:
        e = dict(os.environ, VERIF_REACH_ALL=tmp, VERIF_EVIDENCE_DIR=os.path.join(tmp, "ev"))
        with ThreadPoolExecutor(4) as ex:
            list(ex.map(lambda c: subprocess.run([os.path.join(HERE, "check"), c, "--tier", "quick"], env=e, capture_output=True), ids))
        seen = set()
        for f in os.listdir(tmp):
            if f.startswith("reach-"):
                for line in open(os.path.join(tmp, f)):
                    a, b = line.rstrip("\n").split(":", 1)
                    seen.add((a, b))
    finally:
        shutil.rmtree(tmp, ignore_errors=True)
    uni = universe()
    # class bodies are code objects too (qualname = class name): keep functions only = those whose parent is not the module... simplest: drop names that are classes
    missing = sorted(k for k in uni if k not in seen)
    per = {}
    for f, q in missing:
        per.setdefault(f, []).append(q)
    print("functions defined: %d; entered by some quick check: %d; never entered: %d" % (len(uni), len(uni & seen), len(missing)))
    for f in sorted(per):
        print("%s (%d): %s" % (f, len(per[f]), ", ".join(per[f])))
    json.dump({"defined": len(uni), "entered": len(uni & seen), "never_entered": {f: per[f] for f in sorted(per)}}, open(os.path.join(HERE, "reports", "reachmap.json"), "w"), indent=1)


main()
