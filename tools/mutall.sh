#!/bin/sh
# Full self-test: every string-replacement mutant, then every independently written seeded change (quick tier).
# Prints one line per case and a summary; exit 1 when any expected catch is missed.
cd "$(dirname "$0")/.."
/venv/bin/python tools/mutcheck.py --json /tmp/mut_all.$$.json 2>&1 | grep -E "CAUGHT|MISSED|SURVIVED|ERROR" | cut -c1-160
miss=0
for d in seeded/*/; do
  id=$(basename "$d")
  exp=$(/venv/bin/python -c "import json;print(','.join(json.load(open('$d/meta.json')).get('checks_that_catch_it') or ['${id%-*}']))")
  first=${exp%%,*}
  out=$(/venv/bin/python tools/mutcheck.py --patch "$d/patch.diff" --expect "$first" 2>&1 | grep -E "CAUGHT|MISSED|does not apply" | head -1 | cut -c1-160)
  echo "seed $id $out"
  case "$out" in *CAUGHT*) ;; *) miss=$((miss+1));; esac
done
rm -f /tmp/mut_all.$$.json
echo "SEEDS-MISSED: $miss"
