import os, json, subprocess, re, sys
props=sys.argv[1:]
kf=json.load(open("/verif/known_findings.json"))["findings"]
for p in props:
    wt="/tmp/seed/%s"%p
    if not os.path.isdir(wt):
        subprocess.run(["git","-C","/repo","worktree","add","--detach",wt,"HEAD"],check=True,capture_output=True)
    out="/tmp/seed/%s-out"%p
    os.makedirs(out,exist_ok=True)
    for k in ("x","y"):
        d=os.path.join(out,k)
        if os.path.isdir(d):
            subprocess.run(["rm","-rf",d])
    studied=[]
    for sd in sorted(os.listdir("/verif/seeded")):
        if not sd.startswith(p+"-"): continue
        m=json.load(open("/verif/seeded/%s/meta.json"%sd))
        files=re.findall(r"^diff --git a/(\S+)",open("/verif/seeded/%s/patch.diff"%sd).read(),re.M)
        studied.append("  - %s: %s" % (", ".join(files), m.get("needs_to_manifest") or m.get("trigger") or "(see file)"))
    exc=[]
    for f in kf:
        if f["property"]==p and f["status"]=="open":
            exc.append("  - "+f["what"][:260])
    open(os.path.join(out,"ROUND3.txt"),"w").write("Already studied for %s (do not reuse or closely vary; file(s) touched: what it needed to manifest):\n%s\n\nKnown exceptions on this checkout for %s (the property is already known NOT to hold here; do not build on these):\n%s\n" % (p,"\n".join(studied) or "  (none)",p,"\n".join(exc) or "  (none)"))
    print(p, len(studied), len(exc))
