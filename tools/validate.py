#!/usr/bin/env python3
"""Validate MANIFEST.json and any evidence files against the harness schemas (tooling venv has jsonschema)."""
import glob, json, os, sys
HERE = os.path.dirname(os.path.dirname(os.path.abspath(__file__)))
try:
    import jsonschema
except ImportError:
    print("validate: jsonschema not available, skipped"); sys.exit(0)
bad = 0
def check(path, schema_path):
    global bad
    if not os.path.exists(schema_path):
        return
    try:
        jsonschema.validate(json.load(open(path)), json.load(open(schema_path)))
    except Exception as e:
        bad += 1
        print("INVALID", path, str(e)[:300])
check(os.path.join(HERE, "MANIFEST.json"), "/root/.vp/MANIFEST.schema.json")
for f in sorted(glob.glob(os.path.join(HERE, "evidence", "C*.json"))):
    check(f, "/root/.vp/EVIDENCE.schema.json")
man = json.load(open(os.path.join(HERE, "MANIFEST.json")))
ids = [json.loads(l)["id"] for l in open(os.path.join(HERE, "properties.jsonl"))]
claimed = [c["property_id"] for c in man["checks"]]
na = [n["property_id"] for n in man.get("not_applicable", [])]
if sorted(claimed + na) != sorted(ids):
    bad += 1
    print("INVALID: claimed+not_applicable != properties", sorted(set(ids) - set(claimed) - set(na)))
print("validate: %s" % ("ok" if not bad else "%d problem(s)" % bad))
sys.exit(1 if bad else 0)
