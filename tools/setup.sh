#!/bin/sh
# Offline setup after a fresh restore: third-party helper (icontract) beside the checks, then a shape check.
cd "$(dirname "$0")/.." || exit 1
if [ ! -d .deps/icontract ]; then
  PIP_NO_INDEX=1 /venv/bin/python -m pip install -q --no-index --find-links /opt/veriftools/wheels --target .deps icontract || echo "setup: icontract not installed (contracts fall back to plain wrappers)"
fi
if command -v python3-vt >/dev/null 2>&1; then
  python3-vt tools/validate.py || exit 1
fi
exit 0
